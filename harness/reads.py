"""C06 machinery: datasets with a row-id column, access programs as data, execution on the real code,
the property oracle (partial read against the FULL read of the same dataset) and the inputs of the Coq model.

Import only after common.use_shadow().  Everything a replay needs is data (dataset spec + program).
"""
import copy
import os
import pickle
import shutil
import struct
import traceback
import warnings

import numpy as np
import pandas as pd

from harness import frames as F

KEYCOLS = ("id", "u", "g", "t")     # injective columns: the row id can be recovered from any of them
T_BASE = 1_600_000_000             # column t: tz-aware timestamps, one second apart
EXTRA_KINDS = ["int32", "float32", "Int64", "boolean", "str", "bytes", "dt_ns", "dt_ms", "dttz_us", "td_us",
               "cat_str", "cat_int", "bool", "uint8", "string"]


# ---------------------------------------------------------------------------------------------
# datasets

def gen_dataset(rng, force=None):
    """-> dataset spec (pure data).  0..6 written row groups incl. single-row ones; fabricated empty and
    duplicated (structurally equal) descriptors; simple / hive; 0..2 partition columns; written index."""
    force = force or {}
    nrg = force.get("nrg", rng.choice([0, 1, 1, 2, 2, 3, 3, 4, 5, 6]))
    sizes = [rng.choice([1, 1, 2, 3, 4, 5, 8, 13]) for _ in range(nrg)]
    n = sum(sizes)
    # "multi": single-file parts written one by one into a directory WITHOUT _metadata, each from the frame's columns in its own
    # order (chunks are identified by path_in_schema, their order within a row group is the writer's business), opened as a
    # directory or as an explicit list of files
    scheme = force.get("scheme", rng.choice(["simple", "simple", "simple", "hive", "hive", "hive", "drill", "multi", "multi"]))
    if scheme == "multi" and nrg == 0:
        scheme = "simple"
    part = []
    if scheme in ("hive", "drill") and n > 0:
        part = force.get("part", rng.choice([[], ["p"], ["p"], ["p", "q"], ["q"]]))
    if part and nrg > 3:
        sizes = sizes[:3]
        n = sum(sizes)
    extra = []
    if n > 0:
        for i in range(rng.choice([0, 1, 2, 3])):
            k = rng.choice(EXTRA_KINDS)
            cs = {"name": "x%d_%s" % (i, k), "kind": k, "nulls": rng.choice(["none", "some", "some", "first", "all"]),
                  "seed": rng.randrange(1 << 30)}
            if k.startswith("dttz"):
                cs["tz"] = rng.choice(F.TZS)
            if k.startswith("cat_"):
                cs["ncat"] = rng.choice([1, 2, 5])
            extra.append(cs)
    if n > 0 and nrg > 0 and rng.random() < 0.45:
        # columns whose pandas dtype is decided from the NULL STATISTICS of the row groups (python ints / bools in an object
        # column: no dtype in the pandas metadata), with the nulls confined to some row groups (possibly none, never all when
        # there are several): a partial read that avoids them must still have the dtype of the full read
        for k in rng.sample(["oint", "obool"], rng.choice([1, 2])):
            m = len(sizes)
            nullrgs = sorted(rng.sample(range(m), rng.choice([0, 1, 1, 1, 2]) if m > 1 else rng.choice([0, 1])))
            if len(nullrgs) == m and m > 1:
                nullrgs = nullrgs[:-1]
            extra.append({"name": "x%d_%s" % (len(extra), k), "kind": k, "nulls": "rgs", "nullrgs": nullrgs, "seed": rng.randrange(1 << 30)})
    if force.get("rich") and n > 0:
        # every dtype family whose read depends on handle state (time zones, categories, nullable/masked, text, units)
        extra = [{"name": "x0_dttz_us", "kind": "dttz_us", "nulls": "some", "seed": 11, "tz": "Europe/Berlin"},
                 {"name": "x1_cat_str_ordered", "kind": "cat_str_ordered", "nulls": "some", "seed": 12, "ncat": 5},
                 {"name": "x2_Int64", "kind": "Int64", "nulls": "some", "seed": 13},
                 {"name": "x3_str", "kind": "str", "nulls": "some", "seed": 14},
                 {"name": "x4_dt_ms", "kind": "dt_ms", "nulls": "first", "seed": 15},
                 {"name": "x5_cat_int", "kind": "cat_int", "nulls": "none", "seed": 16, "ncat": 2},
                 {"name": "x6_boolean", "kind": "boolean", "nulls": "some", "seed": 17},
                 {"name": "x7_dttz_ns", "kind": "dttz_ns", "nulls": "none", "seed": 18, "tz": "US/Pacific"}]
    index = None
    if force.get("index") and n > 0:
        index = force["index"]
    elif n > 0 and rng.random() < 0.3:
        index = rng.choice(["id", "u", "t", "t", "rix"])
    fab = []
    if n > 0 and rng.random() < 0.5:
        for _ in range(rng.choice([1, 1, 2])):
            if rng.random() < 0.6:
                fab.append(["empty", rng.randrange(8), rng.randrange(8)])      # (source, insert position) mod current length
            else:
                fab.append(["dup", rng.randrange(8), rng.randrange(8)])
    if scheme == "multi":
        how = rng.choice(["dir", "list", "list"])
        fab = []
        if index == "rix":
            index = None
    elif scheme == "simple":
        how = rng.choice(["path", "path", "filelike"])
    else:
        how = rng.choice(["dir", "dir", "_metadata"])
    return {"sizes": sizes, "scheme": scheme, "part": part, "extra": extra, "index": index, "fab": fab, "open": how,
            "mod": [rng.choice([2, 3]), rng.choice([2, 3])], "tz": rng.choice(["US/Pacific", "Europe/Berlin", "UTC", "Asia/Kolkata"]),
            "perm_seed": rng.randrange(1 << 30), "same_order": rng.random() < 0.15,
            "tunit": rng.choice(["us", "ns", "ms"]), "pn": rng.random() < 0.8,     # pandas_nulls on / off
            # several data pages per column chunk (offsets inside a row group's slice of the views), data page v1 / v2
            "page_size": rng.choice([None, None, 64, 200]), "dpv": rng.choice([1, 1, 2])}


def dataset_frame(ds):
    n = sum(ds["sizes"])
    data = {"id": np.arange(n, dtype="int64"), "u": ["r%05d" % i for i in range(n)],
            "g": np.arange(n, dtype="float64") + 0.5,
            # injective, NOT monotone across row groups (levels built by sorting/merging per-row-group values get re-ordered)
            "r": (np.arange(n, dtype="int64") * 37 + 11) % 101 - 50}
    df = pd.DataFrame(data)
    if n == 0:
        df["u"] = df["u"].astype(object)
    unit = ds.get("tunit", "us")
    per = {"ms": 10**3, "us": 10**6, "ns": 10**9}[unit]
    tvals = ((T_BASE + np.arange(n, dtype="int64")) * per).view("M8[%s]" % unit)
    df["t"] = pd.Series(tvals).dt.tz_localize("UTC").dt.tz_convert(ds.get("tz", "US/Pacific"))
    for cs in ds["extra"]:
        if cs["kind"] in ("oint", "obool"):
            vals = [(int(i) * 7 - 3 + (2**53 + 1 if i == n - 1 else 0)) if cs["kind"] == "oint" else bool((i // 2) % 2) for i in range(n)]
            pos = 0
            for j, sz in enumerate(ds["sizes"]):
                if j in cs.get("nullrgs", ()) and sz:
                    vals[pos + (sz - 1 if cs["kind"] == "obool" else 0)] = None
                pos += sz
            df[cs["name"]] = pd.Series(vals, dtype="object")
            continue
        df[cs["name"]] = F.col_values(cs, n)
    m1, m2 = ds["mod"]
    if "p" in ds["part"]:
        df["p"] = (np.arange(n) % m1).astype("int64")
    if "q" in ds["part"]:
        df["q"] = [["a", "b", "c"][(i // 2) % m2] for i in range(n)]
    if ds["index"] == "rix":
        # a NAMED range index with start/step: stored in the pandas metadata only (kind 'range'); its labels are positional
        df.index = pd.RangeIndex(start=5, stop=5 + 2 * n, step=2, name="rix")
    elif ds["index"]:
        df = df.set_index(ds["index"])
    return df


def _refooter_simple(path, fmd):
    data = open(path, "rb").read()
    size = struct.unpack("<I", data[-8:-4])[0]
    foot = bytes(fmd.to_bytes())
    with open(path, "wb") as f:
        f.write(data[:len(data) - 8 - size] + foot + struct.pack("<I", len(foot)) + b"PAR1")


def build_dataset(ds, root):
    """write the dataset with the real writer; returns the path to open"""
    import fastparquet
    from fastparquet import writer
    df = dataset_frame(ds)
    offs = [0]
    for s in ds["sizes"][:-1]:
        offs.append(offs[-1] + s)
    kw = {}
    if ds["sizes"]:
        kw["row_group_offsets"] = offs
    if ds["index"] and ds["index"] != "rix":
        kw["write_index"] = True
    saved = writer.MAX_PAGE_SIZE, writer.DATAPAGE_VERSION
    try:
        if ds.get("page_size"):
            writer.MAX_PAGE_SIZE = ds["page_size"]
        writer.DATAPAGE_VERSION = ds.get("dpv", 1)
        if ds["scheme"] == "multi":
            import random as _r
            path = os.path.join(root, "ds")
            os.makedirs(path)
            pr = _r.Random(ds.get("perm_seed", 0))
            kw.pop("row_group_offsets", None)
            pos = 0
            for i, sz in enumerate(ds["sizes"]):
                part = df.iloc[pos:pos + sz]
                pos += sz
                cols = list(part.columns)
                if i and not ds.get("same_order"):
                    pr.shuffle(cols)            # the first file fixes the schema order; later files list their chunks differently
                fastparquet.write(os.path.join(path, "part.%d.parquet" % i), part[cols], **kw)
        elif ds["scheme"] == "simple":
            path = os.path.join(root, "ds.parquet")
            fastparquet.write(path, df, **kw)
        else:
            path = os.path.join(root, "ds")
            fastparquet.write(path, df, file_scheme=ds["scheme"], partition_on=ds["part"] or [], **kw)
    finally:
        writer.MAX_PAGE_SIZE, writer.DATAPAGE_VERSION = saved
    if ds["fab"]:
        pf = fastparquet.ParquetFile(path)
        rgs = list(pf.fmd.row_groups)
        if rgs:
            for kind, a, b in ds["fab"]:
                src = rgs[a % len(rgs)]
                if kind == "empty":
                    e = copy.deepcopy(src)
                    e.num_rows = 0
                    for c in e.columns:
                        c.meta_data.num_values = 0
                    new = e
                else:
                    new = src
                rgs.insert(b % (len(rgs) + 1), new)
            fmd = copy.copy(pf.fmd)
            fmd.row_groups = rgs
            fmd.num_rows = sum(r.num_rows for r in rgs)
            if ds["scheme"] == "simple":
                _refooter_simple(path, fmd)
            else:
                writer.write_common_metadata(os.path.join(path, "_metadata"), fmd, no_row_groups=False)
    return path


def open_dataset(ds, path):
    import fastparquet
    kw = {"pandas_nulls": bool(ds.get("pn", True))}
    if ds["open"] == "list":
        return fastparquet.ParquetFile([os.path.join(path, "part.%d.parquet" % i) for i in range(len(ds["sizes"]))], **kw)
    if ds["open"] == "filelike":
        return fastparquet.ParquetFile(open(path, "rb"), **kw)
    if ds["open"] == "_metadata":
        return fastparquet.ParquetFile(os.path.join(path, "_metadata"), **kw)
    return fastparquet.ParquetFile(path, **kw)


# ---------------------------------------------------------------------------------------------
# access programs (data)

def gen_slice(rng):
    def end():
        return rng.choice([None, None, None, 0, 1, 2, 3, 4, 5, 7, -1, -2, -3, -5, -9, 9])
    return ["slice", end(), end(), rng.choice([None, None, None, None, 1, 2, 3, -1, -1, -2, -3, 0 if rng.random() < 0.2 else 1])]


def gen_op(rng, ds):
    r = rng.random()
    if r < 0.5:
        return gen_slice(rng)
    if r < 0.75:
        return ["pick", rng.choice([0, 0, 1, 2, 3, 5, -1, -1, -2, -4, 7, -8])]
    if r < 0.85 and ds["open"] != "filelike":        # an open file object cannot be pickled (Python, not fastparquet)
        return ["pickle"]
    if r < 0.93:
        return ["copy"]
    return ["deepcopy"]


def gen_cols(rng, avail):
    r = rng.random()
    if r < 0.3:
        return None
    if r < 0.34:
        return []
    if r < 0.37:
        return [rng.choice(avail), "no_such_column"]
    k = rng.randint(1, len(avail))
    cols = rng.sample(avail, k)
    if rng.random() < 0.7 and not any(c in KEYCOLS for c in cols):
        cols.insert(rng.randrange(len(cols) + 1), rng.choice(KEYCOLS))
    if rng.random() < 0.08:
        cols.append(rng.choice(cols))                    # a repeated name
    return cols


def gen_idx(rng, stored):
    """index argument: default / False / one available column (stored or partition)"""
    r = rng.random()
    if r < 0.45:
        return {"kind": "default", "names": []}
    if r < 0.65:
        return {"kind": "false", "names": []}
    name = rng.choice(stored)
    return {"kind": rng.choice(["str", "list"]), "names": [name]}


def gen_program(rng, ds, avail, stored, cats):
    stored = avail if rng.random() < 0.5 else stored        # index candidates: with or without the partition columns
    nops = rng.choice([0, 0, 1, 1, 1, 2, 2, 3])
    ops = [gen_op(rng, ds) for _ in range(nops)]
    n = sum(ds["sizes"])
    r = rng.random()
    if r < 0.30:
        rd = ["to_pandas", gen_cols(rng, avail), gen_idx(rng, stored)]
    elif r < 0.55:
        c = None
        if cats and rng.random() < 0.5:
            c = rng.choice([[], [rng.choice(cats)], {rng.choice(cats): 7}])
        rd = ["iter", gen_cols(rng, avail), gen_idx(rng, stored), c]
    elif r < 0.85:
        bounds = [0, 1, n, n + 3]
        acc = 0
        for s in ds["sizes"]:
            acc += s
            bounds += [acc - 1, acc, acc + 1]
        rd = ["head", max(0, rng.choice(bounds + [rng.randint(0, n + 1)])), gen_cols(rng, avail), gen_idx(rng, stored)]
    elif r < 0.93:
        rd = ["count"]
    else:
        rd = ["len"]
    prog = {"ops": ops, "rd": rd}
    if rd[0] in ("to_pandas", "iter", "count") and "id" in avail and rng.random() < 0.3:
        # row-group level filter on the injective column id (comparison operators only: with exact min/max statistics, C04, a
        # row group is kept iff one of its rows satisfies the condition - the oracle's own evaluation, independent of filter_row_groups)
        bounds = [0, 1, n // 2, n - 1, n, n + 2]
        acc = 0
        for s in ds["sizes"]:
            acc += s
            bounds += [acc - 1, acc]
        prog["filters"] = [["id", rng.choice(["<", "<=", ">", ">="]), rng.choice(bounds)]]
    return prog


# ---------------------------------------------------------------------------------------------
# execution on the real code

def idx_arg(idx):
    k = idx["kind"]
    if k == "default":
        return None
    if k == "false":
        return False
    if k == "str":
        return idx["names"][0]
    return list(idx["names"])


def err_name(e):
    if isinstance(e, IndexError):
        return "IndexError"
    if isinstance(e, ValueError):
        return "ValueError"
    if isinstance(e, UnboundLocalError):
        return "UnboundLocalError"
    return "Other:" + type(e).__name__


def apply_ops(pf, ops):
    for op in ops:
        if op[0] == "slice":
            pf = pf[slice(op[1], op[2], op[3])]
        elif op[0] == "pick":
            pf = pf[op[1]]
        elif op[0] == "pickle":
            pf = pickle.loads(pickle.dumps(pf))
        elif op[0] == "copy":
            pf = copy.copy(pf)
        elif op[0] == "deepcopy":
            pf = copy.deepcopy(pf)
        else:
            raise AssertionError(op)
    return pf


def multiindex_unusable(df):
    """a frame whose MultiIndex is not a MultiIndex: level codes that are not positions in the level (raw values stored as codes,
    levels left at their [None] placeholder).  Looking at .levels / .codes is safe; materialising such an index is not (segfault)."""
    if not isinstance(df.index, pd.MultiIndex):
        return None
    for i, (lev, codes) in enumerate(zip(df.index.levels, df.index.codes)):
        codes = np.asarray(codes)
        if len(codes) and len(lev) == 1 and lev[0] is None:
            return "level %d (%r) was left at its [None] placeholder for %d rows" % (i, df.index.names[i], len(codes))
        if len(codes) and (codes.max() >= len(lev) or codes.min() < -1):
            return "level %d (%r): codes up to %d for a level of %d labels" % (i, df.index.names[i], int(codes.max()), len(lev))
    return None


def run_program(pf, prog):
    """-> ('ok', [DataFrame...]) | ('ok', int) | ('fail', errname, message)"""
    r = _run_program(pf, prog)
    if r[0] == "ok" and not isinstance(r[1], int):
        for df in r[1]:
            bad = multiindex_unusable(df)
            if bad:
                return ("fail", "Other:UnusableMultiIndex", "the frame returned has an index that cannot be materialised: " + bad, "")
    return r


def _run_program(pf, prog):
    try:
        h = apply_ops(pf, prog["ops"])
        rd = prog["rd"]
        flt = [tuple(f) for f in prog["filters"]] if prog.get("filters") else None
        if rd[0] == "count" and flt:
            return ("ok", int(h.count(filters=flt)))
        if rd[0] == "to_pandas":
            kw = {"filters": flt} if flt else {}
            if rd[1] is not None:
                kw["columns"] = list(rd[1])
            if rd[2]["kind"] != "default":
                kw["index"] = idx_arg(rd[2])
            return ("ok", [h.to_pandas(**kw)])
        if rd[0] == "iter":
            kw = {"filters": flt} if flt else {}
            if rd[1] is not None:
                kw["columns"] = list(rd[1])
            if rd[2]["kind"] != "default":
                kw["index"] = idx_arg(rd[2])
            if rd[3] is not None:
                kw["categories"] = rd[3]
            return ("ok", list(h.iter_row_groups(**kw)))
        if rd[0] == "head":
            kw = {}
            if rd[2] is not None:
                kw["columns"] = list(rd[2])
            if rd[3]["kind"] != "default":
                kw["index"] = idx_arg(rd[3])
            return ("ok", [h.head(rd[1], **kw)])
        if rd[0] == "count":
            c, i = int(h.count()), int(h.info["rows"])
            if c != i:
                return ("fail", "Other:InfoMismatch", "count() = %d but info['rows'] = %d" % (c, i), "")
            return ("ok", c)
        if rd[0] == "len":
            c, i = int(len(h)), int(h.info["row_groups"])
            if c != i:
                return ("fail", "Other:InfoMismatch", "len() = %d but info['row_groups'] = %d" % (c, i), "")
            return ("ok", c)
        raise AssertionError(rd)
    except Exception as e:      # noqa
        return ("fail", err_name(e), "%s: %s" % (type(e).__name__, str(e)[:200]), traceback.format_exc()[-1200:])


def index_names(df):
    """names of the index levels that hold data; a RangeIndex is positional (its labels are not data), named or not"""
    if isinstance(df.index, pd.RangeIndex):
        return []
    return [n for n in df.index.names if n is not None]


def range_name(df):
    return df.index.name if isinstance(df.index, pd.RangeIndex) else None


def recover_ids(df):
    """row ids of a frame from any injective column / index level; None when none was read"""
    def conv(name, values):
        if name == "id":
            return [int(v) for v in values]
        if name == "u":
            return [int(str(v)[1:]) for v in values]
        if name == "t":
            return [int(round(pd.Timestamp(v).timestamp())) - T_BASE for v in values]
        return [int(round(float(v) - 0.5)) for v in values]
    try:
        for name in KEYCOLS:
            if name in df.columns:
                return conv(name, df[name].tolist())
        for name in KEYCOLS:
            if name in df.index.names:
                return conv(name, df.index.get_level_values(name).tolist())
    except Exception:       # garbage in a key column: report it as unrecoverable, the oracle compares the cells
        return "garbled"
    return None


def frame_obs(df):
    ids = recover_ids(df)
    return [[str(c) for c in df.columns], index_names(df), ids if ids is not None else ["n", len(df)]]


def dtype_sig(dt):
    """what of a dtype must agree between a partial read and the full read: kind, width, NULLABILITY (Int64 vs int64, boolean vs
    bool, float64 under pandas_nulls=False: a selection inherits the dtypes its parent derived from the null statistics of ALL
    its row groups), datetime unit and time zone; text types are identified."""
    if isinstance(dt, pd.CategoricalDtype):
        return "category"
    if isinstance(dt, pd.DatetimeTZDtype):
        return "datetime64[%s, %s]" % (dt.unit, dt.tz)
    s = str(dt)
    if s in ("string", "str") or s.startswith("string"):
        return "object"
    return s


def frame_dtypes(df):
    out = {}
    for c in df.columns:
        out[str(c)] = dtype_sig(df[c].dtype)
    for n in index_names(df):
        out[str(n)] = dtype_sig(df.index.get_level_values(n).dtype)
    return out


def frame_categories(df):
    """name -> [ordered flag, label list] for the categorical columns"""
    out = {}
    for c in df.columns:
        if isinstance(df[c].dtype, pd.CategoricalDtype):
            out[str(c)] = [bool(df[c].cat.ordered), [repr(x) for x in df[c].cat.categories]]
    return out


def frame_cells(df):
    """name -> canonical cell list, for the columns and the NAMED index levels"""
    out = {}
    for c in df.columns:
        out[str(c)] = F.cells(df[c])
    for n in index_names(df):
        out[str(n)] = F.cells(pd.Series(df.index.get_level_values(n)))
    return out


# ---------------------------------------------------------------------------------------------
# the property oracle: what the text says, from the full read only (CPython does the slicing)

_CMP = {"<": lambda a, b: a < b, "<=": lambda a, b: a <= b, ">": lambda a, b: a > b, ">=": lambda a, b: a >= b}


def keep_mask(sel, filters, ids):
    """decision per selected part: does one of its rows satisfy the filter (a conjunction of comparisons on id)?
    ids: full-read position -> value of the column id"""
    return [any(all(_CMP[op](ids[p], v) for _, op, v in filters) for p in part) for part in sel]


def expected_selection(parts, ops, filters=None, ids=None):
    """-> ('ok', selected parts) | ('fail', errname)"""
    if filters:
        r = expected_selection(parts, ops)
        if r[0] == "fail":
            return r
        m = keep_mask(r[1], filters, ids)
        return ("ok", [p for p, k in zip(r[1], m) if k])
    sel = list(parts)
    try:
        for op in ops:
            if op[0] == "slice":
                sel = sel[slice(op[1], op[2], op[3])]
            elif op[0] == "pick":
                sel = [sel[op[1]]]
    except IndexError:
        return ("fail", "IndexError")
    except ValueError:
        return ("fail", "ValueError")
    return ("ok", sel)


def dedup(l):
    out = []
    for x in l:
        if x not in out:
            out.append(x)
    return out


def oracle(base, prog, res):
    """the property on one (program, result); a frame that cannot even be inspected (categorical codes outside their label list,
    ...) is a failing input, not a harness error"""
    try:
        return _oracle(base, prog, res)
    except Exception as e:      # noqa
        return [("cells", "the frame(s) returned cannot be inspected: %s: %s (%s)" % (type(e).__name__, str(e)[:120], traceback.format_exc().strip().split("\n")[-3].strip()[:120]))]


def _oracle(base, prog, res):
    """base: dict(parts, full_cells, full_cols, full_index, avail).  Returns list of (what, text)."""
    probs = []
    exp = expected_selection(base["parts"], prog["ops"], prog.get("filters"), base["full_ids"])
    rd = prog["rd"]
    if exp[0] == "fail":
        if not (res[0] == "fail" and res[1] == exp[1]):
            probs.append(("error", "selecting row groups must raise %s, got %s" % (exp[1], _short(res))))
        return probs
    sel = exp[1]
    flat = [p for part in sel for p in part]
    if rd[0] == "count":
        if res != ("ok", len(flat)):
            probs.append(("count", "count() = %s but the selected part of the full read has %d rows" % (_short(res), len(flat))))
        return probs
    if rd[0] == "len":
        if res != ("ok", len(sel)):
            probs.append(("count", "len() = %s but %d row groups are selected" % (_short(res), len(sel))))
        return probs
    cols = rd[1] if rd[0] != "head" else rd[2]
    idx = rd[2] if rd[0] != "head" else rd[3]
    avail = base["avail"]
    inames = idx["names"] if idx["kind"] in ("str", "list") else (base["full_index"] if idx["kind"] == "default" else [])
    asked = (list(cols) if cols is not None else list(avail))
    bad = [c for c in asked + list(inames) if c not in avail]
    if bad:
        if rd[0] == "iter" and not sel and res == ("ok", []):
            return probs        # nothing to iterate over: no read is attempted, nothing is delivered
        if not (res[0] == "fail" and res[1] == "ValueError"):
            probs.append(("error", "a name that is not a column (%r) must be refused with ValueError, got %s" % (bad, _short(res))))
        return probs
    if res[0] == "fail":
        probs.append(("error", "read raised %s" % res[2]))
        return probs
    frames = res[1]
    want_cols = [c for c in dedup(asked) if c not in inames]
    if rd[0] == "to_pandas":
        want_rows = [flat]
    elif rd[0] == "head":
        want_rows = [flat[:rd[1]]]
    else:
        if not want_cols:
            return probs        # iteration of frames without any data column: nothing is claimed (C06_iter_concat's premise)
        want_rows = [list(p) for p in sel if len(p) > 0]
    if len(frames) != len(want_rows):
        probs.append(("rows", "%d frames delivered, %d non-empty row groups selected" % (len(frames), len(want_rows))))
        return probs
    for k, (df, rows) in enumerate(zip(frames, want_rows)):
        got_cols = [str(c) for c in df.columns]
        if got_cols != want_cols:
            probs.append(("columns", "frame %d has columns %r, requested %r (index %r)" % (k, got_cols, want_cols, inames)))
        if index_names(df) != list(inames):
            probs.append(("columns", "frame %d has index %r, requested %r" % (k, index_names(df), list(inames))))
        if idx["kind"] == "default" and not inames and range_name(df) != base["full_range_name"]:
            probs.append(("columns", "frame %d: the range index is named %r, that of the full read %r" % (k, range_name(df), base["full_range_name"])))
        if len(df) != len(rows):
            probs.append(("rows", "frame %d has %d rows, the corresponding part of the full read has %d" % (k, len(df), len(rows))))
            continue
        # dtypes (kind, width, datetime unit, time zone) as in the full read; exempt: columns whose category-ness the caller
        # chose with categories=, and partition columns (their category list is that of the selected paths)
        dts = frame_dtypes(df)
        cats_arg = rd[3] if rd[0] == "iter" else None
        if len(df.columns) and str(df.columns.dtype) != base["full_columns_dtype"]:
            probs.append(("dtype", "frame %d: the column labels have dtype %s, those of the full read %s" % (k, df.columns.dtype, base["full_columns_dtype"])))
        for name, sig in dts.items():
            ref = base["full_dtypes"].get(name)
            if ref is None or name in base["pcols"]:
                continue
            if cats_arg is not None and "category" in (sig, ref):
                continue
            if name in index_names(df) and "category" in (sig, ref) and sig != ref:
                continue        # a categorical column used as index is delivered as its labels' Index or as CategoricalIndex
            if sig != ref:
                probs.append(("dtype", "frame %d %s %r has dtype %s, the full read has %s" % (
                    k, "index level" if name in index_names(df) else "column", name, sig, ref)))
        if cats_arg is None:
            # (also for an EMPTY frame: full.head(0) keeps the labels; what an empty SELECTION - no row group to read a
            #  dictionary from - delivers instead is the open finding C06-empty-selection-placeholder-categories)
            for name, oc in frame_categories(df).items():
                ref = base["full_categories"].get(name)
                if ref is not None and name not in base["pcols"] and oc != ref:
                    probs.append(("dtype", "frame %d categorical column %r has (ordered, labels) %r, the full read has %r" % (
                        k, name, oc, ref)))
        cells = frame_cells(df)
        for name, cl in cells.items():
            ref = base["full_cells"].get(name)
            if ref is None:
                continue
            want = [ref[p] for p in rows]
            if not _cells_equal(cl, want):
                where = "index" if name in index_names(df) else "cells"
                i = next(i for i in range(len(want)) if not _cell_eq(cl[i], want[i]))
                probs.append((where, "frame %d %s %r row %d: partial read has %r, full read has %r (full-read position %d)" % (
                    k, "index level" if where == "index" else "column", name, i, cl[i], want[i], rows[i])))
        if len(probs) > 4:
            break
    return probs


def oracle_rows(base, prog):
    """the rows the property's text selects, as full-read POSITIONS (CPython does the slicing):
    ['fail', err] | ['ok', n] | ['ok', [[positions]...]]"""
    exp = expected_selection(base["parts"], prog["ops"], prog.get("filters"), base["full_ids"])
    if exp[0] == "fail":
        return ["fail", exp[1]]
    sel = exp[1]
    flat = [p for part in sel for p in part]
    rd = prog["rd"]
    if rd[0] == "count":
        return ["ok", len(flat)]
    if rd[0] == "len":
        return ["ok", len(sel)]
    if rd[0] == "to_pandas":
        return ["ok", [flat]]
    if rd[0] == "head":
        return ["ok", [flat[:rd[1]]]]
    inames = rd[2]["names"] if rd[2]["kind"] in ("str", "list") else (base["full_index"] if rd[2]["kind"] == "default" else [])
    asked = list(rd[1]) if rd[1] is not None else list(base["avail"])
    if not [c for c in asked if c not in inames]:
        return None             # frames without a data column: nothing is claimed about iteration
    return ["ok", [list(p) for p in sel if p]]


def rows_only(model):
    """canonical model output reduced to what oracle_rows states; None when the model refuses the column request"""
    if model[0] == "fail":
        return None if model[1] == "ValueError" else model
    if isinstance(model[1], int):
        return model
    return ["ok", [f[2] for f in model[1]]]


def _cell_eq(x, y):
    if x == y:
        return True
    # the same number as float and as int (a column read as plain values under categories=[...] with pandas_nulls=False is
    # float64 where the full read holds integer labels): the VALUES agree; dtypes are compared separately where they must agree
    for a, b in ((x, y), (y, x)):
        if isinstance(a, tuple) and len(a) == 2 and a[0] == "f" and isinstance(b, int) and not isinstance(b, bool):
            import struct as _st
            v = _st.unpack("<d", _st.pack("<Q", a[1]))[0]
            return v == b
    # +0.0 / -0.0 are the same value
    return (isinstance(x, tuple) and isinstance(y, tuple) and x[0] == "f" and y[0] == "f"
            and (x[1] << 1) % (1 << 64) == 0 and (y[1] << 1) % (1 << 64) == 0)


def _cells_equal(a, b):
    return len(a) == len(b) and all(_cell_eq(x, y) for x, y in zip(a, b))


def _short(res):
    if res[0] == "fail":
        return res[2] if len(res) > 2 else res[1]
    if isinstance(res[1], int):
        return str(res[1])
    return "%d frame(s)" % len(res[1])


# ---------------------------------------------------------------------------------------------
# model inputs

def model_args(base, prog):
    """arguments of the pqref commands read_prog / spec_prog for this program"""
    def nm(l):
        return [s.encode("utf-8") for s in l]

    def o(i):
        return [] if i is None else [i]
    ops = []
    for op in prog["ops"]:
        if op[0] == "slice":
            ops.append(["slice", o(op[1]), o(op[2]), o(op[3])])
        elif op[0] == "pick":
            ops.append(["pick", op[1]])
        else:
            ops.append(op[0])
    if prog.get("filters"):
        r0 = expected_selection(base["parts"], prog["ops"])
        if r0[0] == "ok":
            ops.append(["keep", [int(k) for k in keep_mask(r0[1], prog["filters"], base["full_ids"])]])

    def ropts(cols, idx):
        c = [] if cols is None else [nm(cols)]
        if idx["kind"] == "default":
            i = "default"
        elif idx["kind"] == "false":
            i = "false"
        else:
            i = nm(idx["names"])
        return c, i
    rd = prog["rd"]
    if rd[0] == "to_pandas":
        c, i = ropts(rd[1], rd[2])
        r = ["to_pandas", c, i]
    elif rd[0] == "iter":
        c, i = ropts(rd[1], rd[2])
        r = ["iter", c, i]
    elif rd[0] == "head":
        c, i = ropts(rd[2], rd[3])
        r = ["head", rd[1], c, i]
    else:
        r = rd[0]
    common = [nm(base["cols"]), nm(base["pcols"]), nm(base["index"]), ops, r]
    flat = [i for g in base["rgs"] for i in g[2]]
    idparts, pos = [], 0
    for c in base["counts"]:
        idparts.append(flat[pos:pos + c])
        pos += c
    return (["read_prog", base["rgs"]] + common, ["spec_prog", idparts] + common,
            ["spec_prog", [list(p) for p in base["parts"]]] + common)


def sym(x):
    return bytes(x).decode("utf-8") if isinstance(x, (bytes, bytearray)) else x


def canon_model(out):
    """pqref answer -> the same canonical form as canon_impl"""
    if not isinstance(out, list) or not out:
        return ["?", repr(out)]
    if sym(out[0]) == "fail":
        return ["fail", sym(out[1])]
    if sym(out[0]) == "ok":
        body = out[1]
        if sym(body[0]) == "nat":
            return ["ok", body[1]]
        frames = []
        for f in body[1:]:
            cols = [bytes(b).decode("utf-8") for b in f[0]]
            idx = [bytes(b).decode("utf-8") for b in f[1]]
            rows = [("unwritten" if r == [] else r) for r in f[2]]
            frames.append([cols, idx, rows])
        return ["ok", frames]
    return ["?", repr(out)[:200]]


def canon_impl(res):
    if res[0] == "fail":
        return ["fail", res[1]]
    if isinstance(res[1], int):
        return ["ok", res[1]]
    return ["ok", [frame_obs(df) for df in res[1]]]


def align(model, impl):
    """where the real frame carries no key column only its length is observable: reduce the model's rows likewise"""
    if model[0] != "ok" or impl[0] != "ok" or not isinstance(model[1], list) or not isinstance(impl[1], list):
        return model
    out = []
    for k, f in enumerate(model[1]):
        if k < len(impl[1]) and len(impl[1][k][2]) == 2 and impl[1][k][2][0] == "n":
            out.append([f[0], f[1], ["n", len(f[2])]])
        else:
            out.append(f)
    return ["ok", out]


# ---------------------------------------------------------------------------------------------
# one dataset: build, observe the base facts, run all programs

def base_facts(ds, pf):
    """what the model and the oracle are given about the dataset"""
    rgs = list(pf.row_groups)
    classes = []
    rg_desc = []
    for rg in rgs:
        for k, other in enumerate(classes):
            if other == rg:
                cid = k
                break
        else:
            classes.append(rg)
            cid = len(classes) - 1
        # `rows d`: what core.read_row_group delivers for this descriptor (read on its own, outside any handle loop)
        df = pf.read_row_group_file(rg, ["id"], None, index=False)
        rg_desc.append([cid, int(rg.num_rows), [int(v) for v in df["id"].tolist()]])
    # the hypotheses of the theorems, instantiated on this dataset:
    #   deser (ser l) = Some l      the row-group list survives the thrift round trip pickling uses (and deepcopy)
    #   deqb reflects equality      structurally equal descriptors deliver the same rows
    hyp = []
    try:
        # (through the handle: ParquetFile.__setstate__ decodes the file paths the thrift reader delivers as bytes)
        def ser(l):
            # (compared in serialised form: handles built from a list of files keep the file path as text in every chunk, the
            #  thrift reader delivers bytes and __setstate__ decodes the one readers use - that of the first chunk)
            return [bytes(x.to_bytes()) for x in l]
        if ds["scheme"] == "multi":
            if ds["open"] != "filelike" and ser(pickle.loads(pickle.dumps(pf)).row_groups) != ser(rgs):
                hyp.append("pickle.loads(pickle.dumps(pf)).row_groups != pf.row_groups (serialised)")
            if ser(copy.deepcopy(pf).row_groups) != ser(rgs):
                hyp.append("copy.deepcopy(pf).row_groups != pf.row_groups (serialised)")
        elif ds["open"] != "filelike" and not (list(pickle.loads(pickle.dumps(pf)).row_groups) == rgs):
            hyp.append("pickle.loads(pickle.dumps(pf)).row_groups != pf.row_groups")
        if ds["scheme"] != "multi" and not (list(copy.deepcopy(pf).row_groups) == rgs):
            hyp.append("copy.deepcopy(pf).row_groups != pf.row_groups")
    except Exception as e:      # noqa
        hyp.append("round trip of the metadata raised %s: %s" % (type(e).__name__, e))
    seen = {}
    for g in rg_desc:
        if g[0] in seen and seen[g[0]] != g[2]:
            hyp.append("structurally equal row-group descriptors deliver different rows")
        seen[g[0]] = g[2]
    with warnings.catch_warnings():
        warnings.simplefilter("ignore")
        try:
            full = pf.to_pandas()
        except Exception as e:      # noqa: the full read itself fails - reported as a failing input by the caller
            return {"full_error": "%s: %s\n%s" % (type(e).__name__, e, traceback.format_exc()[-1500:]), "rgs": rg_desc}
    counts = [int(rg.num_rows) for rg in rgs]
    parts, pos = [], 0
    for c in counts:
        parts.append(list(range(pos, pos + c)))
        pos += c
    pcols = [str(c) for c in pf.cats]
    cols = [str(c) for c in pf.columns]
    return {"rgs": rg_desc, "counts": counts, "parts": parts, "total": pos, "full_len": len(full), "hypotheses_violated": hyp,
            "full_cells": frame_cells(full), "full_dtypes": frame_dtypes(full), "full_categories": frame_categories(full), "full_columns_dtype": str(full.columns.dtype), "full_range_name": range_name(full), "full_cols": [str(c) for c in full.columns], "full_index": index_names(full),
            "cols": cols, "pcols": pcols, "index": [ds["index"]] if ds["index"] and ds["index"] != "rix" else [], "avail": cols + pcols,
            "cat_cols": [c["name"] for c in ds["extra"] if c["kind"].startswith("cat_")],
            "full_ids": recover_ids(full)}


def classify(ds, base, prog, probs, res):
    rd = prog["rd"]
    idx = rd[2] if rd[0] in ("to_pandas", "iter") else (rd[3] if rd[0] == "head" else {"kind": "none", "names": []})
    exp = expected_selection(base["parts"], prog["ops"], prog.get("filters"), base["full_ids"])
    nsel = len(exp[1]) if exp[0] == "ok" else -1
    nonempty = sum(1 for p in exp[1] if p) if exp[0] == "ok" else -1
    what = probs[0][0] if probs else None
    inames = idx["names"]
    kinds = {c["name"]: c["kind"] for c in ds["extra"]}
    ikinds = [kinds.get(n, n) for n in inames]
    comp = "read"
    msg = res[2] if res[0] == "fail" else ""
    if len(inames) >= 2:
        comp = "multi-index"
    elif base["pcols"] and nsel == 0 and what in ("columns", "error"):
        comp = "empty-selection-partition-columns"
    elif nonempty == 0 and probs and all(p[0] == "dtype" and "categorical column" in p[1] for p in probs):
        # no row group selected (empty slice, a filter that keeps nothing): no dictionary page is read
        comp = "empty-selection-placeholder-categories"
    elif "NAType" in msg and any(k in F.NULLABLE_INT or k == "boolean" or
                                 (k == "cat_int" and rd[0] == "iter" and rd[3] is not None and n not in rd[3])   # read as nullable int
                                 for n, k in zip(inames, ikinds)):
        comp = "nullable-index"
    elif (rd[0] == "iter" and rd[3] is not None and "NAType" in msg
          and any(c["kind"] == "cat_int" and c["nulls"] != "none" and c["name"] not in rd[3] for c in ds["extra"])):
        comp = "categories-arg-int-labels"
    elif any(n in base["pcols"] for n in inames):
        comp = "partition-index"
    return {"component": comp, "terminal": rd[0], "what": what, "scheme": ds["scheme"], "partitioned": bool(base["pcols"]),
            "open": ds["open"], "selected_row_groups": nsel, "nonempty_selected": nonempty, "index_names": len(inames),
            "index_kind": idx["kind"], "index_column_kinds": ikinds, "error": (res[1] if res[0] == "fail" else None), "nops": len(prog["ops"]),
            # exactly what was observed (the open findings match on it, so that another violation in the same area is reported)
            "outcome": "%s:%s" % (what, res[1] if res[0] == "fail" else "-"), "message": msg[:200],
            "problem_kinds": sorted(set(p[0] for p in probs))}


def run_dataset(job):
    """worker: (dataset spec, programs or None + program seed, count) -> result dict"""
    import random
    import tempfile
    warnings.filterwarnings("ignore")
    ds, progs, pseed, nprog, extra_streams = job
    tmp = tempfile.mkdtemp(prefix="verif-C06w-", dir="/tmp")
    out = {"ds": ds, "error": None, "programs": []}
    try:
        path = build_dataset(ds, tmp)
        pf = open_dataset(ds, path)
        base = base_facts(ds, pf)
        if "full_error" in base:
            out["full_error"] = base["full_error"]
            return out
        out["base"] = {k: base[k] for k in ("hypotheses_violated", "rgs", "counts", "total", "full_len", "cols", "pcols", "index", "full_cols", "full_index", "full_ids")}
        if progs is None:
            rng = random.Random(pseed)
            progs = [gen_program(rng, ds, base["avail"], base["cols"], base["cat_cols"]) for _ in range(nprog)]
            progs += confirmation_programs(rng, ds, base) if extra_streams else []
        for prog in progs:
            res = run_program(pf, prog)
            # (a read with an explicit multi-index that RETURNS a frame is inspected like any other: labels of every level against the
            #  full read; the levels used are REQUIRED numeric columns - with an optional column as a level the frame cannot be
            #  inspected safely - and the worker is a forked process: a crash is a reported failure)
            probs = oracle(base, prog, res)
            # a derived handle must not change the handle it was derived from (the next programs use the same `pf`)
            now = [int(rg.num_rows) for rg in pf.row_groups]
            if now != base["counts"]:
                probs = list(probs) + [("aliasing", "after this program the ORIGINAL handle has row groups %r, before it had %r" % (now, base["counts"]))]
                pf = open_dataset(ds, path)
            ra, sa, sp = model_args(base, prog)
            fe = False
            if prog.get("filters"):
                e1 = expected_selection(base["parts"], prog["ops"], prog["filters"], base["full_ids"])
                fe = e1[0] == "ok" and not e1[1]
            out["programs"].append({"prog": prog, "impl": canon_impl(res), "problems": [list(p) for p in probs[:4]],
                                    "cls": classify(ds, base, prog, probs, res) if probs else None,
                                    "read_prog": ra, "spec_prog": sa, "spec_pos": sp, "oracle_rows": oracle_rows(base, prog),
                                    "stream": prog.get("stream", "main"), "filter_keeps_nothing": fe,
                                    "msg": res[2] if res[0] == "fail" else None})
    except Exception as e:      # noqa
        out["error"] = "%s: %s\n%s" % (type(e).__name__, e, traceback.format_exc()[-2000:])
    finally:
        shutil.rmtree(tmp, ignore_errors=True)
    return out


def confirmation_programs(rng, ds, base):
    """the known-bad region (an index of two names), a handful per dataset; plus fixed partition-column-as-index programs"""
    out = []
    # handle state round trips: every read kind through a pickled / copied / deep-copied handle (and a derived one)
    for op in (["pickle"], ["copy"], ["deepcopy"]):
        if op == ["pickle"] and ds["open"] == "filelike":
            continue
        dflt = {"kind": "default", "names": []}
        out.append({"ops": [op], "rd": ["to_pandas", None, dflt], "stream": "state-roundtrip"})
        out.append({"ops": [["pick", -1], op], "rd": ["iter", None, dflt, None], "stream": "state-roundtrip"})
        out.append({"ops": [op, ["slice", None, 2, None]], "rd": ["head", base["total"], None, {"kind": "false", "names": []}], "stream": "state-roundtrip"})
    # head(n) for NEGATIVE n ("all but the last -n rows"): every row group is needed (gen_head_negative_selects_everything on the
    # regenerated loop); the Coq model of head takes a natural n, so these programs are decided by the oracle only
    if base["total"] > 0:
        dflt = {"kind": "default", "names": []}
        for n in sorted({-1, -rng.randint(1, base["total"]), -(base["total"] + 1)}):
            out.append({"ops": [] if rng.random() < 0.6 else [gen_slice(rng)], "rd": ["head", n, None, dflt], "stream": "head-negative"})
    # EMPTY frames taken from a handle that has rows: head(0) with index default / False / a name, all columns and a subset with the
    # categorical columns, on the handle and on a slice; a row filter / filter that keeps nothing is the empty-selection case
    if base["total"] > 0:
        cats_ = [c for c in base["cat_cols"] if c in base["cols"]]
        sub = (cats_ + ["id"]) if cats_ else ["id", "u"]
        for idx in ({"kind": "default", "names": []}, {"kind": "false", "names": []}, {"kind": "str", "names": ["u"]}):
            out.append({"ops": [], "rd": ["head", 0, None, idx], "stream": "head-zero"})
            out.append({"ops": [gen_slice(rng)], "rd": ["head", 0, list(sub), idx], "stream": "head-zero"})
        out.append({"ops": [["pickle"]] if ds["open"] != "filelike" else [["copy"]], "rd": ["head", 0, list(sub), {"kind": "default", "names": []}], "stream": "head-zero"})
    # two names over REQUIRED numeric columns only: with an optional column as a level the real code stores raw values as
    # level codes and the frame cannot even be inspected safely (segfault seen) - recorded in the finding, not re-run here
    distinct_nonempty = len(set(g[0] for g in base["rgs"] if g[1] > 0))
    keys = [k for k in ("id", "g", "r") if k in base["cols"]]
    if len(keys) >= 2 and distinct_nonempty >= 2:
        a, b = rng.sample(keys, 2)
        out.append({"ops": [], "rd": ["to_pandas", None, {"kind": "list", "names": [a, b]}], "stream": "confirm-multi-index"})
        out.append({"ops": [], "rd": ["head", base["total"], ["u"], {"kind": "list", "names": [a, b]}], "stream": "confirm-multi-index"})
        if len(keys) == 3:
            out.append({"ops": [gen_slice(rng)], "rd": ["to_pandas", ["u", "t"], {"kind": "list", "names": rng.sample(keys, 3)}], "stream": "confirm-multi-index"})
    if len(keys) >= 2 and base["rgs"]:
        # controls: the same explicit multi-index on ONE row group (one dictionary per level: the read returns, and is compared)
        for j in sorted({0, len(base["rgs"]) - 1, rng.randrange(len(base["rgs"]))}):
            a, b = rng.sample(keys, 2)
            out.append({"ops": [["pick", j]], "rd": [rng.choice(["to_pandas", "iter"]), None, {"kind": "list", "names": [a, b]}] , "stream": "multi-index-one-row-group"})
            if out[-1]["rd"][0] == "iter":
                out[-1]["rd"].append(None)
    if base["pcols"]:
        p = rng.choice(base["pcols"])
        out.append({"ops": [], "rd": ["to_pandas", None, {"kind": "str", "names": [p]}], "stream": "partition-index"})
        out.append({"ops": [gen_slice(rng)], "rd": ["head", 3, ["id", p], {"kind": "list", "names": [p]}], "stream": "partition-index"})
    return out
