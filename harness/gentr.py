"""Shared driver for the small source translators (kv2coq, fileops2coq): run the translator on the working tree's source,
compile the regenerated Gallina, re-prove the theorems of coq/genproofs/<proofs> on it.  Fails closed: when the translator
refuses the source the obligations are not stated this run, `translator_fallback` is recorded and the hand model +
correspondence + oracle of the calling check remain."""
import os
import shutil
import subprocess

from harness import common as C


def run_translator(ctx, name, argv, gen_file, proofs_file, what):
    p = subprocess.run([C.PY, os.path.join(C.VERIF, "translators", argv[0])] + argv[1:], stdout=subprocess.PIPE, stderr=subprocess.PIPE)
    key = "translator_" + name
    if p.returncode != 0:
        ctx.notes.append("translator_fallback: %s refused the source (%s); hand model + correspondence used for %s"
                         % (name, p.stderr.decode()[-300:].strip(), what))
        ctx.extra[key] = "translator_fallback"
        return "fallback"
    gen = os.path.join(ctx.gen_dir, gen_file)
    txt = p.stdout.decode()
    if not os.path.exists(gen) or open(gen).read() != txt:
        open(gen, "w").write(txt)
    ok, out = C.coqc(gen, extra_q=[(ctx.gen_dir, "PqGen")])
    ctx.obligation("%s (regenerated from %s) compiles" % (gen_file, what), ok, out)
    if ok:
        gp = os.path.join(ctx.gen_dir, proofs_file)
        shutil.copy(os.path.join(C.COQ, "genproofs", proofs_file), gp)
        ctx.coq_file(gp, extra_q=[(ctx.gen_dir, "PqGen")])
    ctx.extra[key] = "translated"
    return "translated"
