"""Walk a Parquet file: footer, row groups, column chunks, pages (headers + raw payload bytes).
Uses fastparquet's thrift reader only to parse the footer/page headers (C10's subject); everything
else (offset arithmetic, tiling, counting) is done here.  Import after common.use_shadow()."""
import os


def read_footer(data):
    from fastparquet.cencoding import from_buffer
    assert data[:4] == b"PAR1" and data[-4:] == b"PAR1", "magic"
    n = int.from_bytes(data[-8:-4], "little")
    return from_buffer(data[-8 - n:-8], "FileMetaData"), len(data) - 8 - n


def chunk_pages(data, cmd):
    """-> list of page dicts for a ColumnMetaData (fastparquet ThriftObject) inside file bytes `data`."""
    import numpy as np
    from fastparquet.cencoding import ThriftObject, NumpyIO
    start = cmd.data_page_offset
    if cmd.dictionary_page_offset is not None:
        start = min(start, cmd.dictionary_page_offset)
    end = start + cmd.total_compressed_size
    buf = np.frombuffer(data[start:end], dtype="uint8")
    io = NumpyIO(buf)
    pages = []
    while io.tell() < len(buf):
        off = io.tell()
        ph = ThriftObject.from_buffer(io, "PageHeader")
        hlen = io.tell() - off
        payload = bytes(buf[io.tell():io.tell() + ph.compressed_page_size])
        io.seek(ph.compressed_page_size, 1)
        p = {"offset": start + off, "header_len": hlen, "type": ph.type,
             "compressed_page_size": ph.compressed_page_size,
             "uncompressed_page_size": ph.uncompressed_page_size, "payload": payload, "ph": ph}
        if ph.type == 0:
            h = ph.data_page_header
            p.update(num_values=h.num_values, encoding=h.encoding, dle=h.definition_level_encoding,
                     rle=h.repetition_level_encoding)
        elif ph.type == 2:
            h = ph.dictionary_page_header
            p.update(num_values=h.num_values, encoding=h.encoding)
        elif ph.type == 3:
            h = ph.data_page_header_v2
            p.update(num_values=h.num_values, num_nulls=h.num_nulls, num_rows=h.num_rows, encoding=h.encoding,
                     def_len=h.definition_levels_byte_length, rep_len=h.repetition_levels_byte_length,
                     is_compressed=h.is_compressed)
        pages.append(p)
    return pages, start, end


def decompress(payload, codec, usize):
    """cramjam through fastparquet.compression (trusted base: the codecs)"""
    from fastparquet.compression import decompress_data
    if not codec:
        return bytes(payload)
    import numpy as np
    return bytes(decompress_data(np.frombuffer(payload, "uint8"), usize, codec))


def data_files(path):
    if os.path.isfile(path):
        return [path]
    out = []
    for dp, _, fs in os.walk(path):
        for f in sorted(fs):
            out.append(os.path.join(dp, f))
    return sorted(out)
