"""C12 files stream: reads whole parquet datasets with the real fastparquet under the ASan+UBSan build.
Same protocol as codec_worker.py:  python codec_files_worker.py <shadow_root> <cases.json> <out.jsonl> <mode> <start>
(cases = [{"path": ..., "mode": "default" | "nonulls" | "rowgroups"}]); one JSON line [i, result] per finished case,
`@@CASE i` on stderr before each case.  A Python exception is an allowed outcome."""
import json
import sys


def main():
    root, cases_p, out_p = sys.argv[1:4]
    start = int(sys.argv[5]) if len(sys.argv) > 5 else 0
    sys.path.insert(0, root)
    sys.dont_write_bytecode = True
    import warnings
    warnings.filterwarnings("ignore")
    import fastparquet
    assert fastparquet.__file__.startswith(root), fastparquet.__file__

    def run(c):
        path, mode = c["path"], c["mode"]
        pf = fastparquet.ParquetFile(path, pandas_nulls=False) if mode == "nonulls" else fastparquet.ParquetFile(path)
        df = pf.to_pandas()
        n = int(len(df))
        if mode == "rowgroups":
            n = 0
            for part in pf.iter_row_groups():
                n += len(part)
        return ["ok", "read", n]

    cases = json.load(open(cases_p))
    with open(out_p, "a") as out:
        for i in range(start, len(cases)):
            sys.stderr.write("@@CASE %d\n" % i)
            sys.stderr.flush()
            try:
                r = run(cases[i])
            except BaseException as e:      # noqa
                r = ["exc", type(e).__name__, str(e)[:160]]
            out.write(json.dumps([i, r]) + "\n")
            out.flush()


if __name__ == "__main__":
    main()
