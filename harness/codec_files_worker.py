"""Reads ONE parquet dataset with the real fastparquet (shadow package given as argv[1]) and prints one JSON line.
Used by C12: runs under the ASan+UBSan build, so any report/crash of the native code on a valid file is visible
as the process' exit status / stderr."""
import json
import sys


def main():
    root, path, mode = sys.argv[1:4]
    sys.path.insert(0, root)
    sys.dont_write_bytecode = True
    import warnings
    warnings.filterwarnings("ignore")
    import fastparquet
    assert fastparquet.__file__.startswith(root)
    out = {"path": path, "mode": mode}
    try:
        pf = fastparquet.ParquetFile(path)
        kw = {}
        if mode == "nonulls":
            pf = fastparquet.ParquetFile(path, pandas_nulls=False)
        df = pf.to_pandas(**kw)
        out["rows"] = int(len(df))
        out["cols"] = int(len(df.columns))
        if mode == "rowgroups":
            n = 0
            for part in pf.iter_row_groups():
                n += len(part)
            out["rows_iter"] = int(n)
        out["status"] = "ok"
    except BaseException as e:      # noqa  (a Python exception is an allowed outcome)
        out["status"] = "exc"
        out["exc"] = "%s: %s" % (type(e).__name__, str(e)[:160])
    print("@@RESULT " + json.dumps(out))
    sys.stdout.flush()


if __name__ == "__main__":
    main()
