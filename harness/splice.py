"""Build a VALID parquet file whose schema has a multi-leaf group (MAP) before flat columns, by splicing the column chunks
of a nested foreign file (test-data) and of a flat file written by fastparquet (same number of rows, one row group each)."""
import struct


def _subtrees(schema):
    """schema: list of SchemaElement in DFS order, [0] = root. -> list of (name, [elements of the field's subtree])"""
    out = []
    i = 1

    def take(i):
        se = schema[i]
        els = [se]
        i += 1
        for _ in range(se.num_children or 0):
            sub, i = take(i)
            els += sub
        return els, i
    while i < len(schema):
        els, i = take(i)
        out.append((els[0].name, els))
    return out


def splice(out_path, nested_path, nested_fields, flat_path):
    from fastparquet import ParquetFile
    from fastparquet.writer import write_thrift
    pn, pf = ParquetFile(nested_path), ParquetFile(flat_path)
    assert len(pn.row_groups) == 1 and len(pf.row_groups) == 1 and pn.count() == pf.count()
    fmd = pn.fmd
    nsub = dict(_subtrees(pn.fmd.schema))
    fsub = _subtrees(pf.fmd.schema)
    schema = [pn.fmd.schema[0]]
    cols = []
    for name in nested_fields:
        schema += nsub[name]
        cols += [(nested_path, c) for c in pn.row_groups[0].columns if c.meta_data.path_in_schema[0] == name]
    for name, els in fsub:
        schema += els
        cols += [(flat_path, c) for c in pf.row_groups[0].columns if c.meta_data.path_in_schema[0] == name]
    schema[0].num_children = len(nested_fields) + len(fsub)
    data = {nested_path: open(nested_path, "rb").read(), flat_path: open(flat_path, "rb").read()}
    with open(out_path, "wb") as f:
        f.write(b"PAR1")
        total = 0
        for src, c in cols:
            m = c.meta_data
            start = m.data_page_offset if not m.dictionary_page_offset else min(m.dictionary_page_offset, m.data_page_offset)
            raw = data[src][start:start + m.total_compressed_size]
            delta = f.tell() - start
            f.write(raw)
            m.data_page_offset += delta
            if m.dictionary_page_offset:
                m.dictionary_page_offset += delta
            if getattr(m, "index_page_offset", None):
                m.index_page_offset = None
            c.file_offset = start + delta
            c.file_path = None
            total += m.total_uncompressed_size or 0
        rg = pn.fmd.row_groups[0]
        rg.columns = [c for _, c in cols]
        rg.total_byte_size = total
        fmd.schema = schema
        fmd.key_value_metadata = []
        foot = write_thrift(f, fmd)
        f.write(struct.pack(b"<I", foot))
        f.write(b"PAR1")
    return out_path
