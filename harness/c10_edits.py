"""C10, stream "edits": the Python-level metadata EDIT paths the property names (update_file_custom_metadata on data
files and _metadata, ParquetFile-handle update + _write_common_metadata, merge(), append through write_row_groups, remove_row_groups)
driven on FOREIGN-style footers: real files written by fastparquet whose footer is parsed by the proved specification reader,
decorated with legal features fastparquet itself never writes (repeated keys, empty / binary / absent values, created_by variants,
column_orders, field_id, sorting_columns, file_offset / total_compressed_size, page-index offsets, statistics with only
min_value/max_value, RowGroup.ordinal (i16), bloom_filter_offset (id 14)), re-encoded by the proved specification writer and spliced back.
After the edit the footer is parsed again by the specification reader and compared AS A VALUE TREE with what the edit was asked to
do: everything the edit did not name must be preserved.  Allowed differences: the edit itself, the JSON re-dump of the `pandas`
entry by consolidate_categories, and the open findings (ids >= 14 dropped, i8/i16 retyped, element type of empty lists)."""
import copy
import json
import os
import shutil

from harness import common as C

INTS = ("i8", "i16", "i32", "i64")


# ---- generic value trees (Cmd_Thrift.v shapes, tags as str, payloads bytes) --------------------------------

def dec(t):
    tag = t[0].decode("latin-1") if isinstance(t[0], (bytes, bytearray)) else t[0]
    if tag == "s":
        return ["s", bytes(t[1])]
    if tag == "l":
        return ["l", t[1], [dec(x) for x in t[2]]]
    if tag == "r":
        return ["r", [[fid, dec(v)] for fid, v in t[1]]]
    return [tag, t[1]]


def get(st, fid, default=None):
    for f, v in st[1]:
        if f == fid:
            return v
    return default


def put(st, fid, v):
    out = [[f, x] for f, x in st[1] if f != fid]
    if v is not None:
        out.append([fid, v])
    out.sort(key=lambda p: p[0])
    st[1] = out


def S(b):
    return ["s", b if isinstance(b, bytes) else b.encode("utf-8")]


def R(**kw):
    return ["r", sorted([[int(k[1:]), v] for k, v in kw.items()], key=lambda p: p[0])]


def norm(t):
    """what the open findings are allowed to change: ids >= 14 dropped, integer width tags, element type of an empty list"""
    tag = t[0]
    if tag in INTS:
        return ["int", t[1]]
    if tag == "s":
        return ["s", t[1].hex()]
    if tag == "l":
        return ["l", t[1] if t[2] else 0, [norm(x) for x in t[2]]]
    if tag == "r":
        return ["r", [[f, norm(v)] for f, v in t[1] if f < 14]]
    return list(t)


def first_diff(a, b, path=()):
    if a[0] != b[0]:
        return path, "kind %s vs %s" % (a[0], b[0])
    if a[0] == "r":
        ia, ib = [f for f, _ in a[1]], [f for f, _ in b[1]]
        if ia != ib:
            return path, "field ids %r vs %r" % (ia, ib)
        for (f, x), (_, y) in zip(a[1], b[1]):
            d = first_diff(x, y, path + (f,))
            if d:
                return d
        return None
    if a[0] == "l":
        if a[1] != b[1] or len(a[2]) != len(b[2]):
            return path, "list type/len %r/%d vs %r/%d" % (a[1], len(a[2]), b[1], len(b[2]))
        for i, (x, y) in enumerate(zip(a[2], b[2])):
            d = first_diff(x, y, path + ("[%d]" % i,))
            if d:
                return d
        return None
    return None if a == b else (path, "%r vs %r" % (str(a[1])[:60], str(b[1])[:60]))


# ---- footers ------------------------------------------------------------------------------------------------

def split_footer(data, is_md):
    size = int.from_bytes(data[-8:-4], "little")
    assert data[-4:] == b"PAR1"
    return data[:len(data) - 8 - size], data[len(data) - 8 - size:-8]


def read_tree(pq, path):
    data = open(path, "rb").read()
    head, footer = split_footer(data, False)
    r = pq.call("thrift_dec", 1, footer)
    if (r[0].decode() if isinstance(r[0], bytes) else r[0]) != "ok" or r[2] != 0:
        return None, "footer of %s does not parse with the strict specification reader: %r" % (os.path.basename(path), r[:2])
    return dec(r[1]), None


def tree_of_bytes(pq, footer, what):
    r = pq.call("thrift_dec", 1, footer)
    if (r[0].decode() if isinstance(r[0], bytes) else r[0]) != "ok" or r[2] != 0:
        return None, "%s does not parse with the strict specification reader: %r" % (what, r[:2])
    return dec(r[1]), None


def write_tree(pq, path, tree):
    data = open(path, "rb").read()
    head, _ = split_footer(data, False)
    r = pq.call("thrift_enc", tree)
    assert (r[0].decode() if isinstance(r[0], bytes) else r[0]) == "ok", r
    footer = bytes(r[1])
    open(path, "wb").write(head + footer + len(footer).to_bytes(4, "little") + b"PAR1")


# ---- decoration -----------------------------------------------------------------------------------------------

def gen_decor(rng):
    kv = []
    if rng.random() < 0.8:
        n = rng.choice([2, 3])
        for i in range(n):
            kv.append(["hist", "run %d" % i, rng.choice(["front", "mid", "end"])])          # a key may occur more than once
    if rng.random() < 0.5:
        kv.append(["empty", "", rng.choice(["front", "end"])])
    if rng.random() < 0.5:
        kv.append(["novalue", None, "end"])                                              # value is optional in the IDL
    if rng.random() < 0.5:
        kv.append(["bin", "hex:ff00fe80c3", rng.choice(["front", "mid"])])                 # non-UTF-8 payload
    if rng.random() < 0.3:
        kv.append(["kéy", "väl \U0001F600", "mid"])
    return {"kv": kv,
            "created_by": rng.choice([None, "parquet-mr version 1.12.3 (build f8dced182c4c1fbdec6ccb3185537b5a01e6ed6b)",
                                      "parquet-cpp-arrow version 14.0.2", "fastparquet-python version 0.0.1 (build 0)"]),
            "column_orders": rng.random() < 0.6, "field_id": rng.random() < 0.5, "rg_extras": rng.random() < 0.6,
            "sorting": rng.random() < 0.4, "cc_offsets": rng.random() < 0.5, "index_page_offset": rng.random() < 0.3,
            "stats_v2_only": rng.random() < 0.4,
            "ordinal_i16": rng.random() < 0.25, "bloom14": rng.random() < 0.25}


def _kvval(v):
    if v is None:
        return None
    if v.startswith("hex:"):
        return bytes.fromhex(v[4:])
    return v.encode("utf-8")


def type_empty_lists(t):
    """a conformant writer gives an empty list its declared element type (all lists that are ever empty here hold structs);
    fastparquet's own 0x00 header is not encodable by the strict specification writer"""
    if t[0] == "l":
        if not t[2] and t[1] == 0:
            t[1] = 12
        for x in t[2]:
            type_empty_lists(x)
    elif t[0] == "r":
        for _, v in t[1]:
            type_empty_lists(v)


def decorate(tree, d):
    """FileMetaData tree -> the same metadata as another (conformant) writer might have written it"""
    t = copy.deepcopy(tree)
    type_empty_lists(t)
    kvl = get(t, 5)
    items = list(kvl[2]) if kvl else []
    for k, v, where in d["kv"]:
        e = R(f1=S(k)) if v is None else R(f1=S(k), f2=S(_kvval(v)))
        pos = {"front": 0, "mid": len(items) // 2, "end": len(items)}[where]
        items.insert(pos, e)
    if items:
        put(t, 5, ["l", 12, items])
    if d["created_by"] is not None:
        put(t, 6, S(d["created_by"]))
    schema = get(t, 2)[2]
    nleaf = sum(1 for se in schema if get(se, 5) is None)
    if d["column_orders"]:
        put(t, 7, ["l", 12, [R(f1=R()) for _ in range(nleaf)]])
    if d["field_id"]:
        for i, se in enumerate(schema[1:]):
            put(se, 9, ["i32", 100 + i])
    for ri, rg in enumerate(get(t, 4)[2]):
        cols = get(rg, 1)[2]
        if d["rg_extras"]:
            put(rg, 5, ["i64", 4 + ri])
            put(rg, 6, ["i64", sum(get(get(c, 3), 7)[1] for c in cols if get(c, 3))])
        if d["sorting"]:
            put(rg, 4, ["l", 12, [R(f1=["i32", 0], f2=["b", 0], f3=["b", 1])]])
        if d["ordinal_i16"]:
            put(rg, 7, ["i16", ri])
        for ci, cc in enumerate(cols):
            if d["cc_offsets"]:
                put(cc, 4, ["i64", 1000 + ci])
                put(cc, 5, ["i32", 11])
                put(cc, 6, ["i64", 2000 + ci])
                put(cc, 7, ["i32", 22])
            cmd = get(cc, 3)
            if cmd is None:
                continue
            if d["index_page_offset"]:
                put(cmd, 10, ["i64", 0])
            if d["bloom14"]:
                put(cmd, 14, ["i64", 123456 + ci])
            st = get(cmd, 12)
            if d["stats_v2_only"] and st is not None and get(st, 1) is not None:
                put(cmd, 12, R(f3=get(st, 3, ["i64", 0]), f5=get(st, 1), f6=get(st, 2)))
    return t


# ---- the edit paths ---------------------------------------------------------------------------------------------

EDITS = ["update_file_data", "update_file_metadata", "handle_update", "merge", "append_hive", "append_simple", "remove_row_groups",
         # wave 4: a handle that OBSERVED (read-only API) and / or was INPUT of a multi-file open, then re-serialises its metadata
         "observe_write_common", "observe_pickle", "observe_handle_append", "input_of_many",
         # wave 6: REPEATED serialisations of one handle with handle-level edits in between
         "repeated_serialise"]

SERIALISERS = ["pickle", "deepcopy", "_write_common_metadata", "copy"]
HANDLE_EDITS = ["update_custom_metadata", "_sort_part_names", "fmd.created_by=", "fmd.key_value_metadata.append", "remove_row_groups",
                "write_row_groups", "statistics"]

# read-only API of a handle: whatever is called, the metadata the handle later re-serialises must be the metadata it read
OBSERVERS = ["statistics", "sorted_partitioned_columns", "to_pandas", "filters", "row_filter", "head", "dtypes", "info", "count",
             "columns", "str", "getitem", "iter_row_groups", "key_value_metadata", "pandas_metadata", "schema_text", "copy", "deepcopy",
             "pickle_dumps", "categories", "check_categories"]


def observe(pf, names, info):
    import copy as _copy
    import pickle
    from fastparquet import api
    for name in names:
        try:
            if name == "statistics":
                pf.statistics
            elif name == "sorted_partitioned_columns":
                api.sorted_partitioned_columns(pf)
            elif name == "to_pandas":
                pf.to_pandas()
            elif name == "filters":
                pf.to_pandas(filters=[("i", ">", 2)])
                pf.to_pandas(filters=[("s", "==", "v1")])
            elif name == "row_filter":
                pf.to_pandas(filters=[("i", ">=", 1)], row_filter=True)
            elif name == "head":
                pf.head(2)
            elif name == "dtypes":
                pf.dtypes
            elif name == "info":
                pf.info
            elif name == "count":
                pf.count(), pf.count(filters=[("i", ">", 2)])
            elif name == "columns":
                pf.columns
            elif name == "str":
                str(pf), repr(pf)
            elif name == "getitem":
                pf[0], pf[:1], pf[-1]
            elif name == "iter_row_groups":
                for _ in pf.iter_row_groups():
                    pass
            elif name == "key_value_metadata":
                dict(pf.key_value_metadata)
            elif name == "pandas_metadata":
                pf.pandas_metadata
            elif name == "schema_text":
                pf.schema.text
            elif name == "copy":
                _copy.copy(pf)
            elif name == "deepcopy":
                _copy.deepcopy(pf)
            elif name == "pickle_dumps":
                pickle.dumps(pf)
            elif name == "categories":
                pf.categories
            elif name == "check_categories":
                pf.check_categories(None)
        except Exception as e:      # noqa  (an observer that raises on a legal footer belongs to other properties: recorded, not judged here)
            info.setdefault("observer_raised", []).append("%s: %s" % (name, type(e).__name__))


def gen_case(rng):
    edit = rng.choice(EDITS)
    upd = {}
    for _ in range(rng.choice([1, 1, 2])):
        k = rng.choice(["newkey", "empty", "bin", "other", "kéy"])          # never the repeated key: those are "entries nobody touched"
        upd[k] = rng.choice([None, "x", "", "new value é"])
    decor = gen_decor(rng)
    obs = rng.sample(OBSERVERS, rng.choice([1, 2, 4, len(OBSERVERS)]))
    if rng.random() < 0.5 and "statistics" not in obs:
        obs.insert(rng.randrange(len(obs) + 1), "statistics")
    if rng.random() < 0.6:
        decor["stats_v2_only"] = True       # statistics with min_value / max_value only: what parquet-mr >= 1.10 and arrow write
    return {"edit": edit, "decor": decor, "update": upd, "nrows": rng.choice([6, 30]),
            "cat": rng.random() < 0.5, "compression": rng.choice([None, "SNAPPY"]), "observe": obs,
            "many_op": rng.choice(["ParquetFile([...])", "merge([...])"]),
            # the first serialisation is mostly one that a handle may cache (pickle / deepcopy); edits that do not rebuild the handle's
            # derived attributes (no _set_attrs) are drawn twice as often as those that do
            "rounds": [[rng.choice(SERIALISERS[:2] if (j == 0 and rng.random() < 0.7) else SERIALISERS),
                        rng.choice(HANDLE_EDITS[:4] * 2 + HANDLE_EDITS[4:])] for j in range(rng.choice([2, 3, 4]))]}


def _frame(n, off=0, cat=False):
    import numpy as np
    import pandas as pd
    df = pd.DataFrame({"i": np.arange(off, off + n, dtype="int64"), "s": ["v%d" % (j % 5) for j in range(n)],
                       "f": np.linspace(0, 1, n)})
    if cat:
        df["c"] = pd.Categorical(["x", "y", "z"][: 1 + (off > 0) * 2] * (n // (1 + (off > 0) * 2)) + ["x"] * (n % (1 + (off > 0) * 2)))
    return df


def expected_kv(items, upd):
    """entries the update does not name, in order (as (key, value) pairs), and the named keys' resulting values"""
    named = {k.encode("utf-8") for k in upd}
    rest = [(get(e, 1)[1], (get(e, 2) or [None, None])[1]) for e in items if get(e, 1)[1] not in named]
    return rest, {k.encode("utf-8"): (None if v is None else v.encode("utf-8")) for k, v in upd.items()}


def check_kv(before_items, after_items, upd, problems, ignore_pandas_value):
    rest_b, want = expected_kv(before_items, upd)
    rest_a, _ = expected_kv(after_items, upd)
    if ignore_pandas_value:
        def canon(p):
            if p[0] == b"pandas" and p[1] is not None:
                try:
                    return (p[0], json.dumps(json.loads(p[1]), sort_keys=True))
                except ValueError:
                    return p
            return p
        rest_b, rest_a = [canon(p) for p in rest_b], [canon(p) for p in rest_a]
    if rest_a != rest_b:
        problems.append("key-value entries the edit did not name changed: before %r, after %r" % (
            [(k, None if v is None else v[:20]) for k, v in rest_b if k != b"pandas"], [(k, None if v is None else v[:20]) for k, v in rest_a if k != b"pandas"]))
    got = {}
    for e in after_items:
        k = get(e, 1)[1]
        if k in want:
            got.setdefault(k, []).append((get(e, 2) or [None, None])[1])
    for k, v in want.items():
        if v is None and got.get(k):
            problems.append("removed key %r still present" % k)
        if v is not None and got.get(k) != [v]:
            problems.append("key %r: expected value %r, found %r" % (k, v, got.get(k)))


def compare(before, after, problems, upd=None, rgs="same", num_rows="same", pandas_json=False):
    """before/after: FileMetaData value trees.  rgs: "same" | ("drop", i) | ("append", n_new) | "none" | ("merge", list of trees)"""
    b, a = copy.deepcopy(before), copy.deepcopy(after)
    kb, ka = (get(b, 5) or ["l", 0, []])[2], (get(a, 5) or ["l", 0, []])[2]
    check_kv(kb, ka, upd or {}, problems, pandas_json)
    put(b, 5, None)
    put(a, 5, None)
    rb, ra = get(b, 4)[2], get(a, 4)[2]
    if rgs == "none":
        rb = []
    elif isinstance(rgs, tuple) and rgs[0] == "drop":
        rb = rb[:rgs[1]] + rb[rgs[1] + 1:]
    elif isinstance(rgs, tuple) and rgs[0] == "append":
        if len(ra) != len(rb) + rgs[1]:
            problems.append("expected %d row groups after the append, found %d" % (len(rb) + rgs[1], len(ra)))
        ra = ra[:len(rb)]
    if num_rows != "same":
        put(b, 3, None)
        put(a, 3, None)
    put(b, 4, ["l", 12, rb])
    put(a, 4, ["l", 12, ra])
    d = first_diff(norm(b), norm(a))
    if d:
        problems.append("metadata the edit did not name changed at field path %r: %s" % (list(d[0]), d[1]))


def run_case(case, scratch, pq, tag):
    """-> (problems, info).  problems = list of strings (property violations on this history)"""
    import fastparquet
    from fastparquet import ParquetFile, write
    from fastparquet.writer import update_file_custom_metadata, merge
    from fastparquet.util import update_custom_metadata
    edit, d, upd = case["edit"], case["decor"], dict(case["update"])
    n = case["nrows"]
    root = os.path.join(scratch, tag)
    shutil.rmtree(root, ignore_errors=True)
    problems, info = [], {"edit": edit}
    simple = edit in ("update_file_data", "append_simple")
    if simple:
        path = root + ".parquet"
        write(path, _frame(n, 0, case["cat"]), row_group_offsets=[0, n // 2], compression=case["compression"],
              custom_metadata={"other": "o"})
        targets = [path]
    else:
        write(root, _frame(n, 0, case["cat"]), file_scheme="hive", row_group_offsets=[0, n // 3, 2 * n // 3],
              compression=case["compression"], custom_metadata={"other": "o"})
        path = os.path.join(root, "_metadata")
        targets = [path] + ([os.path.join(root, f) for f in sorted(os.listdir(root)) if f.startswith("part.")] if edit == "merge" else [])
    before = {}
    for p in targets:
        t, err = read_tree(pq, p)
        if err:
            return [err], info
        ft = decorate(t, d)
        write_tree(pq, p, ft)
        before[p] = ft
    if edit == "merge":
        os.unlink(path)
        os.unlink(os.path.join(root, "_common_metadata"))
    try:
        if edit in ("update_file_data", "update_file_metadata"):
            update_file_custom_metadata(path, upd)
            after, err = read_tree(pq, path)
            if err:
                return [err], info
            compare(before[path], after, problems, upd=upd)
        elif edit == "handle_update":
            pf = ParquetFile(root)
            observe(pf, case.get("observe", []), info)
            update_custom_metadata(pf, upd)
            pf._write_common_metadata()
            after, err = read_tree(pq, path)
            if err:
                return [err], info
            compare(before[path], after, problems, upd=upd, pandas_json=True)
            common, err = read_tree(pq, os.path.join(root, "_common_metadata"))
            if err:
                return [err], info
            compare(before[path], common, problems, upd=upd, rgs="none", pandas_json=True)
        elif edit == "merge":
            parts = targets[1:]
            merge(parts)
            after, err = read_tree(pq, path)
            if err:
                return [err], info
            exp = copy.deepcopy(before[parts[0]])
            rgs = []
            for p in parts:
                for rg in get(before[p], 4)[2]:
                    rg = copy.deepcopy(rg)
                    for cc in get(rg, 1)[2]:
                        put(cc, 1, S(os.path.basename(p)))
                    rgs.append(rg)
            put(exp, 4, ["l", 12, rgs])
            put(exp, 3, ["i64", sum(get(rg, 3)[1] for rg in rgs)])
            compare(exp, after, problems, pandas_json=True)
        elif edit in ("append_hive", "append_simple"):
            if simple:
                write(path, _frame(5, n, case["cat"]), append=True, compression=case["compression"])
            else:
                write(root, _frame(5, n, case["cat"]), file_scheme="hive", append=True, compression=case["compression"])
            after, err = read_tree(pq, path)
            if err:
                return [err], info
            compare(before[path], after, problems, rgs=("append", 1), num_rows="changed", pandas_json=True)
            if get(after, 3)[1] != get(before[path], 3)[1] + 5:
                problems.append("num_rows after append: %r" % (get(after, 3)[1],))
        elif edit == "remove_row_groups":
            pf = ParquetFile(root)
            observe(pf, case.get("observe", []), info)
            pf.remove_row_groups(pf.row_groups[0])
            after, err = read_tree(pq, path)
            if err:
                return [err], info
            compare(before[path], after, problems, rgs=("drop", 0), num_rows="changed", pandas_json=True)
            want_rows = get(before[path], 3)[1] - get(get(before[path], 4)[2][0], 3)[1]
            if get(after, 3)[1] != want_rows:
                problems.append("num_rows after removing the first row group: %r, expected %r" % (get(after, 3)[1], want_rows))
        elif edit == "observe_write_common":
            pf = ParquetFile(root)
            observe(pf, case.get("observe", []), info)
            pf._write_common_metadata()
            after, err = read_tree(pq, path)
            if err:
                return [err], info
            compare(before[path], after, problems, pandas_json=True)
            common, err = read_tree(pq, os.path.join(root, "_common_metadata"))
            if err:
                return [err], info
            compare(before[path], common, problems, rgs="none", pandas_json=True)
        elif edit == "observe_pickle":
            import pickle
            pf = ParquetFile(root)
            observe(pf, case.get("observe", []), info)
            pf2 = pickle.loads(pickle.dumps(pf))
            for what, h in (("the unpickled handle's metadata", pf2), ("the observed handle's metadata", pf)):
                after, err = tree_of_bytes(pq, bytes(h.fmd.to_bytes()), what)
                if err:
                    return [err], info
                compare(before[path], after, problems, pandas_json=True)
        elif edit == "observe_handle_append":
            pf = ParquetFile(root)
            observe(pf, case.get("observe", []), info)
            pf.write_row_groups(_frame(5, n, case["cat"]), compression=case["compression"])
            after, err = read_tree(pq, path)
            if err:
                return [err], info
            compare(before[path], after, problems, rgs=("append", 1), num_rows="changed", pandas_json=True)
            ParquetFile(root).to_pandas()
        elif edit == "repeated_serialise":
            import copy as _copy
            import pickle
            from fastparquet import parquet_thrift
            pf = ParquetFile(root)
            for rno, (ser, ed) in enumerate(case.get("rounds", [["pickle", "update_custom_metadata"], ["pickle", "statistics"]]) + [["pickle", None], ["deepcopy", None]]):
                # what a serialisation of the handle yields must be the metadata the handle HOLDS now
                held, err = tree_of_bytes(pq, bytes(pf.fmd.to_bytes()), "the handle's metadata")
                if err:
                    return [err], info
                if ser == "pickle":
                    got = bytes(pickle.loads(pickle.dumps(pf)).fmd.to_bytes())
                elif ser == "deepcopy":
                    got = bytes(_copy.deepcopy(pf).fmd.to_bytes())
                elif ser == "copy":
                    got = bytes(_copy.copy(pf).fmd.to_bytes())
                else:
                    pf._write_common_metadata()
                    held, err = tree_of_bytes(pq, bytes(pf.fmd.to_bytes()), "the handle's metadata")      # consolidate_categories may re-dump 'pandas'
                    got = split_footer(open(path, "rb").read(), True)[1]
                after, err = tree_of_bytes(pq, got, "round %d: what %s produced" % (rno, ser))
                if err:
                    return [err], info
                dd = first_diff(norm(held), norm(after))
                if dd:
                    problems.append("round %d: %s of the handle does not give the metadata it holds (after the edits %r): field path %r: %s" % (
                        rno, ser, [r[1] for r in case.get("rounds", [])[:rno]], list(dd[0]), dd[1]))
                    break
                if ed == "update_custom_metadata":
                    update_custom_metadata(pf, {"round%d" % rno: "v%d" % rno, "other": None if rno % 2 else "again"})
                elif ed == "_sort_part_names":
                    pf._sort_part_names()
                elif ed == "fmd.created_by=":
                    pf.fmd.created_by = b"edited in round %d" % rno       # bytes, as a parsed footer holds it
                elif ed == "fmd.key_value_metadata.append":
                    pf.fmd.key_value_metadata = list(pf.fmd.key_value_metadata or []) + [parquet_thrift.KeyValue(key=b"direct%d" % rno, value=b"x")]
                elif ed == "remove_row_groups" and len(pf.row_groups) > 1:
                    pf.remove_row_groups(pf.row_groups[0])
                elif ed == "write_row_groups":
                    pf.write_row_groups(_frame(5, n + 10 * rno, case["cat"]), compression=case["compression"])
                elif ed == "statistics":
                    pf.statistics
        elif edit == "input_of_many":
            # a second dataset of the same shape next to the first; both handles are INPUT of a multi-file open / merge
            root2 = root + "-b"
            shutil.rmtree(root2, ignore_errors=True)
            write(root2, _frame(n, 100, case["cat"]), file_scheme="hive", row_group_offsets=[0, n // 2], compression=case["compression"],
                  custom_metadata={"other": "o"})
            t2, err = read_tree(pq, os.path.join(root2, "_metadata"))
            if err:
                return [err], info
            write_tree(pq, os.path.join(root2, "_metadata"), decorate(t2, d))       # same writer, same decoration: same schema
            try:
                pf, pfb = ParquetFile(root), ParquetFile(root2)
                observe(pf, case.get("observe", [])[:2], info)
                if case.get("many_op", "").startswith("merge"):
                    merge([pf, pfb])
                else:
                    ParquetFile([pf, pfb]).to_pandas()
                after, err = tree_of_bytes(pq, bytes(pf.fmd.to_bytes()), "the input handle's metadata after it was given to %s" % case.get("many_op"))
                if err:
                    return [err], info
                compare(before[path], after, problems, pandas_json=True)
                # ... and what it writes afterwards (an append through the input handle) leaves a dataset that opens and has the old row groups
                pf.write_row_groups(_frame(5, n, case["cat"]), compression=case["compression"])
                after, err = read_tree(pq, path)
                if err:
                    return [err], info
                compare(before[path], after, problems, rgs=("append", 1), num_rows="changed", pandas_json=True)
                if len(ParquetFile(root).to_pandas()) != n + 5:
                    problems.append("the dataset re-opened after the append through the input handle has not %d rows" % (n + 5))
            finally:
                shutil.rmtree(root2, ignore_errors=True)
                for fn in ("_metadata", "_common_metadata"):
                    try:
                        os.unlink(os.path.join(os.path.dirname(root), fn))
                    except OSError:
                        pass
    except Exception as e:   # noqa
        info["raised"] = "%s: %s" % (type(e).__name__, str(e)[:200])
        problems.append("edit path raised on a legal foreign footer: " + info["raised"])
    finally:
        shutil.rmtree(root, ignore_errors=True)
        if simple and os.path.exists(root + ".parquet"):
            os.unlink(root + ".parquet")
    return problems, info
