"""C12: drives the REAL writer and reader end to end (write -> read round trips of generated frames, harness/frames.py +
harness/rt.py) inside a worker that runs under the ASan+UBSan build.  Same protocol as codec_worker.py:
  python codec_rt_worker.py <shadow_root> <cases.json> <out.jsonl> <mode> <start>
one JSON line [i, result] per finished case; `@@CASE i` on stderr before each case."""
import json
import os
import shutil
import sys
import tempfile


def main():
    root, cases_p, out_p = sys.argv[1:4]
    start = int(sys.argv[5]) if len(sys.argv) > 5 else 0
    verif = os.path.dirname(os.path.dirname(os.path.abspath(__file__)))
    sys.path.insert(0, verif)
    sys.path.insert(0, root)
    sys.dont_write_bytecode = True
    import warnings
    warnings.filterwarnings("ignore")
    import numpy as np
    import fastparquet
    assert fastparquet.__file__.startswith(root), fastparquet.__file__
    from harness import rt

    def run(c, tmp):
        fn = c["fn"]
        if fn == "rt":
            res = rt.roundtrip(c["spec"], c["opts"], tmp)
            return ["ok", res["outcome"], (res.get("err") or "")[:120]]
        if fn == "thrift_numpy_int":
            # a numpy integer in a thrift field (what a careless caller passes): must raise, not crash
            from fastparquet import parquet_thrift
            h = parquet_thrift.DataPageHeaderV2(num_values=5, num_nulls=np.int64(2), num_rows=5, encoding=0,
                                                definition_levels_byte_length=1, repetition_levels_byte_length=0)
            ph = parquet_thrift.PageHeader(type=3, uncompressed_page_size=10, compressed_page_size=10, data_page_header_v2=h)
            return ["ok", "serialised", len(bytes(ph.to_bytes()))]
        if fn == "kv_nonascii_big":
            import pandas as pd
            df = pd.DataFrame({"x": [1, 2, 3]})
            fastparquet.write(os.path.join(tmp, "kv.parquet"), df, custom_metadata={"k": "\u00e9" * c["n"]})
            pf = fastparquet.ParquetFile(os.path.join(tmp, "kv.parquet"))
            return ["ok", "written", len(pf.key_value_metadata.get("k", ""))]
        if fn == "mt_read":
            return mt_read(c, tmp)
        return ["unknown-fn", fn]

    def mt_read(c, tmp):
        """Concurrent well-formed use: ONE ParquetFile handle, several threads, each reading its own column(s) over and
        over with a very short thread switch interval.  Every page decoded by the native code must be the page the
        column's metadata names: the process must survive without a sanitizer report and every frame must equal the
        data written (a decoder that was handed the bytes of another column chunk shows as one of the two)."""
        import threading
        import pandas as pd
        n, per_rg = c["n"], c["per_rg"]
        rs = np.random.RandomState(c["seed"])
        df = pd.DataFrame({
            "i": np.full(n, 0x1111111111111111, dtype="int64"),
            "s": np.array(["row %05d" % k for k in range(n)], dtype=object),
            "f": np.where(np.arange(n) % 7 == 3, np.nan, rs.rand(n)),
            "c": pd.Categorical.from_codes(rs.randint(0, 40, n), categories=["cat%02d" % k for k in range(40)]),
            "b": np.array([bytes([k % 251]) * (k % 9) for k in range(n)], dtype=object),
            "j": rs.randint(-5, 5, n).astype("int32"),
        })
        fnm = os.path.join(tmp, "mt.parquet")
        kw = dict(row_group_offsets=per_rg, object_encoding={"s": "utf8", "b": "bytes"}, compression=c.get("compression"))
        if c["scheme"] != "simple":
            os.makedirs(fnm)
            kw["file_scheme"] = c["scheme"]
        old = sys.getswitchinterval()
        from fastparquet import writer
        dpv0 = writer.DATAPAGE_VERSION
        writer.DATAPAGE_VERSION = c.get("dpv", 1)
        try:
            fastparquet.write(fnm, df, **kw)
        finally:
            writer.DATAPAGE_VERSION = dpv0
        pf = fastparquet.ParquetFile(fnm)
        problems = []

        def same(a, b):
            if a.dtype.kind == "f":
                return bool(((a == b) | ((a != a) & (b != b))).all())
            return bool((a == b).all())

        def reader(cols):
            for _ in range(c["rounds"]):
                try:
                    got = pf.to_pandas(columns=list(cols))
                    for col in cols:
                        g = got[col].astype(object).to_numpy() if col == "c" else got[col].to_numpy()
                        w = df[col].astype(object).to_numpy() if col == "c" else df[col].to_numpy()
                        if len(g) != n or not same(g, w):
                            problems.append("column %r: data read back differs from data written" % col)
                except Exception as e:      # noqa
                    problems.append("column %r: %s: %s" % (cols, type(e).__name__, str(e)[:120]))
        sys.setswitchinterval(c["switch"])
        try:
            threads = [threading.Thread(target=reader, args=(cols,)) for cols in c["threads"]]
            for t in threads:
                t.start()
            for t in threads:
                t.join()
        finally:
            sys.setswitchinterval(old)
        if problems:
            return ["ok", "bad-reads", "%d bad reads, first: %s" % (len(problems), problems[0][:200])]
        return ["ok", "clean", "%d threads x %d rounds x %d row groups" % (len(c["threads"]), c["rounds"], len(pf.row_groups))]

    cases = json.load(open(cases_p))
    with open(out_p, "a") as out:
        for i in range(start, len(cases)):
            sys.stderr.write("@@CASE %d\n" % i)
            sys.stderr.flush()
            # under the check's own scratch directory (removed by ctx.finish even when this process is killed)
            tmp = tempfile.mkdtemp(prefix="rt-", dir=os.path.dirname(os.path.abspath(cases_p)))
            try:
                try:
                    r = run(cases[i], tmp)
                except BaseException as e:      # noqa
                    r = ["exc", type(e).__name__, str(e)[:200]]
            finally:
                shutil.rmtree(tmp, ignore_errors=True)
            out.write(json.dumps([i, r]) + "\n")
            out.flush()


if __name__ == "__main__":
    main()
