"""C12: drives the REAL writer and reader end to end (write -> read round trips of generated frames, harness/frames.py +
harness/rt.py) inside a worker that runs under the ASan+UBSan build.  Same protocol as codec_worker.py:
  python codec_rt_worker.py <shadow_root> <cases.json> <out.jsonl> <mode> <start>
one JSON line [i, result] per finished case; `@@CASE i` on stderr before each case."""
import json
import os
import shutil
import sys
import tempfile


def main():
    root, cases_p, out_p = sys.argv[1:4]
    start = int(sys.argv[5]) if len(sys.argv) > 5 else 0
    verif = os.path.dirname(os.path.dirname(os.path.abspath(__file__)))
    sys.path.insert(0, verif)
    sys.path.insert(0, root)
    sys.dont_write_bytecode = True
    import warnings
    warnings.filterwarnings("ignore")
    import numpy as np
    import fastparquet
    assert fastparquet.__file__.startswith(root), fastparquet.__file__
    from harness import rt

    def run(c, tmp):
        fn = c["fn"]
        if fn == "rt":
            res = rt.roundtrip(c["spec"], c["opts"], tmp)
            return ["ok", res["outcome"], (res.get("err") or "")[:120]]
        if fn == "thrift_numpy_int":
            # a numpy integer in a thrift field (what a careless caller passes): must raise, not crash
            from fastparquet import parquet_thrift
            h = parquet_thrift.DataPageHeaderV2(num_values=5, num_nulls=np.int64(2), num_rows=5, encoding=0,
                                                definition_levels_byte_length=1, repetition_levels_byte_length=0)
            ph = parquet_thrift.PageHeader(type=3, uncompressed_page_size=10, compressed_page_size=10, data_page_header_v2=h)
            return ["ok", "serialised", len(bytes(ph.to_bytes()))]
        if fn == "kv_nonascii_big":
            import pandas as pd
            df = pd.DataFrame({"x": [1, 2, 3]})
            fastparquet.write(os.path.join(tmp, "kv.parquet"), df, custom_metadata={"k": "\u00e9" * c["n"]})
            pf = fastparquet.ParquetFile(os.path.join(tmp, "kv.parquet"))
            return ["ok", "written", len(pf.key_value_metadata.get("k", ""))]
        if fn == "mt_read":
            return mt_read(c, tmp)
        if fn == "foreign_chunk":
            return foreign_chunk(c, tmp)
        if fn == "nonascii_text":
            return nonascii_text(c, tmp)
        if fn == "empty_chunks":
            return empty_chunks(c, tmp)
        if fn == "meta_value_kinds":
            return meta_value_kinds(c, tmp)
        return ["unknown-fn", fn]

    def foreign_chunk(c, tmp):
        """A column chunk as OTHER writers lay it out, read through ParquetFile / read_col under the sanitised build: dictionary
        page + data page, uncompressed; with `shape816` the chunk's total_compressed_size does not count the dictionary page
        header (PARQUET-816: old parquet-mr); created_by as given (absent, unversioned, two-component, other writers).  The bytes
        handed to the native decoders must cover the pages whatever created_by says.  Built from a file fastparquet writes (row
        count a multiple of 8: the index run is whole groups, valid for every reader) by rewriting the footer."""
        import struct
        import pandas as pd
        from fastparquet.cencoding import ThriftObject, NumpyIO
        n, ncat = c["n"], c["ncat"]
        labels = ["lab%05d" % k for k in range(ncat)]
        codes = (np.arange(n) * 7 + 3) % ncat
        df = pd.DataFrame({"a": pd.Categorical.from_codes(codes, labels), "b": np.arange(n, dtype="int64")})
        fn0 = os.path.join(tmp, "own.parquet")
        from fastparquet import writer as _w
        dpv0 = _w.DATAPAGE_VERSION
        _w.DATAPAGE_VERSION = c.get("dpv", 1)
        try:
            fastparquet.write(fn0, df[["a"]] if c.get("single", True) else df,
                              row_group_offsets=c.get("rg_rows") or n)
        finally:
            _w.DATAPAGE_VERSION = dpv0
        pf = fastparquet.ParquetFile(fn0)
        raw = open(fn0, "rb").read()
        flen = struct.unpack("<I", raw[-8:-4])[0]
        fstart = len(raw) - 8 - flen
        fmd = pf.fmd
        for rg in fmd.row_groups:
            md = rg.columns[0].meta_data
            off = md.dictionary_page_offset
            io_ = NumpyIO(np.frombuffer(raw[off:off + 400], dtype=np.uint8).copy())
            ThriftObject.from_buffer(io_, "PageHeader")
            if c["shape816"]:
                md.total_compressed_size -= io_.tell()
        fmd.created_by = c["created_by"]
        if c["created_by"] is None or "fastparquet" not in c["created_by"]:
            fmd.key_value_metadata = None              # (no pandas metadata in a foreign file)
        foot = bytes(fmd.to_bytes())
        fn = os.path.join(tmp, "foreign.parquet")
        with open(fn, "wb") as f:
            f.write(raw[:fstart] + foot + struct.pack("<I", len(foot)) + b"PAR1")
        out = fastparquet.ParquetFile(fn).to_pandas()
        got = np.asarray(out["a"].astype(object))
        want = np.asarray(labels, dtype=object)[codes]
        if len(got) != n or not (got == want).all():
            return ["ok", "bad-reads", "%d of %d labels differ from the file's content" % (int((got != want).sum()) if len(got) == n else -1, n)]
        return ["ok", "clean", "%d rows" % n]

    def nonascii_text(c, tmp):
        """Long NON-ASCII text (3 bytes per character in UTF-8) entering the footer through one API path: DataFrame.attrs, column
        names, categorical labels / string statistics, custom_metadata (str or bytes values).  The footer serialiser sizes its
        buffer from character counts: every path must either produce the file (read back equal) or raise - never write outside."""
        import pandas as pd
        ch = "\u6f22\u5b57\u30c6\u30b9\u30c8"          # CJK / kana: 3 bytes each in UTF-8
        text = (ch * (c["chars"] // len(ch) + 1))[:c["chars"]]
        df = pd.DataFrame({"x": np.arange(6, dtype="int64"), "s": ["a", "b", "c", "a", "b", "c"]})
        kw = {}
        path = c["path"]
        if path == "attrs":
            df.attrs = {"note": text, "k": 1}
        elif path == "column_name":
            df = df.rename(columns={"s": text})
        elif path == "cat_labels":
            df["s"] = pd.Categorical.from_codes([0, 1, 2, 0, 1, 2], categories=[text + "0", text + "1", "z" + text])
        elif path == "string_values":
            df["s"] = [text + str(i) for i in range(6)]
        elif path == "custom_metadata_str":
            kw["custom_metadata"] = {"k": text}
        elif path == "custom_metadata_bytes":
            kw["custom_metadata"] = {"k": text.encode("utf-8")}
        else:
            return ["unknown-path", path]
        fnm = os.path.join(tmp, "t.parquet")
        try:
            fastparquet.write(fnm, df, **kw)
        except Exception as e:       # noqa
            return ["ok", "write-raised", "%s: %s" % (type(e).__name__, str(e)[:100])]     # allowed: a Python exception
        pf = fastparquet.ParquetFile(fnm)
        out = pf.to_pandas()
        ok = list(out.columns) == list(df.columns) and len(out) == 6
        if path == "attrs":
            ok = ok and out.attrs.get("note") == text
        if path in ("cat_labels", "string_values"):
            ok = ok and list(out["s"].astype(object)) == list(df["s"].astype(object))
        if path.startswith("custom_metadata"):
            got = pf.key_value_metadata.get("k")
            ok = ok and (got == text or got == text.encode("utf-8"))
        return ["ok", "clean" if ok else "bad-reads", "%s with %d non-ASCII characters" % (path, c["chars"])]

    def empty_chunks(c, tmp):
        """ZERO-row chunks / empty batches / empty frames through one write path: the outcome must be 'written and reads back
        equal' or a Python exception - never a signal (an empty chunk must not reach the compiled thrift setters as None)."""
        import pandas as pd
        n = c["n"]
        df = pd.DataFrame({"k": [("a", "b", "c")[i % 3] for i in range(n)], "x": np.arange(n, dtype="int64"),
                           "f": np.arange(n, dtype="float64") / 2})
        dn = os.path.join(tmp, "ds")
        scheme, op = c["scheme"], c["op"]
        kw = {"file_scheme": scheme}
        if c.get("partition_on") and scheme != "simple":
            kw["partition_on"] = ["k"]
        want = df
        try:
            if op == "offsets":
                fastparquet.write(dn, df, row_group_offsets=c["offsets"], **kw)
            elif op == "empty_frame":
                fastparquet.write(dn, df[:0], **kw)
                want = df[:0]
            elif op == "append_empty":
                fastparquet.write(dn, df, **kw)
                fastparquet.write(dn, df[:0], append=True, **kw)
            elif op == "append_offsets":
                fastparquet.write(dn, df, **kw)
                fastparquet.write(dn, df, append=True, row_group_offsets=c["offsets"], **kw)
                want = pd.concat([df, df], ignore_index=True)
            elif op == "write_row_groups":
                fastparquet.write(dn, df, **kw)
                pf = fastparquet.ParquetFile(dn)
                cuts = c["cuts"]
                parts = [df[a:b] for a, b in zip(cuts[:-1], cuts[1:])]
                pf.write_row_groups(iter(parts))
                want = pd.concat([df] + parts, ignore_index=True)
            else:
                return ["unknown-op", op]
        except Exception as e:       # noqa
            return ["ok", "write-raised", "%s: %s" % (type(e).__name__, str(e)[:100])]
        try:
            out = fastparquet.ParquetFile(dn).to_pandas()
        except Exception as e:       # noqa
            return ["ok", "read-raised", "%s: %s" % (type(e).__name__, str(e)[:100])]
        # (values are C01 / C08's business: here only what a crash-free outcome looks like is recorded)
        a, b = out, want
        same = len(a) == len(b) and ("x" not in a.columns or sorted(a["x"].tolist()) == sorted(b["x"].tolist()))
        return ["ok", "clean" if same else "differs", "%d rows written, %d read" % (len(b), len(a))]

    def meta_value_kinds(c, tmp):
        """Every Python value KIND a caller can plausibly pass where str / bytes are expected, through one metadata entry point:
        the outcome must be a Python exception or a file that still opens - never a signal (an unsupported kind must not reach
        the compiled thrift serialiser)."""
        import pandas as pd
        kinds = {
            "bytearray": lambda: bytearray(b"value\x00\xff"), "memoryview": lambda: memoryview(b"value\x00\xff"),
            "np.bytes_": lambda: np.bytes_(b"value"), "np.str_": lambda: np.str_("value"), "int": lambda: 7, "float": lambda: 1.5,
            "None": lambda: None, "bool": lambda: True, "list": lambda: ["a", b"b"], "tuple": lambda: ("a",), "dict": lambda: {"a": "b"},
            "np.int64": lambda: np.int64(3), "np.array": lambda: np.frombuffer(b"value", dtype="uint8"), "object": lambda: object(),
            "str-subclass": lambda: type("S", (str,), {})("value"), "bytes-subclass": lambda: type("B", (bytes,), {})(b"value"),
            "set": lambda: {"a"}, "nested-bytearray": lambda: [bytearray(b"x")],
        }
        v = kinds[c["kind"]]()
        df = pd.DataFrame({"x": np.arange(5, dtype="int64"), "s": ["a", "b", "c", "d", "e"]})
        fnm = os.path.join(tmp, "t.parquet")
        entry = c["entry"]
        try:
            if entry == "write_value":
                fastparquet.write(fnm, df, custom_metadata={"k": v})
            elif entry == "write_key":
                fastparquet.write(fnm, df, custom_metadata={v: "value"})
            elif entry == "update_value":
                fastparquet.write(fnm, df)
                from fastparquet.writer import update_file_custom_metadata
                update_file_custom_metadata(fnm, {"k": v})
            elif entry == "update_key":
                fastparquet.write(fnm, df)
                from fastparquet.writer import update_file_custom_metadata
                update_file_custom_metadata(fnm, {v: "value"})
            elif entry == "hive_value":
                fastparquet.write(os.path.join(tmp, "ds"), df, file_scheme="hive", custom_metadata={"k": v})
                fnm = os.path.join(tmp, "ds")
            elif entry == "attrs_value":
                df.attrs = {"k": v}
                fastparquet.write(fnm, df)
            elif entry == "fmd_kv":
                # the key-value list of the footer object itself, as a caller editing pf.fmd would set it
                fastparquet.write(fnm, df)
                from fastparquet import parquet_thrift
                pf = fastparquet.ParquetFile(fnm)
                pf.fmd.key_value_metadata = [parquet_thrift.KeyValue(key="k", value=v)]
                from fastparquet import writer
                with open(fnm + ".meta", "wb") as f:
                    writer.write_thrift(f, pf.fmd)
            else:
                return ["unknown-entry", entry]
        except Exception as e:       # noqa
            return ["ok", "write-raised", "%s: %s" % (type(e).__name__, str(e)[:80])]
        try:
            n = len(fastparquet.ParquetFile(fnm).to_pandas())
        except Exception as e:       # noqa
            return ["ok", "read-raised", "%s: %s" % (type(e).__name__, str(e)[:80])]
        return ["ok", "clean" if n == 5 else "differs", "%d rows" % n]

    def mt_read(c, tmp):
        """Concurrent well-formed use: ONE ParquetFile handle, several threads, each reading its own column(s) over and
        over with a very short thread switch interval.  Every page decoded by the native code must be the page the
        column's metadata names: the process must survive without a sanitizer report and every frame must equal the
        data written (a decoder that was handed the bytes of another column chunk shows as one of the two)."""
        import threading
        import pandas as pd
        n, per_rg = c["n"], c["per_rg"]
        rs = np.random.RandomState(c["seed"])
        df = pd.DataFrame({
            "i": np.full(n, 0x1111111111111111, dtype="int64"),
            "s": np.array(["row %05d" % k for k in range(n)], dtype=object),
            "f": np.where(np.arange(n) % 7 == 3, np.nan, rs.rand(n)),
            "c": pd.Categorical.from_codes(rs.randint(0, 40, n), categories=["cat%02d" % k for k in range(40)]),
            "b": np.array([bytes([k % 251]) * (k % 9) for k in range(n)], dtype=object),
            "j": rs.randint(-5, 5, n).astype("int32"),
        })
        fnm = os.path.join(tmp, "mt.parquet")
        kw = dict(row_group_offsets=per_rg, object_encoding={"s": "utf8", "b": "bytes"}, compression=c.get("compression"))
        if c["scheme"] != "simple":
            os.makedirs(fnm)
            kw["file_scheme"] = c["scheme"]
        old = sys.getswitchinterval()
        from fastparquet import writer
        dpv0 = writer.DATAPAGE_VERSION
        writer.DATAPAGE_VERSION = c.get("dpv", 1)
        try:
            fastparquet.write(fnm, df, **kw)
        finally:
            writer.DATAPAGE_VERSION = dpv0
        pf = fastparquet.ParquetFile(fnm)
        problems = []

        def same(a, b):
            if a.dtype.kind == "f":
                return bool(((a == b) | ((a != a) & (b != b))).all())
            return bool((a == b).all())

        def reader(cols):
            for _ in range(c["rounds"]):
                try:
                    got = pf.to_pandas(columns=list(cols))
                    for col in cols:
                        g = got[col].astype(object).to_numpy() if col == "c" else got[col].to_numpy()
                        w = df[col].astype(object).to_numpy() if col == "c" else df[col].to_numpy()
                        if len(g) != n or not same(g, w):
                            problems.append("column %r: data read back differs from data written" % col)
                except Exception as e:      # noqa
                    problems.append("column %r: %s: %s" % (cols, type(e).__name__, str(e)[:120]))
        sys.setswitchinterval(c["switch"])
        try:
            threads = [threading.Thread(target=reader, args=(cols,)) for cols in c["threads"]]
            for t in threads:
                t.start()
            for t in threads:
                t.join()
        finally:
            sys.setswitchinterval(old)
        if problems:
            return ["ok", "bad-reads", "%d bad reads, first: %s" % (len(problems), problems[0][:200])]
        return ["ok", "clean", "%d threads x %d rounds x %d row groups" % (len(c["threads"]), c["rounds"], len(pf.row_groups))]

    cases = json.load(open(cases_p))
    with open(out_p, "a") as out:
        for i in range(start, len(cases)):
            sys.stderr.write("@@CASE %d\n" % i)
            sys.stderr.flush()
            # under the check's own scratch directory (removed by ctx.finish even when this process is killed)
            tmp = tempfile.mkdtemp(prefix="rt-", dir=os.path.dirname(os.path.abspath(cases_p)))
            try:
                try:
                    r = run(cases[i], tmp)
                except BaseException as e:      # noqa
                    r = ["exc", type(e).__name__, str(e)[:200]]
            finally:
                shutil.rmtree(tmp, ignore_errors=True)
            out.write(json.dumps([i, r]) + "\n")
            out.flush()


if __name__ == "__main__":
    main()
