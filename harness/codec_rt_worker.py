"""C12: drives the REAL writer and reader end to end (write -> read round trips of generated frames, harness/frames.py +
harness/rt.py) inside a worker that runs under the ASan+UBSan build.  Same protocol as codec_worker.py:
  python codec_rt_worker.py <shadow_root> <cases.json> <out.jsonl> <mode> <start>
one JSON line [i, result] per finished case; `@@CASE i` on stderr before each case."""
import json
import os
import shutil
import sys
import tempfile


def main():
    root, cases_p, out_p = sys.argv[1:4]
    start = int(sys.argv[5]) if len(sys.argv) > 5 else 0
    verif = os.path.dirname(os.path.dirname(os.path.abspath(__file__)))
    sys.path.insert(0, verif)
    sys.path.insert(0, root)
    sys.dont_write_bytecode = True
    import warnings
    warnings.filterwarnings("ignore")
    import numpy as np
    import fastparquet
    assert fastparquet.__file__.startswith(root), fastparquet.__file__
    from harness import rt

    def run(c, tmp):
        fn = c["fn"]
        if fn == "rt":
            res = rt.roundtrip(c["spec"], c["opts"], tmp)
            return ["ok", res["outcome"], (res.get("err") or "")[:120]]
        if fn == "thrift_numpy_int":
            # a numpy integer in a thrift field (what a careless caller passes): must raise, not crash
            from fastparquet import parquet_thrift
            h = parquet_thrift.DataPageHeaderV2(num_values=5, num_nulls=np.int64(2), num_rows=5, encoding=0,
                                                definition_levels_byte_length=1, repetition_levels_byte_length=0)
            ph = parquet_thrift.PageHeader(type=3, uncompressed_page_size=10, compressed_page_size=10, data_page_header_v2=h)
            return ["ok", "serialised", len(bytes(ph.to_bytes()))]
        if fn == "kv_nonascii_big":
            import pandas as pd
            df = pd.DataFrame({"x": [1, 2, 3]})
            fastparquet.write(os.path.join(tmp, "kv.parquet"), df, custom_metadata={"k": "\u00e9" * c["n"]})
            pf = fastparquet.ParquetFile(os.path.join(tmp, "kv.parquet"))
            return ["ok", "written", len(pf.key_value_metadata.get("k", ""))]
        return ["unknown-fn", fn]

    cases = json.load(open(cases_p))
    with open(out_p, "a") as out:
        for i in range(start, len(cases)):
            sys.stderr.write("@@CASE %d\n" % i)
            sys.stderr.flush()
            # under the check's own scratch directory (removed by ctx.finish even when this process is killed)
            tmp = tempfile.mkdtemp(prefix="rt-", dir=os.path.dirname(os.path.abspath(cases_p)))
            try:
                try:
                    r = run(cases[i], tmp)
                except BaseException as e:      # noqa
                    r = ["exc", type(e).__name__, str(e)[:200]]
            finally:
                shutil.rmtree(tmp, ignore_errors=True)
            out.write(json.dumps([i, r]) + "\n")
            out.flush()


if __name__ == "__main__":
    main()
