"""Helpers shared by the thrift-level checks (C10): Python objects <-> the s-expression shapes of the
pqref commands (Cmd_CThrift.v: impl model values `pv`; Cmd_Thrift.v: spec values `tv`), the crash-safe
worker subprocess, and the IDL table as Python data (translators/idl2coq.parse)."""
import os
import pickle
import select
import struct
import subprocess
import sys

from harness import common as C


# ---------------------------------------------------------------------------------------------------
# impl-model values (pv)
# ---------------------------------------------------------------------------------------------------

def pv(o):
    """Python object as handled by cencoding.write_thrift -> (pd ...) tree for pqref."""
    if o is None:
        return []
    if isinstance(o, bool):
        return ["pb", int(o)]
    if isinstance(o, int):
        return ["pi", int(o)]
    if isinstance(o, float):
        return ["pf", struct.unpack("<Q", struct.pack("<d", o))[0]]
    if isinstance(o, (bytes, bytearray)):
        return ["py", bytes(o)]
    if isinstance(o, str):
        return ["ps", o.encode("utf-8")]
    if isinstance(o, (list, tuple)):
        return ["pl", [pv(x) for x in o]]
    if isinstance(o, dict):
        i32 = 1 if "i32" in o else 0
        i32l = [[int(x) for x in o["i32list"]]] if "i32list" in o else []
        return ["pd", i32, i32l, [[k, pv(v)] for k, v in o.items() if isinstance(k, int) and not isinstance(k, bool)]]
    raise TypeError(type(o))


def unpv(t):
    """(pd ...) tree as printed by pqref -> Python object (dict with the 'i32'/'i32list' markers)."""
    if t == []:
        return None
    tag = t[0].decode("latin-1") if isinstance(t[0], (bytes, bytearray)) else t[0]
    if tag == "pb":
        return bool(t[1])
    if tag == "pi":
        return t[1]
    if tag == "pf":
        return struct.unpack("<d", struct.pack("<Q", t[1]))[0]
    if tag == "py":
        return bytes(t[1])
    if tag == "ps":
        return bytes(t[1]).decode("utf-8")
    if tag == "pl":
        return [unpv(x) for x in t[1]]
    if tag == "pd":
        d = {k: unpv(v) for k, v in t[3]}
        if t[2]:
            d["i32list"] = list(t[2][0])
        elif t[1]:
            d["i32"] = 1
        return d
    raise ValueError(t)


def canon(t):
    """normalise a parsed s-expression (bytes stay bytes, symbols str) for comparison / json"""
    if isinstance(t, (bytes, bytearray)):
        return "#" + bytes(t).hex()
    if isinstance(t, list):
        if t and isinstance(t[0], (bytes, bytearray)):      # a tag symbol printed by pqref
            return [bytes(t[0]).decode("latin-1")] + [canon(x) for x in t[1:]]
        return [canon(x) for x in t]
    return t


# ---------------------------------------------------------------------------------------------------
# the IDL as Python data
# ---------------------------------------------------------------------------------------------------

def load_idl(path=None):
    from translators import idl2coq
    path = path or os.path.join(C.REPO, "fastparquet", "parquet.thrift")
    enums, structs = idl2coq.parse(open(path, encoding="utf-8").read())
    return {n: dict(v) for n, v in enums}, {n: (u, fl) for n, u, fl in structs}


def wire(t):
    if isinstance(t, tuple):
        return {"list": 9, "enum": 5, "struct": 12}[t[0]]
    return {"FBool": 2, "FI8": 3, "FI16": 4, "FI32": 5, "FI64": 6, "FDouble": 7, "FBinary": 8, "FString": 8}[t]


# ---------------------------------------------------------------------------------------------------
# crash-safe worker
# ---------------------------------------------------------------------------------------------------

class Worker:
    """One subprocess running harness/c10_worker.py against the shadow package.  call() returns
    ("ok", result) | ("exc", type, msg) | ("crash", returncode, stderr tail) | ("timeout",)."""

    def __init__(self, root, errdir):
        self.root = root
        self.errdir = errdir
        self.p = None
        self.crashes = 0

    def _start(self):
        env = dict(os.environ)
        env["PYTHONDONTWRITEBYTECODE"] = "1"
        env["MALLOC_CHECK_"] = "3"           # glibc: abort on a detectably corrupted heap
        self.err = open(os.path.join(self.errdir, "c10-worker-%d.err" % os.getpid()), "w+b")
        self.p = subprocess.Popen([C.PY, os.path.join(C.VERIF, "harness", "c10_worker.py"), self.root],
                                  stdin=subprocess.PIPE, stdout=subprocess.PIPE, stderr=self.err, env=env)

    def call(self, op, payload, timeout=120):
        if self.p is None or self.p.poll() is not None:
            self._start()
        try:
            self.p.stdin.write(pickle.dumps((op, payload), protocol=4))
            self.p.stdin.flush()
        except (BrokenPipeError, OSError):
            return self._dead()
        fd = self.p.stdout.fileno()       # exactly one reply per request: nothing is left in the reader's buffer here
        r, _, _ = select.select([fd], [], [], timeout)
        if not r:
            self.p.kill()
            self.p.wait()
            self.p = None
            return ("timeout",)
        try:
            return pickle.load(self.p.stdout)
        except (EOFError, pickle.UnpicklingError):
            return self._dead()

    def _dead(self):
        self.crashes += 1
        try:
            rc = self.p.wait(timeout=10)
        except Exception:   # noqa
            self.p.kill()
            rc = self.p.wait()
        self.err.seek(0)
        tail = self.err.read()[-600:].decode("utf-8", "replace")
        self.p = None
        return ("crash", rc, tail)

    def close(self):
        if self.p is not None:
            try:
                self.p.stdin.close()
                self.p.wait(timeout=5)
            except Exception:   # noqa
                self.p.kill()
            self.p = None
        try:
            os.unlink(self.err.name)
        except Exception:   # noqa
            pass
