"""Generator of laid-out Parquet file descriptions for the spec encoder (C03): a physical table plus
every layout choice of the property's quantifier, as plain data (storable in a replay).
The description format is documented in harness/fmtlib.py (lfile)."""

M32, M64 = (1 << 32) - 1, (1 << 64) - 1

# (physical type id, converted type id or None, logical (thrift tree) or None, tag)
TS_NANOS = ["r", [[8, ["r", [[1, ["b", 1]], [2, ["r", [[3, ["r", []]]]]]]]]]]     # LogicalType.TIMESTAMP(isAdjustedToUTC, NANOS)
COLTYPES = [
    (0, None, None, "bool"),
    (1, None, None, "int32"), (1, 15, None, "int8"), (1, 16, None, "int16"), (1, 17, None, "int32c"),
    (1, 11, None, "uint8"), (1, 12, None, "uint16"), (1, 13, None, "uint32"), (1, 6, None, "date"), (1, 7, None, "time_ms"),
    (2, None, None, "int64"), (2, 18, None, "int64c"), (2, 14, None, "uint64"), (2, 9, None, "ts_ms"), (2, 10, None, "ts_us"),
    (2, 8, None, "time_us"), (2, None, TS_NANOS, "ts_ns"),
    (3, None, None, "int96"),
    (4, None, None, "float"), (5, None, None, "double"),
    (6, None, None, "bytes"), (6, 0, None, "utf8"), (6, 19, None, "json"),
    (7, None, None, "flba"),
]
WORDS = ["", "a", "b", "abc", "é", "日本", "x" * 17, "0.7", "None", " sp ", "a/b=c"]
JSONS = ['{"a": 1}', "[1, 2]", '"s"', "3", "null", '{"k": [1, {"c": "\\u00e9"}]}']


def gen_value(rng, tag, tlen):
    """one physical value (int bit pattern | {"b": hex})"""
    if tag == "bool":
        return rng.randrange(2)
    if tag in ("int32", "int32c"):
        return rng.choice([0, 1, M32, 0x7fffffff, 0x80000000, rng.randrange(1 << 32)])
    if tag == "int8":
        return rng.randint(-128, 127) & M32
    if tag == "int16":
        return rng.randint(-32768, 32767) & M32
    if tag == "uint8":
        return rng.randrange(256)
    if tag == "uint16":
        return rng.randrange(65536)
    if tag == "uint32":
        return rng.choice([0, M32, rng.randrange(1 << 32)])
    if tag == "date":
        return rng.randint(-20000, 40000) & M32
    if tag == "time_ms":
        return rng.randrange(86400000)
    if tag in ("int64", "int64c"):
        return rng.choice([0, 1, M64, (1 << 63) - 1, 1 << 63, rng.randrange(1 << 64), rng.randrange(1 << 20)])
    if tag == "uint64":
        return rng.choice([0, M64, rng.randrange(1 << 64)])
    if tag == "ts_ms":
        return rng.randint(-2 * 10**12, 4 * 10**12) & M64
    if tag == "ts_us":
        return rng.randint(-2 * 10**15, 4 * 10**15) & M64
    if tag == "ts_ns":
        return rng.randint(-2 * 10**18, 4 * 10**18) & M64
    if tag == "time_us":
        return rng.randrange(86400 * 10**6)
    if tag == "int96":
        return rng.randrange(86400 * 10**9) | (rng.randint(2415021, 2488070) << 64)     # 1900 .. 2100
    if tag == "float":
        return rng.choice([0, 0x80000000, 0x3fc00000, 0x7f800000, 0xff800000, rng.randrange(0x7f000000), 0x80000000 | rng.randrange(0x7f000000)])
    if tag == "double":
        return rng.choice([0, 1 << 63, 0x3ff8000000000000, 0x7ff0000000000000, rng.randrange(0x7fe0000000000000),
                           (1 << 63) | rng.randrange(0x7fe0000000000000)])
    if tag == "bytes":
        return {"b": bytes(rng.randrange(256) for _ in range(rng.choice([0, 1, 3, 9]))).hex()}
    if tag == "utf8":
        return {"b": (rng.choice(WORDS) if rng.random() < 0.6 else "s%d" % rng.randrange(50)).encode().hex()}
    if tag == "json":
        return {"b": rng.choice(JSONS).encode().hex()}
    if tag == "flba":
        return {"b": bytes(rng.randrange(1, 256) for _ in range(tlen)).hex()}
    raise ValueError(tag)


def null_pattern(rng, n, pat):
    if pat == "none" or n == 0:
        return [False] * n
    if pat == "all":
        return [True] * n
    if pat == "first":
        return [True] + [False] * (n - 1)
    if pat == "last":
        return [False] * (n - 1) + [True]
    if pat == "blocks":
        out, cur = [], rng.random() < 0.5
        while len(out) < n:
            out += [cur] * rng.choice([1, 3, 8, 9, 16, 40])
            cur = not cur
        return out[:n]
    return [rng.random() < 0.3 for _ in range(n)]


def make_runs(rng, vals, pattern):
    """split a list of small ints into hybrid runs.  A bit-packed run that is not the last holds a
    multiple of 8 values (its padding would otherwise become values)."""
    runs, i, n = [], 0, len(vals)
    if n == 0:
        return []
    if pattern == "single-bp":
        return [["b", list(vals)]]
    if pattern == "single-rle-if-constant" and len(set(vals)) == 1:
        return [["r", n, vals[0]]]
    while i < n:
        j = i
        while j < n and vals[j] == vals[i]:
            j += 1
        same = j - i
        if pattern == "all-rle":
            runs.append(["r", same, vals[i]])
            i = j
            continue
        if pattern == "all-bp":
            k = min(n - i, 8 * rng.choice([1, 1, 2, 5]))
        elif pattern == "alternating":
            if len(runs) % 2 == 0:
                runs.append(["r", same, vals[i]])
                i = j
                continue
            k = min(n - i, 8 * rng.choice([1, 2]))
        else:    # mixed: RLE for long repeats, bit-packed otherwise
            if same >= rng.choice([2, 8, 9]):
                take = rng.randint(1, same) if rng.random() < 0.3 else same
                runs.append(["r", take, vals[i]])
                i += take
                continue
            k = min(n - i, 8 * rng.choice([1, 1, 3]))
        if k % 8 and i + k < n:
            k -= k % 8
            if k == 0:
                k = min(8, n - i)
        runs.append(["b", list(vals[i:i + k])])
        i += k
    # an RLE run may also be longer than needed at the very end (readers stop at num_values)
    if runs and runs[-1][0] == "r" and rng.random() < 0.1:
        runs[-1][1] += rng.choice([1, 7])
    return runs


RUN_PATTERNS = ["all-rle", "all-bp", "alternating", "mixed", "single-bp", "single-rle-if-constant"]
DELTA_SHAPES = [(128, 1), (128, 4), (256, 1), (256, 4), (256, 8)]
DELTA_TAGS = ("int32", "int32c", "int64", "int64c", "uint32", "uint64", "ts_ms", "ts_us", "ts_ns")


def split_points(rng, n, how):
    if n == 0:
        return [0, 0] if how != "none" else [0]
    if how == "every-row" and n <= 12:
        return list(range(n + 1))
    if how == "one":
        return [0, n]
    k = rng.randint(1, min(4, n))
    cuts = sorted(rng.sample(range(1, n), k - 1)) if n > 1 else []
    return [0] + cuts + [n]


def gen_column_values(rng, tag, tlen, n, delta_bits=None):
    if delta_bits is not None and tag in DELTA_TAGS:
        # a walk whose deltas stay below 2^delta_bits, so that miniblock widths are <= delta_bits
        bits = 32 if tag in ("int32", "int32c", "uint32") else 64
        lim = (1 << delta_bits) // 2 if delta_bits else 0
        v = rng.randrange(1 << 20)
        out = []
        for _ in range(n):
            out.append(v & ((1 << bits) - 1))
            v += rng.randint(0, max(0, lim - 1)) if lim else 0
        return out
    pool = None
    if rng.random() < 0.4:
        pool = [gen_value(rng, tag, tlen) for _ in range(rng.choice([1, 2, 3, 7, 20]))]
    return [rng.choice(pool) if pool else gen_value(rng, tag, tlen) for _ in range(n)]


def gen_chunk(rng, tag, ptype, tlen, optional, vals, nulls, knobs):
    """vals: physical values of the non-null rows in order; nulls: bool per row."""
    n = len(nulls)
    cuts = split_points(rng, n, knobs["split"])
    items = []
    dictionary = None
    allow_dict = knobs["dict"]      # BOOLEAN included: dictionary pages with index width 0 / 1 (or wider), v1 and v2
    vi = 0
    for a, b in zip(cuts[:-1], cuts[1:]):
        pn = nulls[a:b]
        k = sum(1 for x in pn if not x)
        pv = vals[vi:vi + k]
        vi += k
        v2 = knobs["v2"] if knobs["v2"] is not None else rng.random() < 0.5
        levels = [0 if x else 1 for x in pn]
        defruns = make_runs(rng, levels, rng.choice(RUN_PATTERNS)) if optional else []
        enc = rng.choice(knobs["encs"])
        store = None
        if enc == "dict" and allow_dict:
            need_new = dictionary is None or any(v not in dictionary for v in pv) or (knobs["second_dict"] and items and rng.random() < 0.5)
            if need_new:
                dvals = []
                for v in pv:
                    if v not in dvals:
                        dvals.append(v)
                extra = [gen_value(rng, tag, tlen) for _ in range(rng.choice([0, 0, 1, 3]))]
                dvals = dvals + [e for e in extra if e not in dvals]
                rng.shuffle(dvals)
                if dictionary is None or knobs["second_dict"]:
                    dictionary = dvals
                    items.append({"dict": rng.choice([0, 2]), "vals": dvals})
                else:
                    enc = "plain"     # values outside the dictionary: fall back to PLAIN inside the chunk
            if enc == "dict":
                ix = [dictionary.index(v) for v in pv]
                need = max(ix).bit_length() if ix else 0
                w = knobs["width"] if knobs["width"] is not None and knobs["width"] >= need else rng.choice([need, need, need + 1, min(32, need + rng.randrange(0, 9))])
                w = max(need, min(32, w))
                store = ["dictidx", rng.choice([2, 8]), w, make_runs(rng, ix, rng.choice(RUN_PATTERNS))]
        if store is None and enc == "rlebool" and ptype == 0:
            store = ["rlebool", make_runs(rng, pv, rng.choice(RUN_PATTERNS))]
        if store is None and enc == "delta" and tag in DELTA_TAGS:
            bits = 32 if ptype == 1 else 64
            zs = [v - (1 << bits) if v >> (bits - 1) else v for v in pv]
            bs, mpb = rng.choice(DELTA_SHAPES)
            store = ["delta", bs, mpb, zs]
        if store is None:
            store = ["plain", pv]
        items.append({"v2": v2, "n": len(pn), "def": defruns, "store": store,
                      "iscomp": rng.choice([None, True, False]) if v2 else None,
                      "trail": rng.choice(["", "", "0000000000000000", "a5ff01"]) if not v2 else ""})
    return {"codec": knobs["codec"], "stats": rng.random() < 0.7, "items": items}


def gen_lfile(rng, knobs=None):
    """-> (lfile description, expected physical table {name: [cell or None]})"""
    knobs = dict(knobs or {})
    ncols = knobs.get("ncols") or rng.choice([1, 1, 2, 3])
    nrgs = knobs.get("nrgs") or rng.choice([1, 1, 2, 3])
    leaves, cols = [], []
    for ci in range(ncols):
        ptype, conv, logical, tag = knobs.get("coltype") or rng.choice(COLTYPES)
        tlen = rng.choice([1, 3, 16]) if ptype == 7 else 0
        optional = knobs.get("optional") if knobs.get("optional") is not None else rng.random() < 0.6
        leaves.append({"name": "c%d_%s" % (ci, tag), "type": ptype, "tlen": tlen, "optional": optional, "conv": conv,
                       "logical": logical, "tag": tag})
    rgs, table = [], {l["name"]: [] for l in leaves}
    for _ in range(nrgs):
        n = knobs.get("rows") if knobs.get("rows") is not None else rng.choice([1, 2, 7, 8, 9, 31, 64, 65, 200])
        chunks = []
        for l in leaves:
            k = {"split": knobs.get("split") or rng.choice(["one", "one", "some", "every-row"]),
                 "v2": knobs.get("v2"), "dict": True, "second_dict": knobs.get("second_dict", rng.random() < 0.15),
                 "width": knobs.get("width"),
                 "encs": knobs.get("encs") or rng.choice([["plain"], ["dict"], ["plain", "dict"], ["dict", "dict", "plain"],
                                                          ["rlebool", "plain"], ["delta"], ["delta", "plain"]]),
                 "codec": knobs.get("codec") if knobs.get("codec") is not None else rng.choice([0, 0, 1, 2, 4, 5, 6, 7])}
            nulls = null_pattern(rng, n, rng.choice(["none", "some", "all", "first", "last", "blocks"])) if l["optional"] else [False] * n
            nv = sum(1 for x in nulls if not x)
            dbits = knobs.get("delta_bits")
            if dbits is None and "delta" in k["encs"] and l["tag"] in DELTA_TAGS:
                dbits = rng.choice([0, 1, 3, 7, 8, 9, 15, 16, 17, 24, 27, 28])
            vals = gen_column_values(rng, l["tag"], l["tlen"], nv, dbits if "delta" in k["encs"] else None)
            chunks.append(gen_chunk(rng, l["tag"], l["type"], l["tlen"], l["optional"], vals, nulls, k))
            it = iter(vals)
            table[l["name"]] += [None if x else next(it) for x in nulls]
        rgs.append(chunks)
    lf = {"leaves": [{k: v for k, v in l.items()} for l in leaves], "rgs": rgs,
          "created_by": knobs.get("created_by", rng.choice(["spec-encoder", "parquet-mr version 1.12", "fastparquet-python version 2024.2.0 (build 0)"]))}
    return lf, table


# ---------------------------------------------------------------------------------------------
# deterministic block (no PRNG): every converted/logical type x sign / extreme values, DECIMAL over every carrier

def _be_signed(v, nbytes):
    return {"b": (v & ((1 << (8 * nbytes)) - 1)).to_bytes(nbytes, "big").hex()}


def _minimal_be(v):
    n = 1
    while not (-(1 << (8 * n - 1)) <= v < (1 << (8 * n - 1))):
        n += 1
    return _be_signed(v, n)


def _signed_range_values(bits):
    lo, hi = -(1 << (bits - 1)), (1 << (bits - 1)) - 1
    mid = (1 << max(bits - 2, 1)) + 3
    vals = [-1, 0, 1, lo, hi, -min(mid, -lo), min(mid, hi), -12345 if bits > 16 else -(lo // -3), 12345 if bits > 16 else hi // 3]
    return [max(lo, min(hi, v)) for v in vals]


EXTREMES = {
    "bool": [0, 1, 1, 0],
    "int32": [0, 1, M32, 0x7fffffff, 0x80000000], "int32c": [0, 1, M32, 0x7fffffff, 0x80000000],
    "int8": [0, 1, (-1) & M32, 127, (-128) & M32], "int16": [0, 1, (-1) & M32, 32767, (-32768) & M32],
    "uint8": [0, 1, 255, 128], "uint16": [0, 1, 65535, 32768], "uint32": [0, 1, M32, 0x80000000],
    # 106751 days = 2262-04-11 is the last day datetime64[ns] holds; 2932896 = 9999-12-31 (a common sentinel date)
    "date": [0, 1, (-1) & M32, 40000, (-20000) & M32, 106751, (-106751) & M32, 106752, 2932896, (-106753) & M32], "time_ms": [0, 1, 86399999],
    "int64": [0, 1, M64, (1 << 63) - 1, 1 << 63], "int64c": [0, 1, M64, (1 << 63) - 1, 1 << 63],
    "uint64": [0, 1, M64, 1 << 63],
    "ts_ms": [0, 1, (-1) & M64, 4 * 10**12, (-2 * 10**12) & M64], "ts_us": [0, 1, (-1) & M64, 4 * 10**15, (-2 * 10**15) & M64],
    "ts_ns": [0, 1, (-1) & M64, 4 * 10**18, (-2 * 10**18) & M64], "time_us": [0, 1, 86400 * 10**6 - 1],
    "int96": [0 | (2440588 << 64), (86400 * 10**9 - 1) | (2440587 << 64), 1 | (2488070 << 64), 5 | (2415021 << 64)],
    "float": [0, 0x80000000, 0x3f800000, 0xbf800000, 0x7f7fffff, 0xff7fffff, 0x00000001, 0x7f800000, 0xff800000],
    "double": [0, 1 << 63, 0x3ff0000000000000, 0xbff0000000000000, 0x7fefffffffffffff, 0xffefffffffffffff, 1, 0x7ff0000000000000],
    "bytes": [{"b": ""}, {"b": "00"}, {"b": "ff"}, {"b": "00ff80"}], "utf8": [{"b": ""}, {"b": "61"}, {"b": "c3a9"}, {"b": "e697a5"}],
    "json": [{"b": b'{"a": -1}'.hex()}, {"b": b"[]".hex()}, {"b": b'"x"'.hex()}, {"b": b"-1.5".hex()}],
    "flba": [{"b": "000000"}, {"b": "ffffff"}, {"b": "800001"}, {"b": "7f00ff"}],
}


def _one_column_file(leaf, vals, optional, enc, v2, minw=1):
    """one column, one row group; a NULL after the second value when optional"""
    nulls = ([False] * len(vals))
    if optional:
        nulls = nulls[:2] + [True] + nulls[2:]
    n = len(nulls)
    levels = [0 if x else 1 for x in nulls]
    defruns = ([["b", levels]] if v2 else [["r", 2, 1], ["b", levels[2:]]]) if optional else []
    items = []
    if enc == "dict":
        dvals = []
        for v in vals:
            if v not in dvals:
                dvals.append(v)
        dvals = dvals[::-1]
        ix = [dvals.index(v) for v in vals]
        w = max(minw, max(ix).bit_length())
        items.append({"dict": 0, "vals": dvals})
        store = ["dictidx", 8, w, [["r", 1, ix[0]], ["b", ix[1:]]] if len(ix) > 1 else [["r", 1, ix[0]]]]
    else:
        store = ["plain", list(vals)]
    items.append({"v2": v2, "n": n, "def": defruns, "store": store, "iscomp": None, "trail": "" if v2 else "0000000000000000"})
    lf = {"leaves": [dict(leaf, optional=optional)], "rgs": [[{"codec": 0, "stats": True, "items": items}]], "created_by": "spec-encoder"}
    it = iter(vals)
    return lf, {leaf["name"]: [None if x else next(it) for x in nulls]}


def fixed_block():
    """-> [(lfile, table)]: deterministic, the same on every run"""
    out = []
    # DECIMAL over FIXED_LEN_BYTE_ARRAY of every interesting width, BYTE_ARRAY, INT32, INT64
    carriers = [(7, w, "flba%d" % w) for w in (1, 2, 3, 5, 7, 8, 9, 16)] + [(6, 0, "ba"), (1, 0, "i32"), (2, 0, "i64")]
    for ptype, tlen, nm in carriers:
        bits = 8 * tlen if ptype == 7 else (72 if ptype == 6 else (32 if ptype == 1 else 64))
        svals = _signed_range_values(bits)
        if ptype == 7:
            vals = [_be_signed(v, tlen) for v in svals]
        elif ptype == 6:
            vals = [_minimal_be(v) for v in svals] + [_be_signed(-1, 3), _be_signed(-256, 9)]
        else:
            vals = [v & (M32 if ptype == 1 else M64) for v in svals]
        leaf = {"name": "dec_" + nm, "type": ptype, "tlen": tlen, "optional": False, "conv": 5, "logical": None,
                "scale": 2, "precision": max(1, min(38, int((bits - 1) * 0.30103))), "tag": "decimal"}
        for optional in (False, True):
            for enc in ("plain", "dict"):
                for v2 in (False, True):
                    out.append(_one_column_file(leaf, vals, optional, enc, v2))
    # every converted / logical type with its sign and extreme values
    for ptype, conv, logical, tag in COLTYPES:
        leaf = {"name": "x_" + tag, "type": ptype, "tlen": 3 if ptype == 7 else 0, "optional": False, "conv": conv, "logical": logical,
                "scale": None, "precision": None, "tag": tag}
        vals = EXTREMES[tag]
        out.append(_one_column_file(leaf, vals, False, "plain", False))
        out.append(_one_column_file(leaf, vals, True, "plain", True))
        out.append(_one_column_file(leaf, vals, True, "dict", False))
        out.append(_one_column_file(leaf, vals, False, "dict", True))
        if ptype == 0:
            # dictionary-encoded BOOLEAN with a single entry (index width 0) and with both (width 1), with and without a NULL
            for bv in ([1, 1, 1], [0, 0], [1, 0, 1, 1, 0, 0, 0, 1, 1]):
                for optional in (False, True):
                    for v2 in (False, True):
                        out.append(_one_column_file(leaf, bv, optional, "dict", v2, minw=0))
    return out


# ---------------------------------------------------------------------------------------------
# wave 4: run-structure lattice entry "ONE RLE run covering the page" x every index width 1..32 (deterministic)

def constant_block():
    """-> [(lfile, table)]: dictionary-encoded pages whose indices are a single RLE run (all values equal; what parquet-mr / arrow write
    for a page with one distinct value) for every index width 1..32, the repeated index with its HIGH bytes set where the width allows
    (300 = 0x012C, 70000 = 0x011170), run exactly as long as the page or longer, v1 / v2, required / optional with NULLs, INT64 and UTF8"""
    out = []
    for w in range(1, 33):
        for v2 in (False, True):
            for optional in (False, True):
                big = w in (17, 24, 32) and v2 == optional          # a 3-byte repeated index needs a dictionary of 70001 entries: six files
                dsize = 70001 if big else (400 if w >= 9 else (1 << w))
                idx = 70000 if big else (300 if w >= 9 else (1 << w) - 1)
                text = (w % 2 == 1) and not big
                if text:
                    leaf = {"name": "k_utf8_w%d" % w, "type": 6, "tlen": 0, "optional": optional, "conv": 0, "logical": None,
                            "scale": None, "precision": None, "tag": "utf8"}
                    dvals = [{"b": ("v%05d" % i).encode().hex()} for i in range(dsize)]
                else:
                    leaf = {"name": "k_int64_w%d" % w, "type": 2, "tlen": 0, "optional": optional, "conv": None, "logical": None,
                            "scale": None, "precision": None, "tag": "int64"}
                    dvals = [(i * 1000003 + 7) & M64 for i in range(dsize)]
                n = [5, 8, 9, 40][(w + v2) % 4]
                nulls = [optional and (i % 4 == 1) for i in range(n)]
                k = sum(1 for x in nulls if not x)
                levels = [0 if x else 1 for x in nulls]
                defruns = []
                if optional:
                    i = 0
                    while i < n:                    # plain RLE runs of the levels
                        j = i
                        while j < n and levels[j] == levels[i]:
                            j += 1
                        defruns.append(["r", j - i, levels[i]])
                        i = j
                run_len = k + (7 if w % 5 == 0 else 0)        # an RLE run may be longer than the page needs
                items = [{"dict": 0, "vals": dvals},
                         {"v2": v2, "n": n, "def": defruns, "store": ["dictidx", 8 if v2 else 2, w, [["r", run_len, idx]]],
                          "iscomp": None, "trail": ""}]
                lf = {"leaves": [leaf], "rgs": [[{"codec": 0, "stats": True, "items": items}]], "created_by": "parquet-mr version 1.12.3"}
                table = {leaf["name"]: [None if x else dvals[idx] for x in nulls]}
                out.append((lf, table))
    return out


# ---------------------------------------------------------------------------------------------
# wave 4: BIG pages (>= 64 KiB uncompressed): a dictionary page followed by data pages, each codec - buffers a reader may recycle

def big_page_file(rng, codec, v2, text, npages=2):
    """dictionary page of about 96 KiB, then `npages` data pages of about 80 KiB each (PLAIN fallback page last), one row group"""
    if text:
        leaf = {"name": "big_utf8", "type": 6, "tlen": 0, "optional": False, "conv": 0, "logical": None, "scale": None, "precision": None, "tag": "utf8"}
        dvals = [{"b": ("label-%06d-%s" % (i, "x" * 12)).encode().hex()} for i in range(3200)]       # 3200 * (4 + 25) = 92.8 KB
        rows = 40000                                                                                    # 16-bit indices: 80 KB
        w = 16
    else:
        leaf = {"name": "big_int64", "type": 2, "tlen": 0, "optional": False, "conv": None, "logical": None, "scale": None, "precision": None, "tag": "int64"}
        dvals = [((i * 2654435761) ^ (i << 40)) & M64 for i in range(12000)]                            # 96 KB
        rows = 40000
        w = 16
    items = [{"dict": 0, "vals": dvals}]
    table = []
    for p in range(npages):
        ix = [rng.randrange(len(dvals)) for _ in range(rows)]
        items.append({"v2": v2, "n": rows, "def": [], "store": ["dictidx", 8 if v2 else 2, w, [["b", ix]]], "iscomp": None, "trail": ""})
        table += [dvals[i] for i in ix]
    if not text:
        pv = [dvals[rng.randrange(len(dvals))] for _ in range(9000)]                                     # PLAIN page of 72 KB
        items.append({"v2": v2, "n": len(pv), "def": [], "store": ["plain", pv], "iscomp": None, "trail": ""})
        table += pv
    lf = {"leaves": [leaf], "rgs": [[{"codec": codec, "stats": True, "items": items}]], "created_by": "parquet-cpp-arrow version 14.0.2"}
    return lf, {leaf["name"]: table}


def high_index_block():
    """-> [(lfile, table, categories?)]: files NAMING fastparquet whose dictionary has more entries than a SIGNED index of the page's width
    can address (129..256 entries at width 8, 32769.. at width 16) in exactly the layout fastparquet writes (one bit-packed run): the
    raw-codes shortcut of the reader passes its layout check and must still read the indices as unsigned"""
    out = []
    for w, dsize in ((8, 200), (8, 256), (16, 40000)):
        for v2 in (False, True):
            for optional in (False, True):
                for cats in ((False, True) if dsize < 32768 else (False,)):      # (categories=[col] allocates int16 codes: refused above 32767 labels)
                    leaf = {"name": "h_int64_w%d" % w, "type": 2, "tlen": 0, "optional": optional, "conv": None, "logical": None,
                            "scale": None, "precision": None, "tag": "int64"}
                    dvals = [(i * 1000003 + 11) & M64 for i in range(dsize)]
                    n = 16
                    nulls = [optional and i % 5 == 2 for i in range(n)]
                    ix = [(dsize - 1 - 3 * i) if i % 2 == 0 else i for i in range(sum(1 for x in nulls if not x))]
                    levels = [0 if x else 1 for x in nulls]
                    items = [{"dict": 0, "vals": dvals},
                             {"v2": v2, "n": n, "def": ([["b", levels]] if optional else []), "store": ["dictidx", 8 if v2 else 2, w, [["b", ix]]],
                              "iscomp": None, "trail": ""}]
                    lf = {"leaves": [leaf], "rgs": [[{"codec": 0, "stats": True, "items": items}]],
                          "created_by": "fastparquet-python version 2023.4.0 (build 0)"}
                    it = iter(ix)
                    table = {leaf["name"]: [None if x else dvals[next(it)] for x in nulls]}
                    out.append((lf, table, cats))
    return out


# ---------------------------------------------------------------------------------------------
# wave 6: statistics filled as the format prescribes, chunk contents adversarial w.r.t. their own statistics

import struct as _struct


def _f2u(x, double):
    return _struct.unpack("<Q" if double else "<I", _struct.pack("<d" if double else "<f", x))[0]


def _u2f(u, double):
    return _struct.unpack("<d" if double else "<f", _struct.pack("<Q" if double else "<I", u))[0]


def spec_stats_of(leaf, cells, null_count=True, zero_rule=True):
    """Statistics of a chunk per parquet.thrift: NULLs and NaN excluded from min_value / max_value, signed or unsigned order by the
    logical type, -0.0 as min and +0.0 as max when a zero is the bound (zero_rule), PLAIN little-endian bytes.  None for other types."""
    tag, t = leaf["tag"], leaf["type"]
    vals = [c for c in cells if c is not None]
    nc = sum(1 for c in cells if c is None)
    st = {"min": None, "max": None, "null_count": nc if null_count else None}
    if tag in ("float", "double"):
        d = tag == "double"
        fs = [(_u2f(v, d), v) for v in vals]
        fs = [(f, v) for f, v in fs if f == f]
        if fs:
            lo = min(fs, key=lambda p: (p[0], 0 if p[1] >> (63 if d else 31) else 1))[1]      # -0.0 sorts before +0.0
            hi = max(fs, key=lambda p: (p[0], 0 if p[1] >> (63 if d else 31) else 1))[1]
            if zero_rule and _u2f(lo, d) == 0.0:
                lo = _f2u(-0.0, d)
            if zero_rule and _u2f(hi, d) == 0.0:
                hi = _f2u(0.0, d)
            w = 8 if d else 4
            st["min"], st["max"] = lo.to_bytes(w, "little").hex(), hi.to_bytes(w, "little").hex()
        return st
    if t in (1, 2) and tag in ("int32", "int32c", "int8", "int16", "int64", "int64c", "uint8", "uint16", "uint32", "uint64", "ts_ms", "ts_us", "ts_ns", "date", "time_ms", "time_us"):
        bits = 32 if t == 1 else 64
        signed = not tag.startswith("uint")
        key = (lambda v: v - (1 << bits) if v >> (bits - 1) else v) if signed else (lambda v: v)
        if vals:
            st["min"] = min(vals, key=key).to_bytes(bits // 8, "little").hex()
            st["max"] = max(vals, key=key).to_bytes(bits // 8, "little").hex()
        return st
    return {"min": None, "max": None, "null_count": st["null_count"]}


def attach_spec_stats(lf, table, null_count=True, zero_rule=True):
    """lf["spec_stats"] from the table (cells per column over the row groups in order)"""
    at = {l["name"]: 0 for l in lf["leaves"]}
    out = []
    for rg in lf["rgs"]:
        row = []
        for l, c in zip(lf["leaves"], rg):
            n = sum(it["n"] for it in c["items"] if "store" in it)
            cells = table[l["name"]][at[l["name"]]:at[l["name"]] + n]
            at[l["name"]] += n
            row.append(spec_stats_of(l, cells, null_count, zero_rule))
        out.append(row)
    lf["spec_stats"] = out
    return lf


def stats_block():
    """-> [(lfile, table)] deterministic: chunks whose contents are adversarial w.r.t. their own (correct) statistics"""
    out = []
    for tag, ptype in (("double", 5), ("float", 4), ("int64", 2), ("int32", 1)):
        d = tag == "double"
        isf = tag in ("double", "float")
        one = _f2u(1.5, d) if isf else 7
        nan = _f2u(float("nan"), d) if isf else None
        pz, nz = (_f2u(0.0, d), _f2u(-0.0, d)) if isf else (0, 0)
        contents = [("constant", [one] * 6, False, True, True)]
        contents.append(("equal+NULL, null_count absent", [one, None, one, one, None, one], True, False, True))
        contents.append(("equal+NULL, null_count given", [one, None, one, one, None, one], True, True, True))
        if isf:
            contents.append(("equal+NaN", [one, nan, one, one, nan, one], False, True, True))
            contents.append(("only NaN", [nan, nan, nan], False, True, True))
            contents.append(("+-0.0, bounds -0.0/+0.0", [pz, nz, pz, nz], False, True, True))
            contents.append(("+-0.0, bounds both +0.0", [pz, nz, pz, nz], False, True, False))
        for what, cells, optional, ncount, zrule in contents:
            for v2 in (False, True):
                for enc in ("plain", "dict"):
                    leaf = {"name": "s_%s" % tag, "type": ptype, "tlen": 0, "optional": optional, "conv": None, "logical": None,
                            "scale": None, "precision": None, "tag": tag}
                    vals = [c for c in cells if c is not None]
                    levels = [0 if c is None else 1 for c in cells]
                    items = []
                    if enc == "dict":
                        dv = []
                        for v in vals:
                            if v not in dv:
                                dv.append(v)
                        items.append({"dict": 0, "vals": dv})
                        ix = [dv.index(v) for v in vals]
                        w = max(1, (len(dv) - 1).bit_length())
                        store = ["dictidx", 8 if v2 else 2, w, [["b", ix]]]
                    else:
                        store = ["plain", vals]
                    items.append({"v2": v2, "n": len(cells), "def": ([["b", levels]] if optional else []), "store": store, "iscomp": None, "trail": ""})
                    lf = {"leaves": [leaf], "rgs": [[{"codec": 0, "stats": True, "items": items}]], "created_by": "parquet-mr version 1.12.3 (build abc)",
                          "what": what}
                    table = {leaf["name"]: list(cells)}
                    out.append(attach_spec_stats(lf, table, null_count=ncount, zero_rule=zrule))
                    out[-1] = (lf, table)
    return out
