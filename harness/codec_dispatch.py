"""Tie for the Python-level dispatch around the native codecs (C11 / C12): translators/dispatch2coq.py regenerates the
decision functions of encoding.read_plain and of the index-decoder chains of core.read_data_page / read_data_page_v2 as
Gallina (build/gen/<pid>/GenDispatch.v); coq/genproofs/GenDispatchProofs.v is re-proved on that text.  Fail closed: when the
translator refuses the source the pinned text (coq/genproofs/GenDispatch.pinned.v) is used, `translator_fallback` is
recorded, and the correspondence below (which runs in both cases) compares the decision functions with what the real
page readers are OBSERVED to do (which decoder was called, with which item size and which allocation)."""
import os
import shutil
import subprocess

from harness import common as C

_REQ = ("From Coq Require Import NArith List Bool.\nFrom Pq Require Import Impl.Dispatch.\nFrom PqGen Require Import GenDispatch.\n"
        "Import ListNotations.\nOpen Scope N_scope.\n"
        "Definition ic (d : idec) : N * N * N := match d with DFast => (1, 0, 0) | DGeneric a k => (2, a, k) | DZeros => (3, 0, 0) "
        "| DNone => (0, 0, 0) end.\n"
        "Definition pc (d : pdec) : N * N * N := match d with PFixed k c => (1, k, c) | PBool c => (2, 0, c) | PWhole u => (3, if u then 1 else 0, 0) "
        "| PUnpack c u => (4, if u then 1 else 0, c) | PNone => (0, 0, 0) end.\n")


def translate_dispatch(ctx, proofs="GenDispatchProofs.v"):
    """returns ('translated' | 'fallback', table) - table: the decision functions evaluated by vm_compute in coqc"""
    enc = os.path.join(C.REPO, "fastparquet", "encoding.py")
    core = os.path.join(C.REPO, "fastparquet", "core.py")
    p = subprocess.run([C.PY, os.path.join(C.VERIF, "translators", "dispatch2coq.py"), enc, core],
                       stdout=subprocess.PIPE, stderr=subprocess.PIPE)
    gen = os.path.join(ctx.gen_dir, "GenDispatch.v")
    if p.returncode != 0:
        why = p.stderr.decode()[-300:].strip()
        ctx.notes.append("translator_fallback: dispatch2coq refused the source (%s); pinned text GenDispatch.pinned.v + "
                         "correspondence with the observed dispatch of the real page readers used" % why)
        ctx.extra["translator_dispatch2coq"] = "fallback: " + why
        txt = open(os.path.join(C.COQ, "genproofs", "GenDispatch.pinned.v")).read()
        mode = "fallback"
    else:
        txt = p.stdout.decode()
        ctx.extra["translator_dispatch2coq"] = "translated"
        mode = "translated"
    if not os.path.exists(gen) or open(gen).read() != txt:
        open(gen, "w").write(txt)
    ok, out = C.coqc(gen, extra_q=[(ctx.gen_dir, "PqGen")])
    ctx.obligation("GenDispatch.v (%s) compiles" % ("regenerated from encoding.read_plain / core.read_data_page(_v2)" if mode == "translated"
                                                   else "pinned text: the translator refused the source"), ok, out)
    if not ok:
        return mode, None
    gp = os.path.join(ctx.gen_dir, proofs)
    shutil.copy(os.path.join(C.COQ, "genproofs", proofs), gp)
    ctx.coq_file(gp, extra_q=[(ctx.gen_dir, "PqGen")])
    # the decision tables, evaluated in the kernel
    exprs = ["map (fun w => flat_map (fun f : N -> bool -> bool -> idec => [ic (f w false false); ic (f w false true); ic (f w true false); "
             "ic (f w true true)]) [v1_index_dispatch true; v2_cat_dispatch true; v2_deref_dispatch true]) widths_0_32",
             "map (fun t => [pc (read_plain_dispatch t 5 3 100 false false); pc (read_plain_dispatch t 5 3 100 true false); "
             "pc (read_plain_dispatch t 1 0 100 false true); pc (read_plain_dispatch t 1 0 100 true true); "
             "pc (read_plain_dispatch t 1 3 100 false false)]) [0;1;2;3;4;5;6;7;8]"]
    res = C.vm_eval(_REQ, exprs, "list (list (N * N * N))", os.path.join(ctx.scratch, "dispatch_vm"), tag="dispatch",
                    extra_q=[(ctx.gen_dir, "PqGen")])
    tab = [C.parse_coq(r) if r is not None else None for r in res]
    if tab[0] is None or tab[1] is None:
        ctx.obligation("decision tables of GenDispatch.v evaluate (vm_compute)", False, repr(res)[:500])
        return mode, None
    idx = {}
    names = [(nm, sm, one) for nm in ("v1", "v2cat", "v2deref") for sm in (False, True) for one in (False, True)]
    for w, row in enumerate(tab[0]):
        for (nm, sm, one), cell in zip(names, row):
            idx[(nm, w, sm, one)] = tuple(int(x) for x in cell)
    plain = {}
    cols = [(5, 3, False, False), (5, 3, True, False), (1, 0, False, True), (1, 0, True, True), (1, 3, False, False)]
    for t, row in enumerate(tab[1]):
        for col, cell in zip(cols, row):
            plain[(t,) + col] = tuple(int(x) for x in cell)
    return mode, {"index": idx, "plain": plain}


TYPE_IDS = {"BOOLEAN": 0, "INT32": 1, "INT64": 2, "INT96": 3, "FLOAT": 4, "DOUBLE": 5, "BYTE_ARRAY": 6, "FIXED_LEN_BYTE_ARRAY": 7}


def observed_index(c, r):
    """what the real page reader did for the index block of a REQUIRED page: (kind, alloc item size, itemsize)"""
    calls = r[4] if len(r) > 4 else None
    if calls is None:
        return None
    calls = [k for k in calls if k[0] == c["w"]]
    if not calls:
        return ("no-generic-call",)
    w, isz, nbytes = calls[-1]
    want = c["meta"]["want"]
    nval = c.get("nval", c["n"]) if isinstance(want, str) else len(want)
    return ("generic", nbytes // nval if nval and nbytes % nval == 0 else ("nbytes", nbytes), isz)


def model_index(tab, c):
    # (read_data_page_v2 sends RLE-encoded BOOLEAN values through the same branch as categorical codes)
    chain = "v1" if c["fn"] == "page_v1_dict" else ("v2cat" if (c.get("use_cat") or c.get("rle_bool")) else "v2deref")
    d = tab["index"].get((chain, c["w"], bool(c.get("selfmade")), bool(c["meta"].get("one_run", c.get("wform")))))
    if d is None:
        return None
    if d[0] == 2:
        return ("generic", d[1], d[2])
    return ("no-generic-call",)


# ---------------------------------------------------------------------------------------------
# writer.make_definitions / writer.encode_dict (translators/writer2coq.py)
# ---------------------------------------------------------------------------------------------

def translate_writer(ctx):
    src = os.path.join(C.REPO, "fastparquet", "writer.py")
    p = subprocess.run([C.PY, os.path.join(C.VERIF, "translators", "writer2coq.py"), src], stdout=subprocess.PIPE, stderr=subprocess.PIPE)
    gen = os.path.join(ctx.gen_dir, "GenWriter.v")
    if p.returncode != 0:
        why = p.stderr.decode()[-300:].strip()
        ctx.notes.append("translator_fallback: writer2coq refused the source (%s); pinned text GenWriter.pinned.v + the relation "
                         "'decodes (spec) to the input' on the real bytes used" % why)
        ctx.extra["translator_writer2coq"] = "fallback: " + why
        txt = open(os.path.join(C.COQ, "genproofs", "GenWriter.pinned.v")).read()
        mode = "fallback"
    else:
        txt = p.stdout.decode()
        ctx.extra["translator_writer2coq"] = "translated"
        mode = "translated"
    if not os.path.exists(gen) or open(gen).read() != txt:
        open(gen, "w").write(txt)
    ok, out = C.coqc(gen, extra_q=[(ctx.gen_dir, "PqGen")])
    ctx.obligation("GenWriter.v (%s) compiles" % ("regenerated from writer.make_definitions / encode_dict" if mode == "translated"
                                                 else "pinned text: the translator refused the source"), ok, out)
    if ok:
        gp = os.path.join(ctx.gen_dir, "GenWriterProofs.v")
        shutil.copy(os.path.join(C.COQ, "genproofs", "GenWriterProofs.v"), gp)
        ctx.coq_file(gp, extra_q=[(ctx.gen_dir, "PqGen")])
    return mode if ok else None


def writer_correspondence(ctx, mode, obs, limit=80):
    """the regenerated Gallina functions evaluated in the kernel against the bytes the real functions produced (only when the
    text was translated from the source: byte equality is the tie of the TRANSLATOR, not an obligation on the writer - with the
    pinned text after a fallback the proved relation on the real bytes decides)"""
    if mode != "translated" or not obs:
        return
    pick = []
    for fn in ("make_definitions", "encode_dict"):
        sub = [o for o in obs if o[0]["fn"] == fn]
        step = max(1, len(sub) // (limit // 2))
        pick += sub[::step][:limit // 2]
    exprs = []
    for c, r in pick:
        if c["fn"] == "make_definitions":
            packed = "[" + "; ".join(str(x) for x in bytes.fromhex(r[3])) + "]"
            exprs.append("gen_make_definitions %s %d %d %s" % ("true" if c["no_nulls"] else "false", c["version"], len(c["vals"]), packed))
        else:
            exprs.append("gen_encode_dict %d [%s]" % (c["meta"]["isz"], "; ".join(str(v) for v in c["vals"])))
    req = ("From Coq Require Import NArith List.\nFrom PqGen Require Import GenWriter.\nImport ListNotations.\nOpen Scope N_scope.\n")
    res = C.vm_eval(req, exprs, "list N", os.path.join(ctx.scratch, "writer_vm"), tag="writer", extra_q=[(ctx.gen_dir, "PqGen")])
    for (c, r), k in zip(pick, res):
        got = bytes(int(x) for x in C.parse_coq(k)).hex() if k is not None else None
        ctx.correspondence("regenerated %s (GenWriter.v, kernel evaluation) = bytes the real function wrote" % c["fn"],
                           {"fn": c["fn"], "n": len(c["vals"]), "version": c.get("version"), "no_nulls": c.get("no_nulls"), "dtype": c.get("dtype")},
                           got, r[1])


# ---------------------------------------------------------------------------------------------
# module-level state touched by the codec functions (translators/state2coq.py: an inventory, no fallback needed)
# ---------------------------------------------------------------------------------------------

def translate_state(ctx):
    enc = os.path.join(C.REPO, "fastparquet", "encoding.py")
    wr = os.path.join(C.REPO, "fastparquet", "writer.py")
    p = subprocess.run([C.PY, os.path.join(C.VERIF, "translators", "state2coq.py"), enc, wr], stdout=subprocess.PIPE, stderr=subprocess.PIPE)
    ctx.obligation("state2coq: inventory of module-level state of the codec functions produced", p.returncode == 0, p.stderr.decode()[-300:])
    if p.returncode != 0:
        return
    gen = os.path.join(ctx.gen_dir, "GenState.v")
    txt = p.stdout.decode()
    if not os.path.exists(gen) or open(gen).read() != txt:
        open(gen, "w").write(txt)
    ok, out = C.coqc(gen, extra_q=[(ctx.gen_dir, "PqGen")])
    ctx.obligation("GenState.v (regenerated from encoding.py / writer.py) compiles", ok, out)
    if ok:
        gp = os.path.join(ctx.gen_dir, "GenStateProofs.v")
        shutil.copy(os.path.join(C.COQ, "genproofs", "GenStateProofs.v"), gp)
        ctx.coq_file(gp, extra_q=[(ctx.gen_dir, "PqGen")])
    ctx.extra["translator_state2coq"] = "translated"
