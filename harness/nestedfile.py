"""Spec-level writer of nested (LIST / MAP) Parquet files, used by the C15 check.

Written from the Parquet documents only (Dremel record shredding, Encodings.md: RLE/bit-packed
hybrid, PLAIN, dictionary pages; parquet.thrift page headers; LogicalTypes.md LIST/MAP shapes).
fastparquet cannot write nested data, so no fastparquet writer code is involved; the only thing
borrowed from the library is the thrift *serialiser* of page headers / footer (parquet_thrift /
ThriftObject.to_bytes, covered by C10).

The level encoder (`hybrid`) and `shred` are deliberately small pure functions so that they can be
swapped for pqref commands: `shred` already IS cross-checked against the proved Coq `shred` of
Format/Nested.v on every file the check writes (see harness/props/C15.py).
"""
import struct

# ---------------------------------------------------------------------------------------------
# Dremel shredding of one-level lists (LogicalTypes.md LIST; MAP key / value columns have the same
# level structure as LIST<required key> / LIST<optional value>)
# ---------------------------------------------------------------------------------------------


def levels_of_shape(row_opt, elem_opt):
    """(d_empty, d_null_elem, max_def) for  <row_opt> group (LIST) { repeated group { <elem_opt> leaf } }"""
    d_empty = 1 if row_opt else 0
    max_def = d_empty + 1 + (1 if elem_opt else 0)
    return d_empty, d_empty + 1, max_def


def shred(rows, row_opt, elem_opt):
    """rows: list of (None | list of (None | value)) -> (rep levels, def levels, non-null values)."""
    d_empty, d_nullel, max_def = levels_of_shape(row_opt, elem_opt)
    rep, de, vals = [], [], []
    for r in rows:
        if r is None:
            assert row_opt
            rep.append(0), de.append(0)
        elif len(r) == 0:
            rep.append(0), de.append(d_empty)
        else:
            for k, e in enumerate(r):
                rep.append(0 if k == 0 else 1)
                if e is None:
                    assert elem_opt
                    de.append(d_nullel)
                else:
                    de.append(max_def)
                    vals.append(e)
    return rep, de, vals


STRUCT_NULL = "<struct null>"       # row marker: an ancestor struct group of the LIST / MAP group is null in this row
# "<struct null>" = the outermost optional ancestor is null (level 0); "<struct null k>" = the first k optional
# ancestors are there and the next one is null (level k)


def is_struct_null(r):
    return isinstance(r, str) and r.startswith("<struct null")


def struct_null_level(r):
    return 0 if r == STRUCT_NULL else int(r[len("<struct null "):-1])


def col_structs(col):
    """ancestor groups of the LIST / MAP group, outermost first: [{"name", "opt"[, "rep"]}]"""
    if col.get("structs"):
        return list(col["structs"])
    return [col["struct"]] if col.get("struct") else []


def struct_off(leaf):
    """number of non-required ancestor groups of the LIST/MAP group"""
    if leaf.get("struct_opts") is not None:
        return sum(1 for o in leaf["struct_opts"] if o)
    return 1 if leaf.get("struct_opt") else 0


def max_def_leaf(leaf):
    return levels_of_shape(leaf["row_opt"], leaf["elem_opt"])[2] + struct_off(leaf)


def shred_leaf(lrows, leaf):
    """Dremel shredding of a LIST / MAP leaf that may sit below struct groups
    (optional group s { <LIST or MAP group> }): every level of the one-level shape moves up by the number of
    optional ancestors; a null ancestor is the level of the optional ancestors defined above it."""
    off = struct_off(leaf)
    cont = leaf.get("max_rep", 1)          # repetition level of a continuation entry (2 below a repeated ancestor)
    rep, de, vals = [], [], []
    for r in lrows:
        if is_struct_null(r):
            assert struct_null_level(r) < off
            rep.append(0), de.append(struct_null_level(r))
        else:
            r1, d1, v1 = shred([r], leaf["row_opt"], leaf["elem_opt"])
            rep += [x * cont for x in r1]
            de += [d + off for d in d1]
            vals += v1
    return rep, de, vals


# ---------------------------------------------------------------------------------------------
# Encodings.md
# ---------------------------------------------------------------------------------------------

def uleb(n):
    out = bytearray()
    while True:
        b = n & 0x7F
        n >>= 7
        if n:
            out.append(b | 0x80)
        else:
            out.append(b)
            return bytes(out)


def bit_width(maxval):
    return int(maxval).bit_length()


def _bitpack(vals, width):
    """LSB-first packing of len(vals) (a multiple of 8) values of `width` bits."""
    acc = 0
    for k, v in enumerate(vals):
        acc |= (v & ((1 << width) - 1)) << (k * width)
    return acc.to_bytes(len(vals) * width // 8, "little")


LEVEL_LOG = None        # when a list: every hybrid stream written is logged as (width, runs, bytes) for the cross-check
                        # against the proved Coq spec encoder Codec/Hybrid.v hyb_enc (pqref command hyb_enc)


def hybrid_runs(vals, width, style="mixed"):
    """RLE / bit-packed hybrid (Encodings.md) as a list of runs  ["rle", count, value] | ["bp", [values]]
    (a bit-packed run is padded with zeros to a multiple of 8 values when serialised).
    style: 'rle' (one rle run per maximal run of equal values), 'bp' (one bit-packed run), 'mixed' (rle for runs >= 8,
    bit-packed groups otherwise; a bit-packed run that is not the last one holds a multiple of 8 real values)."""
    n = len(vals)
    if n == 0:
        return []
    if width == 0:
        return [["rle", n, 0]]          # run of n zeros, zero value bytes
    if style == "bp":
        return [["bp", list(vals)]]
    runs = []
    if style == "rle":
        i = 0
        while i < n:
            j = i
            while j < n and vals[j] == vals[i]:
                j += 1
            runs.append(["rle", j - i, int(vals[i])])
            i = j
        return runs
    i = 0
    pend = []
    while i < n:
        j = i
        while j < n and vals[j] == vals[i]:
            j += 1
        run = j - i
        if run >= 8 and len(pend) % 8 == 0:
            if pend:
                runs.append(["bp", pend])
                pend = []
            runs.append(["rle", run, int(vals[i])])
            i = j
        else:
            take = min(run, 8 - len(pend) % 8) if run >= 8 else run
            pend = pend + [int(x) for x in vals[i:i + take]]
            i += take
    if pend:
        runs.append(["bp", pend])
    return runs


def hybrid_bytes(runs, width):
    """rle-run = varint(count << 1) value in ceil(width/8) bytes LE; bit-packed-run = varint((groups << 1) | 1) groups*8
    values bit-packed LSB first"""
    out = bytearray()
    vb = (width + 7) // 8
    for r in runs:
        if r[0] == "rle":
            out += uleb(r[1] << 1) + int(r[2]).to_bytes(vb, "little")
        else:
            g = (len(r[1]) + 7) // 8
            out += uleb((g << 1) | 1) + _bitpack(list(r[1]) + [0] * (g * 8 - len(r[1])), width)
    return bytes(out)


def hybrid(vals, width, style="mixed"):
    runs = hybrid_runs(vals, width, style)
    b = hybrid_bytes(runs, width)
    if LEVEL_LOG is not None and runs:
        LEVEL_LOG.append((width, runs, b))
    return b


PTYPES = {  # name -> (parquet Type id, converted type or None)
    "int32": (1, None), "int64": (2, None), "double": (5, None), "utf8": (6, 0),
    "boolean": (0, None), "float": (4, None),
}


def plain(vals, ptype):
    if ptype == "int32":
        return b"".join(struct.pack("<i", v) for v in vals)
    if ptype == "int64":
        return b"".join(struct.pack("<q", v) for v in vals)
    if ptype == "double":
        return b"".join(struct.pack("<d", v) for v in vals)
    if ptype == "float":
        return b"".join(struct.pack("<f", v) for v in vals)
    if ptype == "boolean":
        # PLAIN booleans: bit-packed, LSB first, padded to a whole byte
        vs = [1 if v else 0 for v in vals]
        vs += [0] * (-len(vs) % 8)
        return _bitpack(vs, 1) if vs else b""
    if ptype == "utf8":
        out = bytearray()
        for v in vals:
            b = v.encode("utf-8")
            out += struct.pack("<I", len(b)) + b
        return bytes(out)
    raise ValueError(ptype)


# ---------------------------------------------------------------------------------------------
# pages, chunks, file
# ---------------------------------------------------------------------------------------------

def _thrift():
    from fastparquet import parquet_thrift
    return parquet_thrift


CODECS = {None: 0, "SNAPPY": 1, "GZIP": 2}       # parquet.thrift CompressionCodec


def compress(b, codec):
    """page (v1) / values (v2) compression; cramjam is trusted (hypothesis decompress(compress b) = b)"""
    if codec is None:
        return b
    import cramjam
    if codec == "SNAPPY":
        return bytes(cramjam.snappy.compress_raw(b))
    if codec == "GZIP":
        return bytes(cramjam.gzip.compress(b))
    raise ValueError(codec)


def page_stats(mode, de, max_def, d_nullel=None):
    """Optional Statistics of a data page header.  Readers must decode the same rows whatever it says:
    mode None      no statistics
         'all'     null_count = every entry without a value (null / empty collections and null elements; parquet-mr)
         'elems'   null_count = null ELEMENTS only (some writers)
         'zero'    null_count = 0 whatever the page holds"""
    if mode is None:
        return None
    pt = _thrift()
    if mode == "all":
        n = sum(1 for d in de if d != max_def)
    elif mode == "elems":
        n = sum(1 for d in de if d_nullel is not None and d == d_nullel and d != max_def)
    else:
        n = 0
    return pt.Statistics(null_count=n)


def data_page(rep, de, vals, max_rep, max_def, ptype, version, dictionary, level_style, num_rows, codec=None,
              legacy_dict=False, stats=None, is_compressed=None, d_nullel=None):
    """One data page (header bytes + payload) for the entries rep/de and their non-null values.
    dictionary: None (PLAIN) or list of distinct values (indices RLE_DICTIONARY)."""
    pt = _thrift()
    rw, dw = bit_width(max_rep), bit_width(max_def)
    if dictionary is None:
        enc = pt.Encoding.PLAIN
        vbytes = plain(vals, ptype)
    else:
        # PLAIN_DICTIONARY (2) is what parquet 1.0 writers put on dictionary-encoded data pages, RLE_DICTIONARY (8)
        # its 2.0 name; the payload is the same
        enc = pt.Encoding.PLAIN_DICTIONARY if legacy_dict else pt.Encoding.RLE_DICTIONARY
        iw = max(1, bit_width(len(dictionary) - 1))
        idx = [dictionary.index(v) for v in vals]
        vbytes = bytes([iw]) + hybrid(idx, iw, level_style if level_style != "rle" else "mixed")
    rl = hybrid(rep, rw, level_style) if max_rep else b""
    dl = hybrid(de, dw, level_style) if max_def else b""
    n = len(rep)
    if version == 1:
        payload = b""
        if max_rep:
            payload += struct.pack("<I", len(rl)) + rl
        if max_def:
            payload += struct.pack("<I", len(dl)) + dl
        payload += vbytes
        usize = len(payload)
        payload = compress(payload, codec)
        dph = pt.DataPageHeader(num_values=n, encoding=enc,
                                definition_level_encoding=pt.Encoding.RLE,
                                repetition_level_encoding=pt.Encoding.RLE,
                                statistics=page_stats(stats, de, max_def, d_nullel), i32=1)
        ph = pt.PageHeader(type=pt.PageType.DATA_PAGE, uncompressed_page_size=usize,
                           compressed_page_size=len(payload), data_page_header=dph, i32=1)
    else:
        # v2: the level streams are never compressed, only the values
        # DataPageHeaderV2.is_compressed: absent means true; false = the values of THIS page are stored
        # uncompressed although the chunk has a codec (pages of one chunk may differ)
        usize = len(rl) + len(dl) + len(vbytes)
        really = codec is not None and is_compressed is not False
        payload = rl + dl + (compress(vbytes, codec) if really else vbytes)
        nnull = sum(1 for d in de if d != max_def)
        dph = pt.DataPageHeaderV2(num_values=n, num_nulls=nnull, num_rows=num_rows, encoding=enc,
                                  definition_levels_byte_length=len(dl),
                                  repetition_levels_byte_length=len(rl),
                                  is_compressed=is_compressed, statistics=page_stats(stats, de, max_def, d_nullel), i32=1)
        ph = pt.PageHeader(type=pt.PageType.DATA_PAGE_V2, uncompressed_page_size=usize,
                           compressed_page_size=len(payload), data_page_header_v2=dph, i32=1)
    return bytes(ph.to_bytes()) + payload, usize + len(ph.to_bytes())


def dict_page(dictionary, ptype, codec=None, legacy_dict=False):
    pt = _thrift()
    payload = plain(dictionary, ptype)
    usize = len(payload)
    payload = compress(payload, codec)
    dph = pt.DictionaryPageHeader(num_values=len(dictionary),
                                  encoding=pt.Encoding.PLAIN_DICTIONARY if legacy_dict else pt.Encoding.PLAIN, i32=1)
    ph = pt.PageHeader(type=pt.PageType.DICTIONARY_PAGE, uncompressed_page_size=usize,
                       compressed_page_size=len(payload), dictionary_page_header=dph, i32=1)
    return bytes(ph.to_bytes()) + payload, usize + len(ph.to_bytes())


def split_at(seq, cuts):
    """seq cut at the (sorted, distinct, interior) positions `cuts`."""
    out, a = [], 0
    for c in list(cuts) + [len(seq)]:
        out.append(seq[a:c])
        a = c
    return out


def chunk_pages(rep, de, vals, max_def, cuts):
    """Entries cut at positions `cuts` -> list of (rep, de, vals, rows_starting_in_page)."""
    pages = []
    vi = 0
    a = 0
    for c in list(cuts) + [len(rep)]:
        r, d = rep[a:c], de[a:c]
        nv = sum(1 for x in d if x == max_def)
        pages.append((r, d, vals[vi:vi + nv], sum(1 for x in r if x == 0)))
        vi += nv
        a = c
    return pages


def leaf_columns(col):
    """col: dict(name, kind 'list'|'map', row_opt, elem_opt, ptype[, key_ptype]) ->
    list of leaf descriptions (path, row_opt, elem_opt, ptype, which) in file order."""
    if col["kind"] == "flat":
        # an ordinary REQUIRED primitive column next to the nested ones (no levels at all)
        return [dict(path=[col["name"]], row_opt=False, elem_opt=False, ptype=col["ptype"], which="flat")]
    # a column "s.NAME" with col["struct"] = {"name": "s", "opt": bool} is the LIST / MAP group NAME inside the struct group s
    sts = col_structs(col)
    top = [x["name"] for x in sts] + [col["name"].split(".", len(sts))[-1]] if sts else [col["name"]]
    so = ((bool(sts[0]["opt"]) if len(sts) == 1 else None) if sts else None)
    sopts = [bool(x["opt"]) or bool(x.get("rep")) for x in sts] if sts else None
    mrep = 1 + sum(1 for x in sts if x.get("rep")) + (1 if col.get("top_rep") else 0)
    if col["kind"] == "list" and col.get("legacy2"):
        # LogicalTypes.md, backward-compatibility rules: TWO-level list  <row_opt> group NAME (LIST) { repeated <type> element }
        # - the repeated field IS the element (never null); levels = those of the three-level shape with a required element
        assert not col["elem_opt"]
        return [dict(path=top + [col.get("elem_name", "element")], row_opt=col["row_opt"], elem_opt=False, ptype=col["ptype"],
                     which="elem", struct_opt=so, struct_opts=sopts, max_rep=mrep)]
    if col["kind"] == "list":
        # LogicalTypes.md: the middle group "list" and the leaf "element" are the recommended names; older writers
        # use others (bag/array_element, array/item) and readers must not depend on them
        return [dict(path=top + [col.get("group_name", "list"), col.get("elem_name", "element")], row_opt=col["row_opt"],
                     elem_opt=col["elem_opt"], ptype=col["ptype"], which="elem", struct_opt=so, struct_opts=sopts, max_rep=mrep)]
    g = col.get("group_name", "key_value")          # "map" in files of older writers
    return [dict(path=top + [g, "key"], row_opt=col["row_opt"], elem_opt=False,
                 ptype=col["key_ptype"], which="key", struct_opt=so, struct_opts=sopts, max_rep=mrep),
            dict(path=top + [g, "value"], row_opt=col["row_opt"],
                 elem_opt=col["elem_opt"], ptype=col["ptype"], which="value", struct_opt=so, struct_opts=sopts, max_rep=mrep)]


def leaf_rows(col, leaf, rows):
    """Project the rows of a column on one leaf: lists stay, maps (lists of (k, v) pairs) split."""
    if col["kind"] in ("list", "flat"):
        return rows
    k = 0 if leaf["which"] == "key" else 1
    return [r if (r is None or is_struct_null(r)) else [kv[k] for kv in r] for r in rows]


def schema_elements(cols):
    pt = _thrift()
    REQ, OPT, REP = (pt.FieldRepetitionType.REQUIRED, pt.FieldRepetitionType.OPTIONAL,
                     pt.FieldRepetitionType.REPEATED)
    out = [pt.SchemaElement(name="schema", num_children=len(cols), i32=1)]
    for c in cols:
        if c["kind"] == "flat":
            t, ct = PTYPES[c["ptype"]]
            out.append(pt.SchemaElement(name=c["name"], type=t, converted_type=ct, repetition_type=REQ, i32=1))
            continue
        top = OPT if c["row_opt"] else REQ
        if c.get("top_rep"):
            top = REP       # not a legal LIST/MAP (LogicalTypes.md); used by the refusal cases only
        gname = c["name"]
        sts = col_structs(c)
        for st in sts:
            out.append(pt.SchemaElement(name=st["name"], repetition_type=REP if st.get("rep") else (OPT if st["opt"] else REQ),
                                        num_children=1, i32=1,
                                        converted_type=({"LIST": pt.ConvertedType.LIST, "MAP": pt.ConvertedType.MAP}[st["annot"]]
                                                        if st.get("annot") else None)))
        if sts:
            gname = c["name"].split(".", len(sts))[-1]
        if c["kind"] == "list" and c.get("legacy2"):
            t, ct = PTYPES[c["ptype"]]
            out.append(pt.SchemaElement(name=gname, repetition_type=top, num_children=1,
                                        converted_type=pt.ConvertedType.LIST, i32=1))
            out.append(pt.SchemaElement(name=c.get("elem_name", "element"), type=t, converted_type=ct, repetition_type=REP, i32=1))
        elif c["kind"] == "list":
            t, ct = PTYPES[c["ptype"]]
            out.append(pt.SchemaElement(name=gname, repetition_type=top, num_children=1,
                                        converted_type=pt.ConvertedType.LIST, i32=1))
            out.append(pt.SchemaElement(name=c.get("group_name", "list"), repetition_type=REP, num_children=1, i32=1))
            out.append(pt.SchemaElement(name=c.get("elem_name", "element"), type=t, converted_type=ct,
                                        repetition_type=OPT if c["elem_opt"] else REQ, i32=1))
        else:
            out.append(pt.SchemaElement(name=gname, repetition_type=top, num_children=1,
                                        converted_type=pt.ConvertedType.MAP, i32=1))
            out.append(pt.SchemaElement(name=c.get("group_name", "key_value"), repetition_type=REP, num_children=2,
                                        converted_type=pt.ConvertedType.MAP_KEY_VALUE, i32=1))
            t, ct = PTYPES[c["key_ptype"]]
            out.append(pt.SchemaElement(name="key", type=t, converted_type=ct, repetition_type=REQ, i32=1))
            t, ct = PTYPES[c["ptype"]]
            out.append(pt.SchemaElement(name="value", type=t, converted_type=ct,
                                        repetition_type=OPT if c["elem_opt"] else REQ, i32=1))
    return out


def write_file(path, cols, row_groups):
    """cols: list of column dicts (see leaf_columns).
    row_groups: list of dicts {"rows": {colname: rows}, "layout": {"colname/which": dict(cuts=[..],
    version=1|2, dictionary=bool, level_style=...)}} (which = elem | key | value).
    Returns the list of level streams written: per row group, per leaf: dict(rep, de, vals, pages)."""
    pt = _thrift()
    from fastparquet.cencoding import ThriftObject
    written = []
    body = bytearray(b"PAR1")
    rgs = []
    total_rows = 0
    for rg in row_groups:
        chunks = []
        wrg = []
        nrows = None
        rg_start = len(body)
        for c in cols:
            rows = rg["rows"][c["name"]]
            nrows = len(rows) if nrows is None else nrows
            assert len(rows) == nrows
            for leaf in leaf_columns(c):
                lay = rg["layout"][c["name"] + "/" + leaf["which"]]
                lrows = leaf_rows(c, leaf, rows)
                if leaf["which"] == "flat":
                    max_rep, max_def = 0, 0
                    rep, de, vals = [0] * len(rows), [0] * len(rows), list(rows)
                else:
                    max_rep = leaf.get("max_rep", 1)
                    rep, de, vals = shred_leaf(lrows, leaf)
                    max_def = max_def_leaf(leaf)
                pages = chunk_pages(rep, de, vals, max_def, lay["cuts"])
                start = len(body)
                codec = lay.get("codec")
                usize_total = 0
                dictionary = None
                dict_off = None
                encs = [pt.Encoding.RLE, pt.Encoding.PLAIN]
                if lay["dictionary"]:
                    dictionary = []
                    for v in vals:
                        if v not in dictionary:
                            dictionary.append(v)
                    if lay.get("dict_extra"):
                        dictionary = dictionary + list(lay["dict_extra"])
                    if not dictionary:
                        dictionary = list(lay.get("dict_pad") or [_zero(leaf["ptype"])])
                    dict_off = start
                    pg, us = dict_page(dictionary, leaf["ptype"], codec, bool(lay.get("legacy_dict")))
                    body += pg
                    usize_total += us
                    encs = [pt.Encoding.RLE, pt.Encoding.PLAIN,
                            pt.Encoding.PLAIN_DICTIONARY if lay.get("legacy_dict") else pt.Encoding.RLE_DICTIONARY]
                data_off = len(body)
                flags = lay.get("is_compressed") or []
                pstats = lay.get("page_stats") or []
                dne = None
                if leaf["which"] != "flat" and leaf["elem_opt"]:
                    dne = max_def - 1
                # dictionary FALLBACK: from page `dict_fallback` on the chunk continues with PLAIN pages (what parquet-mr does when
                # the dictionary outgrows its size limit); the dictionary page stays, encodings lists both
                fb = lay.get("dict_fallback") if dictionary is not None else None
                for k, (r, d, v, nr) in enumerate(pages):
                    pg, us = data_page(r, d, v, max_rep, max_def, leaf["ptype"], lay["version"],
                                       (None if (fb is not None and k >= fb) else dictionary),
                                       lay.get("level_style", "mixed"), nr, codec, bool(lay.get("legacy_dict")),
                                       stats=(pstats[k] if k < len(pstats) else None),
                                       is_compressed=(flags[k] if k < len(flags) else None), d_nullel=dne)
                    body += pg
                    usize_total += us
                size = len(body) - start
                cstat = page_stats(lay.get("chunk_stats"), de, max_def, dne)
                cmd = ThriftObject.from_fields(
                    "ColumnMetaData", type=PTYPES[leaf["ptype"]][0], path_in_schema=list(leaf["path"]), statistics=cstat,
                    encodings=encs, codec=CODECS[codec], num_values=len(rep), data_page_offset=data_off,
                    dictionary_page_offset=dict_off, total_uncompressed_size=usize_total,
                    total_compressed_size=size, i32list=[1, 4])
                chunks.append(pt.ColumnChunk(file_offset=start, meta_data=cmd))
                wrg.append(dict(col=c["name"], which=leaf["which"], row_opt=leaf["row_opt"], struct_opt=leaf.get("struct_opt"), struct_opts=leaf.get("struct_opts"),
                                elem_opt=leaf["elem_opt"], max_def=max_def, rep=rep, de=de, vals=vals,
                                pages=[(r, d, v) for (r, d, v, _) in pages], version=lay["version"],
                                dictionary=bool(lay["dictionary"])))
        rgs.append(pt.RowGroup(columns=chunks, total_byte_size=len(body) - rg_start, num_rows=nrows))
        total_rows += nrows
        written.append(wrg)
    fmd = ThriftObject.from_fields("FileMetaData", version=1, schema=schema_elements(cols),
                                   num_rows=total_rows, row_groups=rgs,
                                   created_by="verif C15 spec-level nested writer", i32list=[1])
    foot = bytes(fmd.to_bytes())
    body += foot + struct.pack("<I", len(foot)) + b"PAR1"
    with open(path, "wb") as f:
        f.write(bytes(body))
    return written


def _zero(ptype):
    if ptype == "boolean":
        return False
    return "" if ptype == "utf8" else (0.0 if ptype in ("double", "float") else 0)
