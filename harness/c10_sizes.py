"""C10, wave 3: two size lattices.

stream "footer-parse"  (PARSE side): real files whose footer has EXACTLY F bytes, F on a lattice around 2**15, 2**16, 2**17
   (-9..+9: the 8-byte trailer on either side) and the small/large ends, with the data part padded so that the whole file is
   shorter than / equal to / longer than those windows, data files (verify on and off) and _metadata files.  Opened with
   fastparquet.ParquetFile; observed: the bytes handed to the thrift parser (api.from_buffer wrapped), _head_size, the
   parsed structure, the rows.  Model: Impl/ParseHeader.v `parse_header` (theorem: = the footer, every data prefix and
   footer length).
stream "struct-sizes"  (WRITE side): EVERY struct the serialiser knows (not only FileMetaData) with one binary/string
   payload - at the top level or nested - sized so that the whole serialisation has S-1, S, S+1 bytes for S on a lattice of
   powers of two and decimal round numbers below the documented 500000-byte buffer; to_bytes, parse back, pickle.
"""
import os
import struct

from harness import common as C


# ---------------------------------------------------------------------------------------------------------------------
# footer-parse
# ---------------------------------------------------------------------------------------------------------------------

def footer_lattice(quick):
    out = []
    for t in (2 ** 15, 2 ** 16, 2 ** 17):
        out += [t + d for d in range(-9, 10)]
    if not quick:
        for t in (2 ** 12, 2 ** 13, 2 ** 14, 2 ** 18, 100000, 10 ** 6):
            out += [t + d for d in (-9, -8, -7, -1, 0, 1, 7, 8, 9)]
    return out


def parse_jobs(rng, quick, scratch):
    jobs = []
    for i, F in enumerate(footer_lattice(quick)):
        # the whole file relative to the windows: no padding (file barely longer than its footer), file length exactly on /
        # next to a power of two, file much longer
        near = min((t for t in (2 ** 15, 2 ** 16, 2 ** 17, 2 ** 18, 2 ** 20) if t >= F + 200), default=F + 4096)
        gaps = [("none", None), ("file=2^k", near), ("file=2^k+1", near + 1), ("file=2^k-1", near - 1), ("long", F + 70000)]
        for gname, total in ([gaps[i % len(gaps)]] if quick else gaps):
            jobs.append({"kind": "data", "F": F, "gap": gname, "total": total, "verify": bool(rng.randrange(2)), "scratch": scratch})
        if i % (6 if quick else 2) == 0:
            jobs.append({"kind": "_metadata", "F": F, "gap": "none", "total": None, "verify": False, "scratch": scratch})
    # the small end: the writer's own footer, untouched and with 0..16 bytes of payload
    for k in ([0, 1, 7, 8, 9] if quick else range(0, 17)):
        jobs.append({"kind": "data", "F": ("base", k), "gap": "none", "total": None, "verify": True, "scratch": scratch})
    return jobs


_BASE = {}


def _base(scratch):
    if "b" not in _BASE:
        import numpy as np
        import pandas as pd
        from fastparquet import write
        p = os.path.join(scratch, "c10-base-%d.parquet" % os.getpid())
        df = pd.DataFrame({"x": np.arange(5, dtype="int64"), "s": ["a", "b", "c", "d", "e"]})
        write(p, df, custom_metadata={"note": "C10 footer-parse"})
        b = open(p, "rb").read()
        fs = int.from_bytes(b[-8:-4], "little")
        _BASE["b"] = (b[:len(b) - 8 - fs], b[len(b) - 8 - fs:-8], p)
    return _BASE["b"]


def make_footer(base_footer, F):
    """a FileMetaData serialisation of exactly F bytes: the base footer + one key-value entry ('p'*klen -> 'v'*n)"""
    from fastparquet.cencoding import from_buffer
    from fastparquet import parquet_thrift
    fmd = from_buffer(base_footer, "FileMetaData")
    kvs = list(fmd.key_value_metadata or [])

    def ser(n, klen):
        fmd.key_value_metadata = kvs + [parquet_thrift.KeyValue(key=b"p" * klen, value=b"v" * n)]
        return bytes(fmd.to_bytes())
    if isinstance(F, (tuple, list)):
        return ser(F[1], 3), F[1], 3
    for klen in (3, 4, 5):
        n = F - len(ser(0, klen))
        for _ in range(4):
            if n < 0:
                break
            b = ser(n, klen)
            if len(b) == F:
                return b, n, klen
            n += F - len(b)
    return None


def parse_job(job):
    """runs in a forked worker (fastparquet = shadow package)"""
    import fastparquet.api as api
    from fastparquet import ParquetFile
    head, base_footer, base_path = _base(job["scratch"])
    r = make_footer(base_footer, job["F"])
    if r is None:
        return {"skip": "no payload length gives a footer of %r bytes" % (job["F"],)}
    footer, n, klen = r
    tag = "%s-%s-%s-%d" % (job["kind"], job["F"], job["gap"], os.getpid())
    if job["kind"] == "data":
        gap = 0 if job["total"] is None else max(0, job["total"] - len(head) - len(footer) - 8)
        fileb = head + b"\0" * gap + footer + struct.pack("<I", len(footer)) + b"PAR1"
        path = os.path.join(job["scratch"], "c10-parse-%s.parquet" % tag.replace(" ", ""))
    else:
        fileb = b"PAR1" + footer + struct.pack("<I", len(footer)) + b"PAR1"
        d = os.path.join(job["scratch"], "c10-parse-%s" % tag.replace(" ", ""))
        os.makedirs(d, exist_ok=True)
        path = os.path.join(d, "_metadata")
    with open(path, "wb") as f:
        f.write(fileb)
    seen = []
    real = api.from_buffer

    def spy(data, *a, **k):
        seen.append(bytes(data))
        return real(data, *a, **k)
    api.from_buffer = spy
    pf, err = None, None
    try:
        try:
            pf = ParquetFile(path, verify=job["verify"])
        except Exception as e:      # noqa
            err = "%s: %s" % (type(e).__name__, str(e)[:200])
    finally:
        api.from_buffer = real
    out = {"path": path, "footer_len": len(footer), "file_len": len(fileb), "err": err, "pad": [klen, n],
           "handed": [len(seen[0]), C.sha(seen[0])[:20]] if seen else None, "footer_sha": C.sha(footer)[:20]}
    if pf is not None:
        problems = []
        exp = real(footer, "FileMetaData")
        if not (pf.fmd == exp):
            problems.append("the parsed FileMetaData is not the structure that was serialised")
        if pf._head_size != len(footer):
            problems.append("_head_size %r, the footer has %d bytes" % (pf._head_size, len(footer)))
        if pf.key_value_metadata.get("p" * klen) != "v" * n:
            problems.append("the key-value payload read back differs")
        if job["kind"] == "data":
            try:
                if not pf.to_pandas().equals(ParquetFile(base_path).to_pandas()):
                    problems.append("rows read back differ")
            except Exception as e:      # noqa
                problems.append("to_pandas raised %s: %s" % (type(e).__name__, str(e)[:200]))
        out["problems"] = problems
    return out


def stream_footer_parse(ctx, pq):
    rng = ctx.rng
    jobs = parse_jobs(rng, ctx.quick(), ctx.scratch)
    res = C.pmap(parse_job, jobs, init=C.use_shadow, nproc=8, job_timeout=120)
    for job, r in zip(jobs, res):
        case = {"stream": "footer-parse", "kind": job["kind"], "footer_bytes": job["F"], "file": job["gap"], "file_bytes": job["total"], "verify": job["verify"]}
        if isinstance(r, dict) and "skip" in r:
            ctx.count("footer-parse.skipped", 1)
            continue
        ctx.case(case)
        F = job["F"] if isinstance(job["F"], int) else "base+%d" % job["F"][1]
        ctx.count("footer-parse.kind/file", "%s/%s" % (job["kind"], job["gap"]))
        near = 0
        if isinstance(F, int):
            near = min((2 ** 15, 2 ** 16, 2 ** 17, 2 ** 12, 2 ** 13, 2 ** 14, 2 ** 18, 100000, 10 ** 6), key=lambda t: abs(t - F))
            ctx.count("footer-parse.footer_minus_boundary", F - near)
        cls = {"component": "_parse_header", "kind": "footer-not-parsed-back", "stream": "footer-parse", "file_kind": job["kind"]}
        if isinstance(r, dict) and "__crashed__" in r:
            ctx.fail(dict(cls, kind="crash-or-hang"), case, "opening the file: %s" % r["__crashed__"])
            continue
        case = dict(case, footer_len=r["footer_len"], file_len=r["file_len"], pad=r["pad"])
        # model: which bytes does the reader hand to the parser (the extracted model takes ~1.5 s per MB of file: in the quick
        # tier it runs on the files below 48 kB and on the lattice points 0, +-8 of the larger ones; the oracle runs on all)
        if (not ctx.quick()) or r["file_len"] < 48000 or (isinstance(F, int) and (F - near) in (-8, 0, 8) and r["file_len"] < 140000):
            fileb = open(r["path"], "rb").read()
            m = pq.call("parse_header", job["kind"] == "_metadata", job["verify"], fileb)
            mo = [len(bytes(m[0][0])), C.sha(bytes(m[0][0]))[:20], m[0][1]] if m else None
            io = (r["handed"] + [r["handed"][0]]) if r["handed"] else None
            ctx.correspondence("parse_header ~ the bytes ParquetFile._parse_header hands to the thrift parser", case, mo, io)
        try:
            os.unlink(r["path"])
        except OSError:
            pass
        if r["err"] or r.get("problems") or (r["handed"] and r["handed"][1] != r["footer_sha"]):
            ctx.fail(cls, case, "a well-formed file with a footer of %d bytes (file %d bytes) does not parse back: %s" % (
                r["footer_len"], r["file_len"], r["err"] or "; ".join(r.get("problems") or ["the parser was handed %r, not the footer" % (r["handed"],)])))


def replay_footer_parse(case):
    import shutil
    import tempfile
    C.use_shadow()
    tmp = tempfile.mkdtemp(prefix="verif-C10-replay-", dir="/tmp")
    try:
        F = case["footer_bytes"]
        job = {"kind": case["kind"], "F": tuple(F) if isinstance(F, list) else F, "gap": case["file"], "total": case["file_bytes"],
               "verify": case["verify"], "scratch": tmp}
        r = parse_job(job)
        print("footer of %s bytes in a %s file of %s bytes: error %r, problems %r, parser was handed %r (footer sha %s)" % (
            r.get("footer_len"), case["kind"], r.get("file_len"), r.get("err"), r.get("problems"), r.get("handed"), r.get("footer_sha")))
        bad = bool(r.get("err") or r.get("problems") or (r.get("handed") and r["handed"][1] != r["footer_sha"]))
        print("PROPERTY FAILS" if bad else "ok")
        return 1 if bad else 0
    finally:
        shutil.rmtree(tmp, ignore_errors=True)


# ---------------------------------------------------------------------------------------------------------------------
# struct-sizes
# ---------------------------------------------------------------------------------------------------------------------

def size_lattice(quick):
    base = [2 ** 10, 2 ** 12, 2 ** 13, 2 ** 14, 2 ** 16, 2 ** 18] if quick else \
        [2 ** k for k in range(8, 19)] + [1000, 10000, 100000, 250000, 400000]
    ds = (-1, 0, 1) if quick else (-2, -1, 0, 1, 2)
    return sorted({t + d for t in base for d in ds})


def uleb_len(n):
    k = 1
    while n >= 128:
        n >>= 7
        k += 1
    return k


def blob_tree(structs, specs, name, n, depth=0, seen=()):
    """a minimal IDL-typed tree of struct `name` (required fields + one payload of n bytes, here or below), or None"""
    if name in seen or depth > 3 or name not in structs:
        return None
    union, fl = structs[name]

    def minimal(t, d):
        if isinstance(t, tuple):
            if t[0] == "enum":
                return ("enum", 0)
            if t[0] == "struct":
                return min_struct(t[1], d + 1)
            if t[0] == "list":
                m = minimal(t[1], d + 1)
                return None if m is None else ("list", t[1], [m])
        return {"FBool": ("bool", True), "FI32": ("i32", 1), "FI64": ("i64", 1), "FBinary": ("bin", b"b"), "FString": ("str", b"s")}.get(t)

    def ok(fid, t):
        if fid > 13:
            return False
        if isinstance(t, tuple) and t[0] == "list":
            return t[1] not in ("FBool", "FBinary", "FI64", "FI8", "FI16", "FDouble")
        return t not in ("FI8", "FI16", "FDouble")

    def min_struct(nm, d):
        if d > 4 or nm not in structs or nm not in specs:
            return None
        u, l = structs[nm]
        if u:
            for fid, req, fn, t in l:
                if ok(fid, t):
                    m = minimal(t, d)
                    if m is not None:
                        return ("struct", nm, [(fid, fn, t, m)])
            return None
        out = []
        for fid, req, fn, t in l:
            if req == 1:
                if not ok(fid, t):
                    return None
                m = minimal(t, d)
                if m is None:
                    return None
                out.append((fid, fn, t, m))
        return ("struct", nm, out)

    base = min_struct(name, depth)
    if base is None:
        return None
    # where does the payload go
    for fid, req, fn, t in fl:
        if fid <= 13 and t in ("FString", "FBinary"):
            v = ("str", b"x" * n) if t == "FString" else ("bin", b"\xfe" * n)
            fields = [f for f in base[2] if f[0] != fid] if not union else []
            return ("struct", name, sorted(fields + [(fid, fn, t, v)], key=lambda f: f[0]))
    for fid, req, fn, t in fl:
        if fid > 13 or not isinstance(t, tuple):
            continue
        sub = t[1] if t[0] == "struct" else (t[1][1] if (t[0] == "list" and isinstance(t[1], tuple) and t[1][0] == "struct") else None)
        if sub is None or sub not in specs:
            continue
        inner = blob_tree(structs, specs, sub, n, depth + 1, seen + (name,))
        if inner is None:
            continue
        v = inner if t[0] == "struct" else ("list", t[1], [inner])
        fields = [f for f in base[2] if f[0] != fid] if not union else []
        return ("struct", name, sorted(fields + [(fid, fn, t, v)], key=lambda f: f[0]))
    return None
