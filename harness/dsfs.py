"""Shared helpers of the dataset-edit checks (C19, C18, C07, C09).

Recording / fault-injecting wrappers for the public `open_with` / `mkdirs` parameters of
fastparquet.write, an interpreter audit hook that sees every open-for-write / rename / remove /
truncate the process performs below a watched root (so that file changes that bypass the wrappers
are recorded too), directory snapshots, and the conversion of a recorded call trace into the
s-expression form the extracted Coq checker (`pqref safe_trace`, `fs_run`) reads.

No source hook inside fastparquet is needed (DESIGN 4.6).
"""
import errno
import hashlib
import os
import shutil
import sys
import threading

MD = "_metadata"
CMD = "_common_metadata"


class Fault(OSError):
    """The injected I/O failure."""

    def __init__(self, what):
        OSError.__init__(self, errno.EIO, "injected I/O failure: " + what)


_state = threading.local()
_hook_installed = False
_active = []          # stack of Recorder objects that want audit events


def _audit(event, args):
    if not _active:
        return
    try:
        rec = _active[-1]
        if getattr(_state, "inside", 0):
            return
        if event == "open":
            path, mode, flags = args[0], args[1], args[2]
            if not isinstance(path, (str, bytes)):
                return
            wr = (isinstance(flags, int) and flags & (os.O_WRONLY | os.O_RDWR | os.O_APPEND | os.O_CREAT | os.O_TRUNC)) or \
                 (isinstance(mode, str) and any(ch in mode for ch in "wa+x"))
            if wr:
                trunc = bool(isinstance(flags, int) and flags & os.O_TRUNC) or (isinstance(mode, str) and "w" in mode)
                rec.bypass("openw", os.fsdecode(path), trunc)
        elif event == "os.rename":
            rec.bypass("rename", os.fsdecode(args[0]), os.fsdecode(args[1]))
        elif event in ("os.remove", "os.rmdir"):
            rec.bypass("remove", os.fsdecode(args[0]))
        elif event == "os.truncate":
            if isinstance(args[0], (str, bytes)):
                rec.bypass("openw", os.fsdecode(args[0]), True)
        elif event == "shutil.rmtree":
            rec.bypass("remove", os.fsdecode(args[0]))
        elif event in ("shutil.move", "shutil.copyfile"):
            rec.bypass("rename" if event == "shutil.move" else "openw", os.fsdecode(args[0]), os.fsdecode(args[1]))
    except Exception:       # an audit hook must never raise into the audited code
        pass


def install_hook():
    global _hook_installed
    if not _hook_installed:
        sys.addaudithook(_audit)
        _hook_installed = True


class Recorder:
    """Records the file-changing calls made below `root`; optionally fails the k-th call.

    Calls counted for fault injection (the property's list): mkdir, open-for-write, write, close - in the
    order they are issued through the wrappers.  `fail_at` = k (1-based) or None;
    `variant`: 'pre' (raise before the call has any effect), 'post' (perform it, then raise),
    'short' (writes only: write the first half, then raise; other calls as 'pre').
    """

    def __init__(self, root, fail_at=None, variant="pre", keep_data=False, fail_read_at=None):
        self.root = os.path.abspath(root)
        self.fail_at = fail_at
        # READ side (wave 3): open-for-reading and read calls issued through the wrappers are counted separately
        # (rn / rkinds); fail_read_at = k fails the k-th of them (variant 'pre': before the call has an effect,
        # 'post': open succeeded / bytes were consumed, then the failure)
        self.fail_read_at = fail_read_at
        self.rn = 0
        self.rkinds = []
        self.variant = variant
        self.keep_data = keep_data
        self.trace = []         # model calls: tuples
        self.n = 0              # number of injectable calls issued so far
        self.kinds = []         # kind of each injectable call
        self.fired = None       # (k, kind, path) when the fault fired
        self.fired_at = None
        self.reads = []         # paths opened for reading through the wrapper
        self.bypassed = 0

    # -- paths -------------------------------------------------------------
    def rel(self, path):
        p = os.path.abspath(str(path))
        if p == self.root:
            return ""
        if p.startswith(self.root + os.sep):
            return p[len(self.root) + 1:].replace(os.sep, "/")
        return None

    def bypass(self, kind, *a):
        if kind == "rename":
            r1, r2 = self.rel(a[0]), self.rel(a[1])
            if r1 is None and r2 is None:
                return
            self.trace.append(("rename", r1 if r1 is not None else "../" + a[0], r2 if r2 is not None else "../" + a[1]))
        elif kind == "remove":
            r = self.rel(a[0])
            if r is None:
                return
            self.trace.append(("remove", r))
        else:
            r = self.rel(a[0])
            if r is None:
                return
            self.trace.append(("openw", r, bool(a[1]) if len(a) > 1 and isinstance(a[1], bool) else True))
            self.trace.append(("close", r))   # an unwrapped handle: its writes are not seen; it counts as closed
        self.bypassed += 1

    # -- fault injection ---------------------------------------------------
    def _tick(self, kind, path):
        """Count one injectable call; return the variant to apply if this is the failing one."""
        self.n += 1
        self.kinds.append(kind)
        if self.fail_at is not None and self.n == self.fail_at and self.fired is None:
            self.fired = (self.n, kind, path)
            self.fired_at = len(self.trace)       # number of recorded calls completed before the failing one
            return self.variant
        return None

    def _rtick(self, kind, path):
        """Count one read-side call; return the variant to apply if this is the failing one."""
        self.rn += 1
        self.rkinds.append(kind)
        if self.fail_read_at is not None and self.rn == self.fail_read_at and self.fired is None:
            self.fired = (self.rn, kind, path)
            self.fired_at = len(self.trace)
            return self.variant
        return None

    # -- the wrappers ------------------------------------------------------
    def open_with(self, path, mode="rb"):
        writing = any(ch in mode for ch in "wa+x")
        rel = self.rel(path)
        if not writing:
            relp = rel if rel is not None else str(path)
            v = self._rtick("ropen", relp)
            if v is not None and v != "post":
                raise Fault("open for reading %s" % relp)
            f = open(path, mode)
            self.reads.append(relp)
            if v == "post":
                f.close()
                raise Fault("open for reading %s (after opening it)" % relp)
            return _RHandle(self, f, relp)
        relp = rel if rel is not None else "../" + str(path)
        v = self._tick("open", relp)
        if v in ("pre", "short"):
            raise Fault("open %s" % relp)
        _state.inside = getattr(_state, "inside", 0) + 1
        try:
            f = open(path, mode)
        finally:
            _state.inside -= 1
        self.trace.append(("openw", relp, "w" in mode))
        if v == "post":
            f.close()
            self.trace.append(("close", relp))
            raise Fault("open %s (after creating/truncating it)" % relp)
        return _Handle(self, f, relp)

    def mkdirs(self, path):
        rel = self.rel(path)
        relp = rel if rel is not None else "../" + str(path)
        v = self._tick("mkdir", relp)
        if v in ("pre", "short"):
            raise Fault("mkdir %s" % relp)
        os.makedirs(path, exist_ok=True)
        self.trace.append(("mkdir", relp))
        if v == "post":
            raise Fault("mkdir %s (after making it)" % relp)

    def __enter__(self):
        install_hook()
        _active.append(self)
        return self

    def __exit__(self, *a):
        _active.remove(self)


def rec_fs(rec):
    """an fsspec file system object (local) whose open() goes through the recorder's wrapper: `open_with=fs.open` then gives the
    ParquetFile a `.fs` (as pandas / dask do), so that code paths that list, remove or rename through the file system object run;
    what they remove / rename is seen by the audit hook"""
    from fsspec.implementations.local import LocalFileSystem

    class RecFS(LocalFileSystem):
        def open(self, path, mode="rb", **kw):
            return rec.open_with(self._strip_protocol(path), mode)

    return RecFS(skip_instance_cache=True)


class _Handle:
    def __init__(self, rec, f, relp):
        self._rec, self._f, self._p = rec, f, relp

    def write(self, b):
        rec = self._rec
        v = rec._tick("write", self._p)
        b = bytes(b)
        if v == "pre":
            raise Fault("write %s" % self._p)
        if v == "short":
            half = b[:len(b) // 2]
            self._f.write(half)
            rec.trace.append(("write", self._p, half if rec.keep_data else b""))
            raise Fault("short write %s (%d of %d bytes)" % (self._p, len(half), len(b)))
        n = self._f.write(b)
        rec.trace.append(("write", self._p, b if rec.keep_data else b""))
        if v == "post":
            raise Fault("write %s (after writing)" % self._p)
        return n

    def read(self, *a):
        # a handle opened 'rb+' (single-file append) reads the old footer through the same handle
        v = self._rec._rtick("read", self._p)
        if v is not None and v != "post":
            raise Fault("read %s" % self._p)
        b = self._f.read(*a)
        if v == "post":
            raise Fault("read %s (after consuming %d bytes)" % (self._p, len(b)))
        return b

    def close(self):
        rec = self._rec
        v = rec._tick("close", self._p)
        # a failing close: the handle is released either way (the data written so far reaches the file)
        self._f.close()
        rec.trace.append(("close", self._p))
        if v is not None:
            raise Fault("close %s" % self._p)

    def __enter__(self):
        return self

    def __exit__(self, *a):
        self.close()

    def __getattr__(self, name):
        return getattr(self._f, name)


class _RHandle:
    """a file opened for reading through the wrapper: its read calls are counted (and can be made to fail)"""

    def __init__(self, rec, f, relp):
        self._rec, self._f, self._p = rec, f, relp

    def read(self, *a):
        v = self._rec._rtick("read", self._p)
        if v is not None and v != "post":
            raise Fault("read %s" % self._p)
        b = self._f.read(*a)
        if v == "post":
            raise Fault("read %s (after consuming %d bytes)" % (self._p, len(b)))
        return b

    def __enter__(self):
        return self

    def __exit__(self, *a):
        self._f.close()

    def __iter__(self):
        return iter(self._f)

    @property
    def size(self):
        # (fsspec file objects have it; fastparquet reads footers of listed files through it)
        return os.fstat(self._f.fileno()).st_size

    def __getattr__(self, name):
        return getattr(self._f, name)


# ---------------------------------------------------------------------------
def guarded(fn, timeout=30.0):
    """Run fn() in a forked child and return ("ok", result) | ("exc", text) | ("hang", text) | ("died", text).

    fastparquet's native readers can spin forever (or crash) on torn files; signals do not interrupt native
    loops, so everything that reads a possibly damaged dataset runs in a child that can be killed."""
    import pickle
    import select
    import signal
    import time
    r, w = os.pipe()
    pid = os.fork()
    if pid == 0:
        try:
            os.close(r)
            try:
                out = ("ok", fn())
            except BaseException as e:       # noqa
                out = ("exc", "%s: %s" % (type(e).__name__, str(e)[:200]))
            with os.fdopen(w, "wb") as f:
                pickle.dump(out, f)
        finally:
            os._exit(0)
    os.close(w)
    buf = []
    deadline = time.time() + timeout
    hung = False
    while True:
        left = deadline - time.time()
        if left <= 0:
            hung = True
            break
        rd, _, _ = select.select([r], [], [], left)
        if rd:
            b = os.read(r, 1 << 20)
            if not b:
                break
            buf.append(b)
    os.close(r)
    if hung:
        try:
            os.kill(pid, signal.SIGKILL)
        except OSError:
            pass
    _, status = os.waitpid(pid, 0)
    if hung:
        return ("hang", "no answer within %.0f s (killed)" % timeout)
    try:
        return pickle.loads(b"".join(buf))
    except Exception:
        return ("died", "reader process ended with status %d without an answer" % status)


def snapshot(root):
    """{relative path: bytes} of every regular file below root."""
    out = {}
    for dp, _, fs in os.walk(root):
        for f in fs:
            p = os.path.join(dp, f)
            out[os.path.relpath(p, root).replace(os.sep, "/")] = open(p, "rb").read()
    return out


def hashes(snap):
    return {k: [len(v), hashlib.sha256(v).hexdigest()[:16]] for k, v in snap.items()}


def restore(src, dst):
    shutil.rmtree(dst, ignore_errors=True)
    shutil.copytree(src, dst)


def sx_trace(trace):
    """recorded trace -> argument for the pqref commands (paths and data as byte strings)."""
    out = []
    for c in trace:
        k = c[0]
        if k in ("mkdir", "close", "remove"):
            out.append([k, c[1].encode()])
        elif k == "openw":
            out.append([k, c[1].encode(), 1 if c[2] else 0])
        elif k == "write":
            out.append([k, c[1].encode(), bytes(c[2])])
        elif k == "rename":
            out.append([k, c[1].encode(), c[2].encode()])
        else:
            raise ValueError(c)
    return out


def trace_json(trace, lim=400):
    """compact, data-free form of a trace for replays/evidence."""
    out = []
    for c in trace[:lim]:
        if c[0] == "write":
            out.append(["write", c[1], len(c[2])])
        else:
            out.append(list(c))
    return out


def md_open_index(trace):
    """index of the COMMIT POINT of a trace: the first call that can change _metadata - a write-open of it, a rename onto it (or of
    it), its removal (Dataset/CrashGen.v touches_md) - or None."""
    for i, c in enumerate(trace):
        if c[0] == "openw" and c[1] == MD:
            return i
        if c[0] == "rename" and MD in (c[1], c[2]):
            return i
        if c[0] == "remove" and c[1] in (MD, ""):
            return i
    return None


def summaryish(p):
    """_metadata, _common_metadata, or a temporary file they are written through (a root-level name holding '_metadata')"""
    return isinstance(p, str) and "/" not in p and "_metadata" in p


def refs_of(pf):
    """relative paths referenced by a ParquetFile's row groups, in row-group order."""
    return [rg.columns[0].file_path for rg in pf.row_groups]


def values(df):
    """canonical value view of a frame: column -> list of plain values (NaN/NaT/None -> None), column order kept."""
    import pandas as pd
    out = []
    for c in df.columns:
        col = []
        for v in df[c].astype(object).tolist():
            try:
                if v is None or v is pd.NaT or (isinstance(v, float) and v != v) or v is pd.NA:
                    v = None
            except Exception:
                pass
            if v is not None and not isinstance(v, (int, str, bool, bytes)):
                v = repr(v)
            elif isinstance(v, bytes):
                v = "b:" + v.hex()
            col.append(v)
        out.append([str(c), col])
    return out


def cat_values(a, b):
    """row-wise concatenation of two canonical value views (same columns, same order)."""
    if [c for c, _ in a] != [c for c, _ in b]:
        raise ValueError("column sets differ: %r vs %r" % ([c for c, _ in a], [c for c, _ in b]))
    return [[c, va + vb] for (c, va), (_, vb) in zip(a, b)]


# ---------------------------------------------------------------------------
def coqchk_start(coq_dir, name):
    """thorough tier: start `coqchk -o` on coq/props/<name>.vo (kernel re-check of the compiled theorems and everything they
    depend on, with the list of axioms); returns the process, collect with coqchk_finish."""
    import subprocess
    return subprocess.Popen(["coqchk", "-silent", "-o", "-Q", os.path.join(coq_dir, "theories"), "Pq", "-Q", os.path.join(coq_dir, "props"), "", name],
                            stdout=subprocess.PIPE, stderr=subprocess.STDOUT, cwd=os.path.join(coq_dir, "props"))


def coqchk_finish(ctx, proc, name, timeout=1500):
    import subprocess
    try:
        out = proc.communicate(timeout=timeout)[0].decode(errors="replace")
    except subprocess.TimeoutExpired:
        proc.kill()
        ctx.obligation("coqchk -o props/%s.vo" % name, False, "timeout")
        return
    ok = proc.returncode == 0 and "* Axioms: <none>" in out and "type-in-type: <none>" in out
    ctx.obligation("coqchk -o props/%s.vo: re-checked by the stand-alone kernel, no axioms" % name, ok, out[-600:] if not ok else "")


# ---------------------------------------------------------------------------
def partnames_translator(ctx):
    """translators/partnames2coq.py: regenerate Gallina from writer.find_max_part, the part-name computation of writer.write_multi,
    util.join_path, util.path_string and api.PART_ID and re-prove coq/genproofs/GenPartNamesProofs.v over the generated text (tie of
    the hand models of Dataset/FsPaths.v to the code as it is now).  A construct outside the translator's fragment, or generated
    text coqc rejects, is recorded as translator_fallback (the hand model + function-against-function correspondence remain)."""
    import sys
    from harness import common as C
    sys.path.insert(0, C.VERIF)
    from translators import partnames2coq
    r = partnames2coq.run(C.REPO, ctx.gen_dir)
    ctx.extra["translator"] = {"GenPartNames": {k: v for k, v in r.items() if k not in ("file", "text")}}
    if r["status"] != "translated":
        ctx.notes.append("translator_fallback: GenPartNames: %s" % r["reason"])
        return False
    ok, out = C.coqc(r["file"], extra_q=[(ctx.gen_dir, "PqGen")])
    if not ok:
        ctx.notes.append("translator_fallback: GenPartNames: generated file rejected by coqc: %s" % out[-300:])
        ctx.extra["translator"]["GenPartNames"]["status"] = "translator_fallback"
        return False
    ctx.coq_file(os.path.join(C.COQ, "genproofs", "GenPartNamesProofs.v"), extra_q=[(ctx.gen_dir, "PqGen")])
    return True
