"""Glue of the C17 check: Python dtype-ish values <-> the model's dtype universe (Impl/Dtypes.v `dt`), schema
elements / pandas-metadata entries / row-group statistics as pqref arguments.  Import after C.use_shadow()."""
import numpy as np

UNITS = ("s", "ms", "us", "ns")


def dt_of(x):
    """np.dtype / pandas extension dtype / dtype text / np.float64() -> tuple form of the model's `dt`;
    ("other", text) for anything outside the model's universe."""
    import pandas as pd
    from pandas.core.arrays.masked import BaseMaskedDtype
    if isinstance(x, str) and x == "category":
        return ("cat",)
    if isinstance(x, pd.CategoricalDtype):
        return ("cat",)
    try:
        d = pd.api.types.pandas_dtype(x)
    except Exception:       # noqa
        return ("other", repr(x))
    if isinstance(d, pd.CategoricalDtype):
        return ("cat",)
    if isinstance(d, pd.DatetimeTZDtype):
        return ("M8", d.unit, True) if d.unit in UNITS else ("other", str(d))
    if isinstance(d, BaseMaskedDtype):
        if isinstance(d, pd.BooleanDtype):
            return ("nbool",)
        if d.kind in "iu":
            return ("nint", d.kind == "i", d.itemsize * 8)
        return ("other", str(d))
    if not isinstance(d, np.dtype):
        return ("other", str(d))
    k = d.kind
    if k in "iu":
        return ("int", k == "i", d.itemsize * 8)
    if k == "b":
        return ("bool",)
    if k == "f":
        return ("float", d.itemsize * 8)
    if k == "O":
        return ("obj",)
    if k == "S":
        return ("S", d.itemsize)
    if k in "Mm":
        u = np.datetime_data(d)[0]
        if u not in UNITS:
            return ("other", str(d))
        return ("M8", u, False) if k == "M" else ("m8", u)
    return ("other", str(d))


def dt_sx(t):
    """tuple form -> value for C.sx (symbols as str)"""
    return [t[0]] + [x if not isinstance(x, str) else x for x in t[1:]]


def dt_from_sx(v):
    """parsed pqref output (symbols come back as bytes) -> tuple form"""
    out = []
    for x in v:
        if isinstance(x, bytes):
            out.append(x.decode())
        else:
            out.append(x)
    t = tuple(out)
    if t[0] in ("int", "nint"):
        return (t[0], bool(t[1]), t[2])
    if t[0] == "M8":
        return ("M8", t[1], bool(t[2]))
    return t


def res_from_sx(v):
    if v and v[0] == b"ok":
        return ("ok", dt_from_sx(v[1]))
    if v and v[0] == b"err":
        return ("err",)
    return ("model-error", repr(v))


def dt_coq(t):
    b = lambda x: "true" if x else "false"
    u = lambda s: "U" + s
    k = t[0]
    if k == "int":
        return "DInt %s %d" % (b(t[1]), t[2])
    if k == "nint":
        return "DNInt %s %d" % (b(t[1]), t[2])
    if k == "bool":
        return "DBool"
    if k == "nbool":
        return "DNBool"
    if k == "float":
        return "DFloat %d" % t[1]
    if k == "obj":
        return "DObj"
    if k == "S":
        return "DS %d" % t[1]
    if k == "M8":
        return "DM8 %s %s" % (u(t[1]), b(t[2]))
    if k == "m8":
        return "Dm8 %s" % u(t[1])
    if k == "cat":
        return "DCat"
    raise ValueError("dtype outside the model's universe: %r" % (t,))


def se_args(se):
    """schema element -> (type conv? ts? len group)"""
    ts = None
    lt = se.logicalType
    if lt is not None and lt.TIMESTAMP is not None:
        un = lt.TIMESTAMP.unit
        ts = "ns" if getattr(un, "NANOS", None) is not None else ("us" if getattr(un, "MICROS", None) is not None else (
            "ms" if getattr(un, "MILLIS", None) is not None else "?"))
    return [0 if se.type is None else se.type, [] if se.converted_type is None else [se.converted_type], [] if ts is None else [ts],
            se.type_length or 0, se.num_children not in (None, 0)]


def md_args(entry):
    """pandas-metadata column entry (dict) or None/{} -> () | ((numpy pandas tz))"""
    if not entry:
        return []
    meta = entry.get("metadata") or {}
    return [[str(entry.get("numpy_type", "")).encode(), str(entry.get("pandas_type", "")).encode(), bool(meta.get("timezone"))]]


def rgs_args(pf):
    """row groups -> ((rows (chunk ...)) ...) with chunk = None | [None] | [[n]]  (file order of the chunks)"""
    out = []
    for rg in pf.row_groups:
        chunks = []
        for col in rg.columns:
            st = col.meta_data.statistics
            if st is None:
                chunks.append(None)
            elif st.null_count is None:
                chunks.append([None])
            else:
                chunks.append([[int(st.null_count)]])
        out.append([int(rg.num_rows), chunks])
    return out
