"""C01 value tie: writer.find_type + writer.convert (pandas cell -> physical value) against Impl/WConvert.v, and the oracle on the
real code: converted_types.convert on what the writer produced gives back the cell (same instant / duration / integer, NaT stays missing).
Call after common.use_shadow()."""
NAT = -(1 << 63)
UNITS = ["s", "ms", "us", "ns"]
NS_PER = {"s": 10**9, "ms": 10**6, "us": 10**3, "ns": 1}
M64 = (1 << 64) - 1


def time_values(rng, unit, int96=False, n_random=12):
    lim = (1 << 63) - 1
    if unit == "s" and not int96:
        lim = lim // 1000                 # beyond: the multiplication wraps (C01_datetime_seconds_overflow_refuted); pandas refuses such frames
    if int96:
        lim = lim // NS_PER[unit]
    vs = [0, 1, -1, 999, 1000, -1000, -1001, 86399, 86400, -86400, 1600000000, lim, -lim, lim - 1, NAT]
    vs += [rng.randrange(-lim, lim + 1) for _ in range(n_random)]
    return [v for v in vs if v == NAT or abs(v) <= lim]


def run(ctx, pq):
    import numpy as np
    import pandas as pd
    from fastparquet import writer, converted_types, parquet_thrift
    rng = ctx.rng
    cmds, meta = [], []
    # ---- datetime64[u], both `times` modes ----
    for ui, u in enumerate(UNITS):
        for times in ("int64", "int96"):
            vals = time_values(rng, u, int96=(times == "int96"))
            s = pd.Series(np.array(vals, dtype="int64").view("M8[%s]" % u), name="t")
            se, _ = writer.find_type(s, times=times)
            out = writer.convert(s, se)
            if times == "int96":
                impl = [(int(r["ns"]) & M64) | ((int(r["day"]) & 0xffffffff) << 64) for r in out]
            else:
                impl = [int(x) & M64 for x in np.asarray(out).view("int64")]
                want_conv = {"s": 9, "ms": 9, "us": 10, "ns": None}[u]
                if se.converted_type != want_conv or se.type != parquet_thrift.Type.INT64:
                    ctx.fail({"component": "find_type", "dtype": "datetime64[%s]" % u}, {"w_convert": "datetime", "unit": u},
                             "datetime64[%s] is declared as type %r converted_type %r" % (u, se.type, se.converted_type))
            back = converted_types.convert(np.array(out), se)
            back_ns = [None if int(b) == NAT else int(b) * NS_PER[np.datetime_data(back.dtype)[0]] for b in back.view("int64")]
            for v, im, bk in zip(vals, impl, back_ns):
                cmds.append(("w_convert", 0 if times == "int64" else 2, ui, v))
                meta.append(({"w_convert": "datetime64[%s]" % u, "times": times, "value": v}, im,
                             (None if v == NAT else v * NS_PER[u]), bk))
    # ---- timedelta64[u] ----
    for ui, u in enumerate(UNITS):
        lim = ((1 << 63) - 1) // {"s": 10**6, "ms": 10**3, "us": 1, "ns": 1}[u]
        vals = [0, 1, -1, 999, 1000, -1000, -1001, -999, 5000, lim, -lim, NAT] + [rng.randrange(-lim, lim + 1) for _ in range(10)]
        s = pd.Series(np.array(vals, dtype="int64").view("m8[%s]" % u), name="d")
        se, _ = writer.find_type(s)
        out = writer.convert(s, se)
        impl = [int(x) & M64 for x in np.asarray(out).view("int64")]
        back = converted_types.convert(np.array(out), se)
        bu = np.datetime_data(back.dtype)[0]
        back_us = [None if int(b) == NAT else int(b) * NS_PER[bu] // 1000 for b in back.view("int64")]
        for v, im, bk in zip(vals, impl, back_us):
            cmds.append(("w_convert", 1, ui, v))
            exp = None if v == NAT else (v // 1000 if u == "ns" else v * {"s": 10**6, "ms": 10**3, "us": 1}[u])
            meta.append(({"w_convert": "timedelta64[%s]" % u, "value": v}, im, exp, bk))
    # ---- integers ----
    for w in (8, 16, 32, 64):
        for signed in (True, False):
            info = np.iinfo("%sint%d" % ("" if signed else "u", w))
            vals = sorted(set([info.min, info.max, 0, 1, info.max - 1, info.min + 1, info.max // 2] + [rng.randint(info.min, info.max) for _ in range(6)]))
            s = pd.Series(np.array(vals, dtype=info.dtype), name="i")
            se, _ = writer.find_type(s)
            out = np.asarray(writer.convert(s, se))
            pw = out.dtype.itemsize * 8
            impl = [int(x) & ((1 << pw) - 1) for x in out.tolist()]
            back = converted_types.convert(out.copy(), se)
            for v, im, bk in zip(vals, impl, back.tolist()):
                cmds.append(("w_convert", 3, w, v))
                meta.append(({"w_convert": "%sint%d" % ("" if signed else "u", w), "value": v}, im, v, int(bk)))
    outs = pq.batch(cmds)
    for (case, impl, want, back), mo in zip(meta, outs):
        ctx.case(case)
        ctx.count("w_convert", case["w_convert"])
        ctx.correspondence("Impl/WConvert (w_datetime / w_int96 / w_timedelta / w_int) ~ writer.convert on the schema element find_type chose (bit pattern)",
                           case, mo, impl)
        if back != want:
            ctx.fail({"component": "convert", "dtype": case["w_convert"], "nat": case["value"] == NAT}, case,
                     "cell %r is stored as %#x and read back by converted_types.convert as %r (expected %r)" % (case["value"], impl, back, want))


def replay(case):
    """re-execute one cell on the real code"""
    import numpy as np
    import pandas as pd
    from fastparquet import writer, converted_types
    d, v = case["w_convert"], case["value"]
    if d.startswith("datetime64") or d.startswith("timedelta64"):
        u = d.split("[")[1][:-1]
        s = pd.Series(np.array([v], dtype="int64").view(("M8[%s]" if d.startswith("date") else "m8[%s]") % u), name="t")
        se, _ = writer.find_type(s, times=case.get("times", "int64"))
    else:
        s = pd.Series(np.array([v], dtype=d), name="i")
        se, _ = writer.find_type(s)
    out = writer.convert(s, se)
    back = converted_types.convert(np.array(out), se)
    print("cell", s.iloc[0], "stored", out, "read back", back, back.dtype)
    a, b = s.values, np.asarray(back)
    same = bool((pd.isna(a) & pd.isna(b)).all() or (a.astype(b.dtype) == b).all()) if a.dtype.kind in "mM" else bool((a == b).all())
    return 0 if same else 1
