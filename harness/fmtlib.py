"""Python side of the file-format spec model (coq/theories/Format/*, pqref commands fmt_*):
two-phase (de)compression protocol with cramjam (trusted base), validation / decoding of files through
pqref, and the glue that maps a pandas column to the physical cells the file must hold.
Shared by C02 and C03."""
import json

import cramjam
import numpy as np

# parquet.thrift CompressionCodec id -> (compress, decompress(data, usize)); cramjam called directly,
# independently of fastparquet.compression
CODECS = {
    1: (lambda b: bytes(cramjam.snappy.compress_raw(b)), lambda b, n: bytes(cramjam.snappy.decompress_raw(b))),
    2: (lambda b: bytes(cramjam.gzip.compress(b)), lambda b, n: bytes(cramjam.gzip.decompress(b))),
    4: (lambda b: bytes(cramjam.brotli.compress(b)), lambda b, n: bytes(cramjam.brotli.decompress(b))),
    5: (lambda b: bytes(cramjam.lz4.compress_block(b, store_size=False)),
        lambda b, n: bytes(cramjam.lz4.decompress_block(b, output_len=n))),
    6: (lambda b: bytes(cramjam.zstd.compress(b)), lambda b, n: bytes(cramjam.zstd.decompress(b))),
    7: (lambda b: bytes(cramjam.lz4.compress_block(b, store_size=False)),
        lambda b, n: bytes(cramjam.lz4.decompress_block(b, output_len=n))),
}
CODEC_NAMES = {0: "UNCOMPRESSED", 1: "SNAPPY", 2: "GZIP", 3: "LZO", 4: "BROTLI", 5: "LZ4", 6: "ZSTD", 7: "LZ4_RAW"}


def _tv_py(v):
    """generic thrift value tree printed by pqref -> Python: struct -> {id: value}, list -> [..], scalars"""
    tag = v[0]
    if tag == b"r":
        return {i: _tv_py(x) for i, x in v[1]}
    if tag == b"l":
        return [_tv_py(x) for x in v[2]]
    if tag == b"b":
        return bool(v[1])
    return v[1]


LOGICAL_MEMBERS = {1: "STRING", 2: "MAP", 3: "LIST", 4: "ENUM", 5: "DECIMAL", 6: "DATE", 7: "TIME", 8: "TIMESTAMP", 10: "INTEGER",
                   11: "UNKNOWN", 12: "JSON", 13: "BSON", 14: "UUID"}
UNITS = {1: "MILLIS", 2: "MICROS", 3: "NANOS"}


def logical_dict(tree):
    """LogicalType union -> {"kind": name, + the member's fields by name}"""
    d = _tv_py(tree)
    if not isinstance(d, dict) or len(d) != 1:
        return {"kind": "malformed", "raw": repr(d)[:80]}
    (mid, body), = d.items()
    out = {"kind": LOGICAL_MEMBERS.get(mid, "member-%s" % mid)}
    if out["kind"] in ("TIME", "TIMESTAMP") and isinstance(body, dict):
        out["utc"] = body.get(1)
        u = body.get(2)
        out["unit"] = UNITS.get(next(iter(u)), "?") if isinstance(u, dict) and len(u) == 1 else None
    elif out["kind"] == "INTEGER" and isinstance(body, dict):
        out["bits"], out["signed"] = body.get(1), body.get(2)
    elif out["kind"] == "DECIMAL" and isinstance(body, dict):
        out["scale"], out["precision"] = body.get(1), body.get(2)
    return out


def _txt(x):
    return x.decode("utf-8", "replace") if isinstance(x, (bytes, bytearray)) else str(x)


def phase1_cmd(data):
    return ("fmt_pages", data)


def build_table(data, pages_out, stats=None):
    """pages_out = parsed answer of fmt_pages.  -> (table [(compressed, uncompressed)], error or None)."""
    if pages_out[0] != b"ok":
        return [], None       # the validator will report the same problem
    tbl, seen = [], set()
    for codec, usize, off, ln in pages_out[1]:
        comp = data[off:off + ln]
        if (codec, comp) in seen:
            continue
        seen.add((codec, comp))
        if codec not in CODECS:
            return tbl, "codec %s not available" % CODEC_NAMES.get(codec, codec)
        try:
            raw = CODECS[codec][1](comp, usize)
        except Exception as e:   # noqa: a payload cramjam cannot decompress: leave it out, pqref reports it
            if stats is not None:
                stats["decompress_errors"] = stats.get("decompress_errors", 0) + 1
            continue
        # the section hypothesis decompress (compress b) = b, checked on the payloads used
        if stats is not None:
            stats["payloads"] = stats.get("payloads", 0) + 1
        tbl.append((bytes([codec]) + comp, raw))
    return tbl, None


class Fmt:
    """validate / decode files through one pqref process"""

    def __init__(self, pq):
        self.pq = pq
        self.stats = {}

    def table(self, data):
        out = self.pq.call("fmt_pages", data)
        return build_table(data, out, self.stats)

    def validate(self, data, strict=True, tbl=None):
        if tbl is None:
            tbl, e = self.table(data)
            if e:
                return ("uns", e)
        r = self.pq.call("fmt_validate", 1 if strict else 0, data, [list(p) for p in tbl])
        return (_txt(r[0]),) + tuple(_txt(x) for x in r[1:])

    def decode(self, data, strict=True, tbl=None):
        """-> ('ok', leaves, rgs) | ('bad'|'uns', why); leaves = [dict(name,type,tlen,maxdef,conv)],
        rgs = [[cells per column] per row group]; cell = None | int | bytes"""
        if tbl is None:
            tbl, e = self.table(data)
            if e:
                return ("uns", e)
        r = self.pq.call("fmt_decode", 1 if strict else 0, data, [list(p) for p in tbl])
        if r[0] != b"ok":
            return (_txt(r[0]), _txt(r[1]))
        leaves = [{"name": l[0].decode("utf-8", "replace"), "type": l[1], "tlen": l[2], "maxdef": l[3],
                   "conv": (l[4][0] if l[4] else None), "logical": (tuple(l[5]) if l[5] else None),
                   "scale": (l[6][0] if len(l) > 6 and l[6] else None), "precision": (l[7][0] if len(l) > 7 and l[7] else None),
                   "logical_tree": (logical_dict(l[8][0]) if len(l) > 8 and l[8] else None)} for l in r[1]]
        rgs = [[[(None if c == [] else c) for c in col] for col in rg] for rg in r[2]]
        return ("ok", leaves, rgs)

    def check(self, data):
        """strict validation + decode; falls back to lenient (final bit-packed group cut short).
        -> dict(verdict, why, lenient, leaves, rgs)"""
        tbl, e = self.table(data)
        if e:
            return {"verdict": "uns", "why": e, "lenient": False}
        v = self.validate(data, True, tbl)
        lenient = False
        if v[0] == "bad":
            v2 = self.validate(data, False, tbl)
            if v2[0] == "ok":
                lenient, v = True, v2
            elif v2[0] == "bad" and v2[1:] != v[1:]:
                v = ("bad", "%s (lenient run-length reading: %s)" % (v[1], v2[1]))
        out = {"verdict": v[0], "why": v[1] if len(v) > 1 else None, "lenient": lenient}
        if v[0] == "ok":
            d = self.decode(data, not lenient, tbl)
            if d[0] == "ok":
                out["leaves"], out["rgs"] = d[1], d[2]
            else:
                out["verdict"], out["why"] = d[0], "decode after validate: " + d[1]
        return out


def columns_of(leaves, rgs):
    """concatenate the row groups: -> {name: [cells]}"""
    cols = {l["name"]: [] for l in leaves}
    for rg in rgs:
        for l, cells in zip(leaves, rg):
            cols[l["name"]].extend(cells)
    return cols


# ---------------------------------------------------------------------------------------------
# glue: the physical cells a written column must hold (trusted base of C02)

M32, M64 = (1 << 32) - 1, (1 << 64) - 1
NS_PER_DAY = 24 * 3600 * 10**9
NAT = -(1 << 63)


def _f_bits(v, width):
    a = np.array([v], dtype="float32" if width == 32 else "float64")
    return int(a.view("uint32" if width == 32 else "uint64")[0])


def _is_nan_bits(c, t):
    if not isinstance(c, int):
        return False
    if t == 4:
        return (c & 0x7f800000) == 0x7f800000 and (c & 0x007fffff) != 0
    return (c & 0x7ff0000000000000) == 0x7ff0000000000000 and (c & 0x000fffffffffffff) != 0


def _time_cell(ns, leaf, is_delta):
    """ns: python int (NAT for a missing cell stored as a value)"""
    t = leaf["type"]
    if t == 3:                                   # INT96: nanoseconds of the day (8 bytes) + Julian day (4 bytes)
        day = ns // NS_PER_DAY + 2440588
        nsod = ns % NS_PER_DAY
        return (nsod & M64) | ((day & M32) << 64)
    if t != 2:
        return ("unexpected-physical-type", t)
    if is_delta:
        div = 1000 if leaf["conv"] == 8 else None              # TIME_MICROS
    else:
        unit = None
        if leaf["logical"] and leaf["logical"][0] == 8:
            unit = leaf["logical"][1]
        elif leaf["conv"] in (9, 10):
            unit = {9: 1, 10: 2}[leaf["conv"]]
        div = {1: 10**6, 2: 10**3, 3: 1}.get(unit)
    if div is None:
        return ("no-time-unit-in-schema",)
    if ns == NAT:
        return NAT & M64
    if ns % div:
        return ("inexact", ns, div)
    return (ns // div) & M64


def expected_cells(s, leaf):
    """pandas Series + decoded leaf (physical type, converted/logical type, maxdef) -> list of cells:
    None (NULL) | int (bit pattern) | bytes | ('nan',) | ('json', text) | (diagnostic...)"""
    import pandas as pd
    optional = leaf["maxdef"] == 1
    t = leaf["type"]
    dt = s.dtype
    if isinstance(dt, pd.CategoricalDtype):
        labels = expected_cells(pd.Series(s.cat.categories), dict(leaf, maxdef=0))
        return [None if c < 0 else labels[c] for c in s.cat.codes] if optional else \
               [("null-in-required",) if c < 0 else labels[c] for c in s.cat.codes]
    kind = getattr(dt, "kind", "O")
    out = []
    if kind in "mM" or isinstance(dt, pd.DatetimeTZDtype):
        if isinstance(dt, pd.DatetimeTZDtype):
            arr = s.dt.tz_convert("UTC").dt.tz_localize(None).values
        else:
            arr = s.values
        unit = np.datetime_data(arr.dtype)[0]
        mul = {"s": 10**9, "ms": 10**6, "us": 10**3, "ns": 1}[unit]
        for v in arr.view("int64"):
            v = int(v)
            if v == NAT:
                out.append(None if optional else _time_cell(NAT, leaf, kind == "m"))
            else:
                out.append(_time_cell(v * mul, leaf, kind == "m"))
        return out
    isna = s.isna().values
    vals = s.tolist()
    for miss, v in zip(isna, vals):
        if miss:
            if optional:
                out.append(None)
            elif t in (4, 5):
                out.append(("nan",))
            elif t == 6 and leaf["conv"] == 19:
                out.append(("json", "null"))          # a JSON column can hold the JSON value null
            else:
                out.append(("null-in-required",))
            continue
        if t == 0:
            out.append(int(bool(v)))
        elif t == 1:
            out.append(int(v) & M32)
        elif t == 2:
            out.append(int(v) & M64)
        elif t == 4:
            out.append(_f_bits(v, 32))
        elif t == 5:
            out.append(_f_bits(v, 64))
        elif t == 6:
            if leaf["conv"] == 19:
                out.append(("json", json.dumps(v, sort_keys=True)))
            elif isinstance(v, str):
                out.append(v.encode("utf-8"))
            elif isinstance(v, (bytes, bytearray)):
                out.append(bytes(v))
            else:
                out.append(("json", json.dumps(v, sort_keys=True)) if leaf["conv"] == 19 else ("unexpected-object", repr(v)[:40]))
        else:
            out.append(("unexpected-physical-type", t))
    return out


def cell_matches(e, c, t):
    if e is None or c is None:
        return e is None and c is None
    if isinstance(e, tuple):
        if e[0] == "nan":
            return _is_nan_bits(c, t)
        if e[0] == "json":
            try:
                return json.dumps(json.loads(c.decode("utf-8")), sort_keys=True) == e[1]
            except Exception:    # noqa
                return False
        return False
    return e == c


def compare_column(exp, got, t, what):
    if len(exp) != len(got):
        return ["%s: %d cells expected, %d decoded" % (what, len(exp), len(got))]
    probs = []
    for i, (e, c) in enumerate(zip(exp, got)):
        if not cell_matches(e, c, t):
            probs.append("%s row %d: file must hold %r, independent reader decodes %r" % (what, i, e, c))
            if len(probs) >= 3:
                break
    return probs


# ---------------------------------------------------------------------------------------------
# spec encoder (C03): laid-out file descriptions as plain Python data (JSON-able), -> pqref s-expression
#   lfile = {"leaves": [leaf], "rgs": [[chunk per leaf]], "created_by": str|None, "kv": [[key, value|None], ...] (optional)}
#   leaf  = {"name", "type", "tlen", "optional", "conv", "logical": thrift tree | None, "scale", "precision": int | None}
#   chunk = {"codec": int, "stats": bool, "items": [item]}
#   item  = {"dict": enc, "vals": [value]} | {"v2": bool, "n": int, "def": [run], "store": store, "iscomp": None|bool, "trail": hex}
#   run   = ["r", count, v] | ["b", [v...]]
#   store = ["plain", [value]] | ["dictidx", enc, w, [run]] | ["rlebool", [run]] | ["delta", bs, mpb, [z]] | ["raw", enc, hex]
#   value = int | {"b": hex}

def _val(v):
    return bytes.fromhex(v["b"]) if isinstance(v, dict) else v


def _run(r):
    return ["r", r[1], r[2]] if r[0] == "r" else ["b", list(r[1])]


def _store(s):
    k = s[0]
    if k == "plain":
        return ["plain", [_val(v) for v in s[1]]]
    if k == "dictidx":
        return ["dictidx", s[1], s[2], [_run(r) for r in s[3]]]
    if k == "rlebool":
        return ["rlebool", [_run(r) for r in s[1]]]
    if k == "delta":
        return ["delta", s[1], s[2], list(s[3])]
    return ["raw", s[1], bytes.fromhex(s[2])]


def lfile_sx(lf):
    leaves = [[l["name"].encode(), l["type"], l["tlen"], bool(l["optional"]),
               [] if l.get("conv") is None else [l["conv"]],
               [] if l.get("logical") is None else [l["logical"]],
               [] if l.get("scale") is None else [l["scale"]], [] if l.get("precision") is None else [l["precision"]]] for l in lf["leaves"]]
    rgs = []
    for rg in lf["rgs"]:
        chunks = []
        for c in rg:
            items = []
            for it in c["items"]:
                if "dict" in it:
                    items.append(["dict", it["dict"], [_val(v) for v in it["vals"]]])
                else:
                    items.append(["page", bool(it["v2"]), it["n"], [_run(r) for r in it["def"]], _store(it["store"]),
                                  [] if it.get("iscomp") is None else [bool(it["iscomp"])], bytes.fromhex(it.get("trail", ""))])
            chunks.append([c["codec"], bool(c["stats"]), items])
        rgs.append(chunks)
    cb = lf.get("created_by")
    return [leaves, rgs, [] if cb is None else [cb.encode()]]


def encode_file(pq, lf):
    """two-phase: -> (file bytes, table {compressed: raw} usable for decoding it again)"""
    sx = lfile_sx(lf)
    r = pq.call("fmt_payloads", sx)
    if r[0] != b"ok":
        raise RuntimeError("fmt_payloads: %r" % (r,))
    tbl, dtbl, seen = [], [], set()
    for codec, raw in r[1]:
        if (codec, raw) in seen:
            continue
        seen.add((codec, raw))
        comp = CODECS[codec][0](raw)
        assert CODECS[codec][1](comp, len(raw)) == raw, "cramjam round trip"   # the section hypothesis, checked
        tbl.append([bytes([codec]) + raw, comp])
        dtbl.append([bytes([codec]) + comp, raw])
    if lf.get("kv"):
        # FileMetaData.key_value_metadata (Format/EncKV.v): [[key, value | None], ...] as text
        r = pq.call("fmt_encode_kv", sx, tbl, [[k.encode(), [] if v is None else [v.encode()]] for k, v in lf["kv"]])
    else:
        r = pq.call("fmt_encode", sx, tbl)
    if r[0] != b"ok":
        raise RuntimeError("fmt_encode: %r" % (r,))
    return r[1], dtbl


def denote(pq, lf):
    r = pq.call("fmt_table", lfile_sx(lf))
    if r[0] != b"ok":
        return None
    rgs = [[[(None if c == [] else c) for c in col] for col in rg] for rg in r[2]]
    return rgs


# ---------------------------------------------------------------------------------------------
# laid-out file description -> Gallina term (for the extraction-vs-kernel agreement check)

def _g_bytes(b):
    return "[" + "; ".join(str(x) for x in b) + "]%N"


def _g_val(v):
    return "VBin %s" % _g_bytes(bytes.fromhex(v["b"])) if isinstance(v, dict) else "VNum %d%%N" % v


def _g_list(items):
    return "[" + "; ".join(items) + "]"


def _g_run(r):
    return "RLE %d%%N %d%%N" % (r[1], r[2]) if r[0] == "r" else "BP %s" % _g_list("%d%%N" % v for v in r[1])


def _g_store(st):
    k = st[0]
    if k == "plain":
        return "SPlain %s" % _g_list(_g_val(v) for v in st[1])
    if k == "dictidx":
        return "SDict %d%%Z %d%%N %s" % (st[1], st[2], _g_list(_g_run(r) for r in st[3]))
    if k == "rlebool":
        return "SRleBool %s" % _g_list(_g_run(r) for r in st[1])
    if k == "delta":
        return "SDelta %d%%N %d%%N %s" % (st[1], st[2], _g_list("(%d)%%Z" % z for z in st[3]))
    return "SRaw %d%%Z %s" % (st[1], _g_bytes(bytes.fromhex(st[2])))


PTYPE_NAMES = ["BOOLEAN", "INT32", "INT64", "INT96", "FLOAT", "DOUBLE", "BYTE_ARRAY", "FLBA"]


def lfile_gallina(lf):
    """Gallina term of type Enc.lfile (logical types are dropped: None)"""
    leaves = _g_list("{| ll_name := %s; ll_type := %s; ll_tlen := %d%%N; ll_optional := %s; ll_conv := %s; ll_logical := None; ll_scale := %s; ll_prec := %s |}" % (
        _g_bytes(l["name"].encode()), PTYPE_NAMES[l["type"]], l["tlen"], "true" if l["optional"] else "false",
        "None" if l.get("conv") is None else "Some %d%%Z" % l["conv"],
        "None" if l.get("scale") is None else "Some %d%%Z" % l["scale"],
        "None" if l.get("precision") is None else "Some %d%%Z" % l["precision"]) for l in lf["leaves"])
    rgs = []
    for rg in lf["rgs"]:
        chunks = []
        for c in rg:
            items = []
            for it in c["items"]:
                if "dict" in it:
                    items.append("LDict %d%%Z %s" % (it["dict"], _g_list(_g_val(v) for v in it["vals"])))
                else:
                    ic = it.get("iscomp")
                    items.append("LData {| lp_v2 := %s; lp_nvals := %d%%N; lp_def := %s; lp_store := %s; lp_iscomp := %s; lp_trail := %s |}" % (
                        "true" if it["v2"] else "false", it["n"], _g_list(_g_run(r) for r in it["def"]), _g_store(it["store"]),
                        "None" if ic is None else ("Some true" if ic else "Some false"), _g_bytes(bytes.fromhex(it.get("trail", "")))))
            chunks.append("{| lc_codec := %d%%Z; lc_items := %s; lc_stats := %s |}" % (c["codec"], _g_list(items), "true" if c["stats"] else "false"))
        rgs.append(_g_list(chunks))
    cb = lf.get("created_by")
    return "{| l_leaves := %s; l_rgs := %s; l_created_by := %s |}" % (leaves, _g_list(rgs), "None" if cb is None else "Some %s" % _g_bytes(cb.encode()))


# ---------------------------------------------------------------------------------------------
# glue: the ANNOTATIONS a written column must carry - everything in SchemaElement that changes what an
# independent reader RETURNS for the stored physical values (LogicalTypes.md)

CONV = {"UTF8": 0, "DECIMAL": 5, "DATE": 6, "TIME_MILLIS": 7, "TIME_MICROS": 8, "TIMESTAMP_MILLIS": 9, "TIMESTAMP_MICROS": 10,
        "UINT_8": 11, "UINT_16": 12, "UINT_32": 13, "UINT_64": 14, "INT_8": 15, "INT_16": 16, "INT_32": 17, "INT_64": 18, "JSON": 19, "BSON": 20}
# converted type <-> logical type that says the same (LogicalTypes.md, "compatibility" tables)
CONV_OF_LOGICAL = {("STRING",): 0, ("JSON",): 19, ("BSON",): 20, ("DATE",): 6,
                   ("TIME", "MILLIS"): 7, ("TIME", "MICROS"): 8, ("TIMESTAMP", "MILLIS"): 9, ("TIMESTAMP", "MICROS"): 10,
                   ("INTEGER", 8, True): 15, ("INTEGER", 16, True): 16, ("INTEGER", 32, True): 17, ("INTEGER", 64, True): 18,
                   ("INTEGER", 8, False): 11, ("INTEGER", 16, False): 12, ("INTEGER", 32, False): 13, ("INTEGER", 64, False): 14}


def annotation_problems(s, leaf, times="int64"):
    """pandas Series (categorical: its labels decide) + decoded leaf -> list of problem strings"""
    import pandas as pd
    dt = s.dtype
    if isinstance(dt, pd.CategoricalDtype):
        return annotation_problems(pd.Series(s.cat.categories), leaf, times)
    name, t, conv, lg = leaf["name"], leaf["type"], leaf["conv"], leaf.get("logical_tree")
    probs = []

    def bad(msg):
        probs.append("column %s: %s (type %s, converted_type %s, logicalType %s)" % (name, msg, t, conv, lg))

    # 1. logicalType and converted_type, when both present, must say the same thing
    if lg is not None:
        k = lg["kind"]
        if k == "malformed":
            bad("logicalType is not a one-member union")
        key = {"TIME": (k, lg.get("unit")), "TIMESTAMP": (k, lg.get("unit")), "INTEGER": (k, lg.get("bits"), lg.get("signed"))}.get(k, (k,))
        implied = CONV_OF_LOGICAL.get(key)
        if k in ("TIME", "TIMESTAMP") and lg.get("unit") == "NANOS":
            implied = None          # no converted type exists for nanoseconds
        # (a converted type next to isAdjustedToUTC=false is written by several writers for old readers and is overridden
        #  by the logical type for every reader that knows it: tolerated; the flag itself is compared with the frame below)
        if implied is not None and conv is not None and conv != implied:
            bad("converted_type disagrees with logicalType (which implies %s)" % implied)
        if implied is None and conv is not None and k not in ("DECIMAL", "UNKNOWN", "UUID", "ENUM"):
            bad("converted_type present although logicalType %s has no converted equivalent" % k)
    # 2. what the frame column requires
    kind = getattr(dt, "kind", "O")
    tzaware = isinstance(dt, pd.DatetimeTZDtype)
    sdt = str(dt).lower()
    if tzaware or kind == "M":
        if t == 3:
            if conv is not None or lg is not None:
                bad("INT96 timestamps carry no annotation")
        else:
            unit = (dt.unit if tzaware else str(dt)[str(dt).index("[") + 1:-1])
            want_unit = {"ns": "NANOS", "us": "MICROS", "ms": "MILLIS", "s": "MILLIS"}[unit]
            if lg is None:
                if want_unit == "NANOS" or conv != {"MICROS": 10, "MILLIS": 9}[want_unit]:
                    bad("timestamp column without a TIMESTAMP annotation of unit %s" % want_unit)
                if not tzaware:
                    bad("a timezone-naive column needs logicalType TIMESTAMP(isAdjustedToUTC=false); the converted type alone means UTC-adjusted")
            else:
                if lg["kind"] != "TIMESTAMP":
                    bad("timestamp column annotated as %s" % lg["kind"])
                else:
                    if lg.get("unit") != want_unit:
                        bad("TIMESTAMP unit %s, the stored values are %s" % (lg.get("unit"), want_unit))
                    if bool(lg.get("utc")) != tzaware:
                        bad("isAdjustedToUTC=%s for a %s column (instants are stored in UTC for every zone)" % (
                            lg.get("utc"), "timezone-aware (%s)" % dt.tz if tzaware else "timezone-naive"))
    elif kind == "m":
        if not (conv == 8 or (lg and lg["kind"] == "TIME" and lg.get("unit") == "MICROS")):
            bad("timedelta column must be annotated TIME(MICROS)")
    elif sdt in ("int8", "int16", "uint8", "uint16", "uint32", "uint64", "int32", "int64") and t in (1, 2):
        signed = not sdt.startswith("u")
        bits = int(sdt.lstrip("uint"))
        want = CONV_OF_LOGICAL[("INTEGER", bits, signed)]
        plain_ok = signed and bits in (32, 64)          # INT32/INT64 without annotation mean signed 32/64
        if conv is None and lg is None:
            if not plain_ok:
                bad("%s column needs the annotation %s" % (sdt, want))
        else:
            if conv is not None and conv != want:
                bad("%s column annotated with converted_type %s, expected %s" % (sdt, conv, want))
            if lg is not None and not (lg["kind"] == "INTEGER" and lg.get("bits") == bits and bool(lg.get("signed")) == signed):
                bad("%s column annotated with logicalType %s" % (sdt, lg))
    elif kind == "f" or kind == "b" or sdt in ("boolean", "float32", "float64"):
        if conv is not None or lg is not None:
            bad("%s column must not carry an annotation" % sdt)
    elif t == 6:
        vals = [v for v in s.tolist() if v is not None and not (isinstance(v, float) and v != v)]
        if vals and all(isinstance(v, str) for v in vals):
            if not (conv == 0 or (lg and lg["kind"] == "STRING")):
                bad("text column must be annotated UTF8/STRING")
        elif vals and all(isinstance(v, (bytes, bytearray)) for v in vals):
            if conv is not None or lg is not None:
                bad("bytes column must not carry an annotation")
        elif vals and all(isinstance(v, (dict, list)) for v in vals):
            if not (conv in (19, 20) or (lg and lg["kind"] in ("JSON", "BSON"))):
                bad("object column of dicts/lists must be annotated JSON/BSON")
    if t != 7 and conv == 5:
        pass
    if (conv == 5 or (lg and lg["kind"] == "DECIMAL")) and (leaf.get("scale") is None or leaf.get("precision") is None):
        bad("DECIMAL without scale/precision")
    if lg and lg["kind"] == "DECIMAL" and (lg.get("scale") != leaf.get("scale") or lg.get("precision") != leaf.get("precision")):
        bad("DecimalType scale/precision differ from SchemaElement.scale/precision")
    return probs


# ---------------------------------------------------------------------------------------------
# wave 6: footer statistics as the FORMAT prescribes (Statistics.min_value = 6 / max_value = 5 / null_count = 3), added to the
# footer the specification encoder wrote: the footer is parsed and re-serialised by the specification's compact-protocol codec
# (pqref thrift_dec / thrift_enc); only field 12 of the ColumnMetaData structs changes.  lf["spec_stats"] = per row group, per column:
# None | {"min": hex | None, "max": hex | None, "null_count": int | None}

def _tv_args(v):
    """tv tree as returned by pqref (tags as bytes) -> the same tree as call arguments (tags as symbols)"""
    t = v[0].decode() if isinstance(v[0], (bytes, bytearray)) else v[0]
    if t == "r":
        return ["r", [[i, _tv_args(x)] for i, x in v[1]]]
    if t == "l":
        return ["l", v[1], [_tv_args(x) for x in v[2]]]
    if t == "s":
        return ["s", bytes(v[1])]
    return [t, v[1]]


def _set_field(struct, fid, val):
    fs = [[i, x] for i, x in struct[1] if i != fid]
    if val is not None:
        fs.append([fid, val])
    fs.sort(key=lambda p: p[0])
    return ["r", fs]


def add_spec_stats(pq, data, stats):
    n = int.from_bytes(data[-8:-4], "little")
    r = pq.call("thrift_dec", 1, data[-8 - n:-8])
    if r[0] != b"ok":
        raise RuntimeError("thrift_dec of the footer: %r" % (r[:1],))
    fmd = _tv_args(r[1])
    rgs = next(x for i, x in fmd[1] if i == 4)
    for rg, rstats in zip(rgs[2], stats):
        cols = next(x for i, x in rg[1] if i == 1)
        for ci, (cc, st) in enumerate(zip(cols[2], rstats)):
            if st is None:
                continue
            md = next(x for i, x in cc[1] if i == 3)
            old = next((x for i, x in md[1] if i == 12), ["r", []])
            new = old
            new = _set_field(new, 3, None if st.get("null_count") is None else ["i64", st["null_count"]])
            new = _set_field(new, 5, None if st.get("max") is None else ["s", bytes.fromhex(st["max"])])
            new = _set_field(new, 6, None if st.get("min") is None else ["s", bytes.fromhex(st["min"])])
            md2 = _set_field(md, 12, new if new[1] else None)
            cc2 = _set_field(cc, 3, md2)
            cols[2][ci] = cc2
    e = pq.call("thrift_enc", fmd)
    if e[0] != b"ok":
        raise RuntimeError("thrift_enc of the footer: %r" % (e,))
    foot = bytes(e[1])
    return data[:-8 - n] + foot + len(foot).to_bytes(4, "little") + b"PAR1"
