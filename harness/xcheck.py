"""Extraction-vs-kernel cross-check (DESIGN 3.2): a sample of the pqref conversations of a run is re-evaluated by the
Coq kernel's VM: for each sampled (command, answer) an `Example extract_agrees_k : Cmd.run <command> = <answer>` is
generated and proved by `vm_compute; reflexivity` - so the OCaml extraction + driver are not trusted blindly."""
import os

from harness import common as C


def sx_coq(x):
    """Python value (as given to C.sx / returned by C.parse_sx) -> Gallina term of type Sx.sx"""
    if isinstance(x, bool):
        return "SZ %d%%Z" % (1 if x else 0)
    if isinstance(x, int):
        return "SZ (%d)%%Z" % x
    if isinstance(x, (bytes, bytearray)):
        return "SB [" + "; ".join(str(b) for b in bytes(x)) + "]%N"
    if isinstance(x, str):
        if x.startswith("#"):
            return sx_coq(bytes.fromhex(x[1:]))
        return "SB [" + "; ".join(str(b) for b in x.encode()) + "]%N"
    if x is None:
        return "SL []"
    return "SL [" + "; ".join(sx_coq(e) for e in x) + "]"


class RecPqref(C.Pqref):
    """Pqref that keeps a bounded random sample of small conversations."""

    def __init__(self, rng, keep=20, max_chars=1500):
        super().__init__()
        self.rng, self.keep, self.max_chars = rng, keep, max_chars
        self.seen = 0
        self.sample = []

    def call(self, *cmd):
        out = super().call(*cmd)
        if len(C.sx(list(cmd))) <= self.max_chars:
            self.seen += 1
            if len(self.sample) < self.keep:
                self.sample.append((list(cmd), out))
            else:
                j = self.rng.randrange(self.seen)
                if j < self.keep:
                    self.sample[j] = (list(cmd), out)
        return out


def kernel_crosscheck(ctx, pq):
    if not pq.sample:
        return
    path = os.path.join(ctx.gen_dir, "ExtractAgrees.v")
    with open(path, "w") as f:
        f.write("(* GENERATED: sampled pqref conversations of this run, re-evaluated by the kernel *)\n")
        f.write("From Coq Require Import NArith ZArith List.\nFrom Pq Require Import Base.Bytes Extract.Sx Extract.Cmd.\n")
        f.write("Import ListNotations.\n")
        for k, (cmd, out) in enumerate(pq.sample):
            f.write("Example extract_agrees_%d :\n  Cmd.run (%s)\n  = %s.\nProof. vm_compute. reflexivity. Qed.\n" % (k, sx_coq(cmd), sx_coq(out)))
    ctx.coq_file(path)
    ctx.extra["extraction_vs_kernel"] = {"sampled": len(pq.sample), "of_small_calls": pq.seen,
                                         "commands": sorted({c[0] for c, _ in pq.sample})}


# ---------------------------------------------------------------------------------------------
# crash-proof execution of the real code: cases run in forked workers (common.pmap); a worker records what it
# would have told the Ctx, the parent replays the record.  A worker that dies (segfault, SIGFPE, abort) or hangs
# becomes a reported failure of the case it was running, not a dead check.
# ---------------------------------------------------------------------------------------------
class RecCtx:
    """Stand-in for common.Ctx inside a worker: records the calls."""

    def __init__(self, quick, scratch):
        self.ops = []
        self._quick = quick
        self.scratch = scratch
        self.notes = []

    def quick(self):
        return self._quick

    def count(self, key, sub):
        self.ops.append(("count", key, sub))

    def case(self, case, trivial=False, sample_every=0):
        self.ops.append(("case", case, trivial))

    def correspondence(self, name, case, model_out, impl_out):
        self.ops.append(("correspondence", name, case, model_out, impl_out))
        return model_out == impl_out

    def fail(self, cls, case, detail):
        self.ops.append(("fail", cls, case, detail))
        return True


def replay_ops(ctx, ops):
    for op in ops:
        getattr(ctx, op[0])(*op[1:])


def run_jobs(ctx, func, jobs, init, split, crash_cls, describe, nproc=4, job_timeout=240):
    """Run func(job) -> {"ops": [...], "samples": [...]} for every job in forked workers; replay the records in job order.
    A job whose worker died/hung is split into its single cases (split(job) -> [job...]) which are run again one by one to
    find the culprit; each culprit (or, if none reproduces, the whole job) is reported with ctx.fail(crash_cls(...), ...)."""
    samples = []
    res = C.pmap(func, jobs, init=init, nproc=nproc, job_timeout=job_timeout)
    for job, r in zip(jobs, res):
        if isinstance(r, dict) and "__crashed__" in r:
            subs = split(job)
            hit = False
            if len(subs) > 1:
                rs = C.pmap(func, subs, init=init, nproc=nproc, job_timeout=job_timeout)
                for sj, sr in zip(subs, rs):
                    if isinstance(sr, dict) and "__crashed__" in sr:
                        hit = True
                        ctx.count("crash", sr["__crashed__"][:60])
                        ctx.fail(crash_cls(sj, sr), describe(sj), "the real code does not survive this input: %s %s" % (sr["__crashed__"], sr.get("tb", "")[-600:]))
                    else:
                        replay_ops(ctx, sr["ops"])
                        samples += sr.get("samples", [])
            if not hit:
                ctx.count("crash", r["__crashed__"][:60])
                ctx.fail(crash_cls(job, r), describe(job), "the real code does not survive this input%s: %s %s" % (
                    " (the worker died on this batch; not reproduced when its cases ran one by one)" if len(subs) > 1 else "",
                    r["__crashed__"], r.get("tb", "")[-600:]))
        else:
            replay_ops(ctx, r["ops"])
            samples += r.get("samples", [])
    return samples


def kernel_crosscheck_samples(ctx, samples, keep=20):
    """as kernel_crosscheck, for samples collected by workers"""
    if not samples:
        return
    if len(samples) > keep:
        samples = ctx.rng.sample(samples, keep)

    class _P:
        pass
    p = _P()
    p.sample = samples
    p.seen = len(samples)
    kernel_crosscheck(ctx, p)
