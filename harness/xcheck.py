"""Extraction-vs-kernel cross-check (DESIGN 3.2): a sample of the pqref conversations of a run is re-evaluated by the
Coq kernel's VM: for each sampled (command, answer) an `Example extract_agrees_k : Cmd.run <command> = <answer>` is
generated and proved by `vm_compute; reflexivity` - so the OCaml extraction + driver are not trusted blindly."""
import os

from harness import common as C


def sx_coq(x):
    """Python value (as given to C.sx / returned by C.parse_sx) -> Gallina term of type Sx.sx"""
    if isinstance(x, bool):
        return "SZ %d%%Z" % (1 if x else 0)
    if isinstance(x, int):
        return "SZ (%d)%%Z" % x
    if isinstance(x, (bytes, bytearray)):
        return "SB [" + "; ".join(str(b) for b in bytes(x)) + "]%N"
    if isinstance(x, str):
        if x.startswith("#"):
            return sx_coq(bytes.fromhex(x[1:]))
        return "SB [" + "; ".join(str(b) for b in x.encode()) + "]%N"
    if x is None:
        return "SL []"
    return "SL [" + "; ".join(sx_coq(e) for e in x) + "]"


class RecPqref(C.Pqref):
    """Pqref that keeps a bounded random sample of small conversations."""

    def __init__(self, rng, keep=20, max_chars=1500):
        super().__init__()
        self.rng, self.keep, self.max_chars = rng, keep, max_chars
        self.seen = 0
        self.sample = []

    def call(self, *cmd):
        out = super().call(*cmd)
        if len(C.sx(list(cmd))) <= self.max_chars:
            self.seen += 1
            if len(self.sample) < self.keep:
                self.sample.append((list(cmd), out))
            else:
                j = self.rng.randrange(self.seen)
                if j < self.keep:
                    self.sample[j] = (list(cmd), out)
        return out


def kernel_crosscheck(ctx, pq):
    if not pq.sample:
        return
    path = os.path.join(ctx.gen_dir, "ExtractAgrees.v")
    with open(path, "w") as f:
        f.write("(* GENERATED: sampled pqref conversations of this run, re-evaluated by the kernel *)\n")
        f.write("From Coq Require Import NArith ZArith List.\nFrom Pq Require Import Base.Bytes Extract.Sx Extract.Cmd.\n")
        f.write("Import ListNotations.\n")
        for k, (cmd, out) in enumerate(pq.sample):
            f.write("Example extract_agrees_%d :\n  Cmd.run (%s)\n  = %s.\nProof. vm_compute. reflexivity. Qed.\n" % (k, sx_coq(cmd), sx_coq(out)))
    ctx.coq_file(path)
    ctx.extra["extraction_vs_kernel"] = {"sampled": len(pq.sample), "of_small_calls": pq.seen,
                                         "commands": sorted({c[0] for c, _ in pq.sample})}
