"""Shared helpers of the C08 / C14 checks: canonical forms of partition values, the conversion
oracle handed to the extracted model, frame (de)serialisation for replays, the property oracle
of C08 on a written dataset.  fastparquet is imported lazily (after C.use_shadow())."""
import math
import os

import numpy as np
import pandas as pd


# ----------------------------------------------------------------------------- crash-proof dataset jobs
class Recorder:
    """stands in for the check context inside a forked worker (harness.common.pmap): collects the
    correspondences and property failures of one dataset; the parent replays them onto the real context"""

    def __init__(self):
        self.events = []

    def correspondence(self, name, case, model_out, impl_out):
        self.events.append(["corr", name, case, model_out, impl_out])
        return model_out == impl_out

    def fail(self, cls, case, detail):
        self.events.append(["fail", cls, case, detail])
        return True


def replay_events(ctx, events):
    for e in events:
        if e[0] == "corr":
            ctx.correspondence(e[1], e[2], e[3], e[4])
        else:
            ctx.fail(e[1], e[2], e[3])


_WORKER_PQ = [None]


def worker_pq():
    """one extracted-model process per worker"""
    from harness import common as C
    if _WORKER_PQ[0] is None:
        _WORKER_PQ[0] = C.Pqref()
    return _WORKER_PQ[0]


def load_corpus(pid):
    """minimised past failures / disagreements (corpus/<pid>/*.json), run before the generated cases"""
    import glob
    import json
    from harness import common as C
    return [json.load(open(p)) for p in sorted(glob.glob(os.path.join(C.VERIF, "corpus", pid, "*.json")))]


def run_dataset_jobs(ctx, check_dataset, cases, prefix, replayable, nproc=4, job_timeout=180):
    """check_dataset(case, root, pq, recorder) for every case in forked workers; a worker that dies (native crash)
    or hangs is a failing input of the property, not the end of the check. Returns the per-case result dicts."""
    import shutil
    from harness import common as C
    scratch = ctx.scratch

    def job(arg):
        i, case = arg
        root = os.path.join(scratch, "%s%d" % (prefix, i))
        rec = Recorder()
        try:
            res = check_dataset(case, root, worker_pq(), rec)
        finally:
            shutil.rmtree(root, ignore_errors=True)
        return {"events": rec.events, "res": {k: v for k, v in res.items() if k in ("trivial", "vias")}}

    _WORKER_PQ[0] = None
    outs = C.pmap(job, list(enumerate(cases)), nproc=nproc, job_timeout=job_timeout)
    results = []
    for case, o in zip(cases, outs):
        if not isinstance(o, dict) or "__crashed__" in o:
            msg = (o or {}).get("__crashed__", "no result") if isinstance(o, dict) else "no result"
            ctx.fail({"component": "process", "stage": "crash-or-hang"}, replayable(case),
                     "the real code did not survive this dataset: %s %s" % (msg, (o or {}).get("tb", "")[-600:] if isinstance(o, dict) else ""))
            results.append({})
            continue
        replay_events(ctx, o["events"])
        results.append(o["res"])
    return results


# ----------------------------------------------------------------------------- canonical values
def canon_float(f):
    f = float(f)
    if math.isnan(f):
        return "nan"
    if math.isinf(f):
        return "inf" if f > 0 else "-inf"
    if f == 0:
        return "-0.0" if math.copysign(1, f) < 0 else "0.0"
    if f == int(f) and abs(f) < 1e300:
        return "%d.0" % int(f)
    return repr(f)


def canon_time(x):
    try:
        ts = pd.Timestamp(x)
    except Exception:        # noqa  outside what pandas can represent (np.datetime64 of huge years)
        return "np:" + str(x)
    if ts is pd.NaT:
        return "NaT"
    if ts.tzinfo is not None:       # tz-aware: the instant, in UTC, marked
        ts = ts.tz_convert("UTC").tz_localize(None)
        try:
            return ts.as_unit("ns").isoformat() + "Z"
        except Exception:    # noqa
            return ts.isoformat() + "Z"
    try:
        return ts.as_unit("ns").isoformat()
    except Exception:        # noqa  out of the ns range
        return ts.isoformat()


def canon(v):
    """value returned by fastparquet -> ['kind', payload] (JSON-able)"""
    if isinstance(v, (bool, np.bool_)):
        return ["b", bool(v)]
    if isinstance(v, (int, np.integer)):
        return ["i", int(v)]
    if isinstance(v, (float, np.floating)):
        return ["f", canon_float(v)]
    if v is pd.NaT:
        return ["t", "NaT"]
    if isinstance(v, pd.Timedelta):
        return ["d", str(v)]
    if isinstance(v, (np.datetime64, pd.Timestamp)):
        return ["t", canon_time(v)]
    if isinstance(v, str):
        return ["s", str(v)]
    if isinstance(v, bytes):
        return ["y", v.hex()]
    return ["?", repr(v)]


def from_model(sv):
    """svalue printed by pqref -> same canonical form"""
    tag = sv[0]
    if tag == 0:
        return ["i", sv[1]]
    if tag == 1:
        return ["b", bool(sv[1])]
    t = bytes(sv[1]).decode("utf-8", "replace") if tag != 6 else None
    if tag == 2:
        return ["s", t]
    if tag == 3:
        return ["f", t]
    if tag == 4:
        return ["t", t]
    if tag == 5:
        return ["d", t]
    return ["c", from_model(sv[1])]


def enc(s):
    return s.encode("utf-8")


def oracle_entry(x):
    """the external conversions of util.val_from_meta / _val_to_num applied to text x"""
    from fastparquet.util import PATH_DATE_FMT
    out = [enc(x)]
    try:
        out.append([enc(canon_float(float(x)))])
    except Exception:       # noqa
        out.append([])
    try:
        import warnings
        with warnings.catch_warnings():
            warnings.simplefilter("ignore")
            out.append([enc(canon_time(np.datetime64(x)))])
    except Exception:       # noqa
        out.append([])
    try:
        out.append([enc(canon_time(pd.to_datetime(x, format=PATH_DATE_FMT)))])
    except Exception:       # noqa
        out.append([])
    try:
        out.append([enc(canon_time(pd.Timestamp(x)))])
    except Exception:       # noqa
        out.append([])
    try:
        out.append([enc(str(pd.Timedelta(x)))])
    except Exception:       # noqa
        out.append([])
    try:
        import warnings
        with warnings.catch_warnings():
            warnings.simplefilter("ignore")
            out.append([enc(canon_float(np.float32(x)))])
    except Exception:       # noqa
        out.append([])
    try:        # val_from_meta for a tz-aware column (the metadata zone matters only for texts without an offset: UTC here)
        ts = pd.Timestamp(x)
        out.append([enc(canon_time(ts if ts.tzinfo is not None else ts.tz_localize("UTC")))])
    except Exception:       # noqa
        out.append([])
    return out


def oracle_table(texts):
    return [oracle_entry(x) for x in sorted(set(texts))]


# ----------------------------------------------------------------------------- metadata kinds
def kind_of_meta(m):
    """pandas-metadata block of a partition column -> model kind (s-expression)"""
    if m is None:
        return None
    if m.get("pandas_type") == "categorical":
        labels = (m.get("metadata") or {}).get("labels")       # the type of the labels, when the writer recorded it
        return [5, kind_of_meta(labels)] if labels else [5]
    if m.get("pandas_type") == "datetimetz":
        return [7]
    t = str(m.get("numpy_type"))
    if t == "bool":
        return [1]
    for pre, sg in (("uint", False), ("int", True)):
        if t.startswith(pre) and t[len(pre):].isdigit():
            return [0, sg, int(t[len(pre):])]
    if t.startswith("float"):
        return [3, t == "float32"]
    if t.startswith("datetime64"):
        return [4, t == "datetime64[ns]"]
    return [2]


def pmeta_sx(m):
    """pandas-metadata block -> the s-expression Cmd_Partition.as_pmeta_f reads: (pandas_type numpy_type (labels-block)?)"""
    labels = (m.get("metadata") or {}).get("labels") if m.get("pandas_type") == "categorical" else None
    return [enc(str(m.get("pandas_type"))), enc(str(m.get("numpy_type"))), [pmeta_sx(labels)] if labels else []]


def kind_sx_norm(k):
    """kind as printed by pqref (booleans as 0/1) -> the harness notation"""
    if not isinstance(k, list):
        return k
    if k and k[0] == 0:
        return [0, bool(k[1]), k[2]]
    if k and k[0] in (3, 4):
        return [k[0], bool(k[1])]
    if k and k[0] == 5 and len(k) > 1:
        return [5, kind_sx_norm(k[1])]
    return k


def kind_of_dtype(dt):
    """dtype of a frame column -> (model kind, value-kind letter the read must yield)"""
    if isinstance(dt, pd.CategoricalDtype):
        return [5], None
    if isinstance(dt, pd.DatetimeTZDtype):
        return [7], "t"
    if isinstance(dt, pd.api.extensions.ExtensionDtype):
        n = str(dt)
        if n == "boolean":
            return [1], "b"
        if n.startswith(("Int", "UInt")):
            return [0, n.startswith("Int"), int(n.lstrip("UInt"))], "i"
        if n.startswith("Float"):
            return [3, n == "Float32"], "f"
        return [2], "s"
    k = np.dtype(dt).kind
    if k == "b":
        return [1], "b"
    if k in "iu":
        return [0, k == "i", np.dtype(dt).itemsize * 8], "i"
    if k == "f":
        return [3, np.dtype(dt).itemsize == 4], "f"
    if k == "M":
        return [4, str(dt) == "datetime64[ns]"], "t"
    return [2], "s"


# ----------------------------------------------------------------------------- typed model values
def model_value(v, is_cat=False, text=None):
    """a non-null key as pandas' groupby hands it to the writer -> model value s-expression
    (text: the spelling str(key) has, when the caller knows it: np.float32 keys of nullable Float32 columns)"""
    c = canon(v)
    if text is not None and c[0] == "f":
        return [6, [3, enc(text)]] if is_cat else [3, enc(text)]
    if c[0] == "i":
        mv = [0, c[1]]
    elif c[0] == "b":
        mv = [1, c[1]]
    elif c[0] == "s":
        mv = [2, enc(c[1])]
    elif c[0] == "f":
        mv = [3, enc(repr(float(v)))]
    elif c[0] == "t":
        ts = pd.Timestamp(v)
        mv = [4, enc(ts.isoformat() + "\0" + str(ts))]
    else:
        raise ValueError("unsupported key %r" % (v,))
    return [6, mv] if is_cat else mv


def is_null(v):
    return v is None or v is pd.NaT or (isinstance(v, (float, np.floating)) and math.isnan(v)) \
        or (isinstance(v, np.datetime64) and np.isnat(v)) or v is pd.NA


# ----------------------------------------------------------------------------- frames as data
def col_to_data(s):
    """pandas Series -> JSON-able description (dtype string + values)"""
    dt = s.dtype
    if isinstance(dt, pd.CategoricalDtype):
        cats = list(dt.categories)
        return {"dtype": "category", "categories": [canon(c) for c in cats],
                "codes": [int(c) for c in s.cat.codes]}
    if isinstance(dt, pd.DatetimeTZDtype):
        u = s.dt.tz_convert("UTC").dt.tz_localize(None)
        return {"dtype": "datetimetz", "unit": dt.unit, "tz": str(dt.tz),
                "values": [None if is_null(v) else int(v) for v in u.values.astype("int64").tolist()],
                "nat": [bool(b) for b in np.isnat(u.values)]}
    if isinstance(dt, pd.api.extensions.ExtensionDtype):
        vals = []
        for v in s.tolist():
            if is_null(v):
                vals.append(None)
            elif isinstance(v, (bool, np.bool_)):
                vals.append(bool(v))
            elif isinstance(v, (int, np.integer)):
                vals.append(int(v))
            elif isinstance(v, (float, np.floating)):
                vals.append(["f", float(v).hex()])
            else:
                vals.append(str(v))
        return {"dtype": str(dt), "ext": True, "values": vals}
    k = np.dtype(dt).kind
    if k == "M":
        return {"dtype": str(dt), "values": [None if is_null(v) else int(v) for v in s.values.astype("int64").tolist()],
                "nat": [bool(b) for b in np.isnat(s.values)]}
    if k == "f":
        return {"dtype": str(dt), "values": [None if math.isnan(v) else float(v).hex() for v in s.tolist()]}
    if k in "iub":
        return {"dtype": str(dt), "values": [int(v) for v in s.tolist()]}
    return {"dtype": "object", "values": [None if is_null(v) else str(v) for v in s.tolist()]}


def col_from_data(d):
    dt = d["dtype"]
    if dt == "category":
        cats = []
        for k, v in d["categories"]:
            cats.append({"i": int, "s": str, "f": float, "b": bool}.get(k, str)(v) if k != "t" else pd.Timestamp(v))
        return pd.Categorical.from_codes(d["codes"], categories=cats)
    if d.get("ext"):
        return pd.array([float.fromhex(v[1]) if isinstance(v, list) else v for v in d["values"]], dtype=dt)
    if dt == "datetimetz":
        a = np.array([0 if v is None else v for v in d["values"]], dtype="int64").astype("datetime64[%s]" % d["unit"])
        if d["values"]:
            a[np.array(d["nat"], dtype=bool)] = np.datetime64("NaT")
        return pd.Series(a).dt.tz_localize("UTC").dt.tz_convert(d["tz"])
    if dt.startswith("datetime64"):
        a = np.array([0 if v is None else v for v in d["values"]], dtype="int64").astype(dt)
        if d["values"]:
            a[np.array(d["nat"], dtype=bool)] = np.datetime64("NaT")
        return a
    if dt.startswith("float"):
        return np.array([float("nan") if v is None else float.fromhex(v) for v in d["values"]], dtype=dt)
    if dt == "object":
        return np.array(d["values"] + [None], dtype=object)[:-1]
    return np.array(d["values"], dtype=dt)


def frame_to_data(df):
    return {"columns": [[c, col_to_data(df[c])] for c in df.columns]}


def frame_from_data(d):
    return pd.DataFrame({c: col_from_data(cd) for c, cd in d["columns"]})


def tree_files(root):
    out = []
    for dp, _, fs in os.walk(root):
        for f in fs:
            if f in ("_metadata", "_common_metadata"):
                continue
            out.append(os.path.relpath(os.path.join(dp, f), root).replace(os.sep, "/"))
    return sorted(out)


def in_int_domain(t):
    """the model of int(text) covers ASCII digits / white space only (Python also accepts every
    Unicode decimal digit and space): texts with such non-ASCII characters are outside the model"""
    return all(ch.isascii() or not (ch.isdigit() or ch.isnumeric() or ch.isspace()) for ch in t)


def res_of_model(mo, f):
    """sres printed by pqref -> ['ok', f(v)] | ['raises', 'ValueError'] | ['raises', 'Error']"""
    if isinstance(mo, (bytes, bytearray)):
        return ["raises", bytes(mo).decode()]
    return ["ok", f(mo[0])]


def key_text(v, hive):
    """text of a non-null key as the writer must put it into the directory name: the key is the
    column's value (numpy scalars as the Python number of the same value, so a float32 shows the
    shortest repr of its exact double value); hive uses isoformat for timestamps"""
    if isinstance(v, np.generic) and not isinstance(v, (np.datetime64, np.timedelta64)):
        v = v.item()
    if isinstance(v, (pd.Timestamp, np.datetime64)):
        v = pd.Timestamp(v)
        return v.isoformat() if hive else str(v)
    return str(v)


def key_texts(v, hive):
    """the texts the writer may put into the directory name for key v: pandas hands a numpy float32 column's
    keys over widened to Python floats but a nullable Float32 column's keys as np.float32 - both spell the key"""
    alts = [key_text(v, hive)]
    if isinstance(v, np.floating):
        alts.append(str(v))
    return alts


def num_norm(c):
    """drill levels mixing integers and floats come back through one pandas category index (all floats)"""
    if isinstance(c, list) and len(c) == 2 and c[0] in ("i", "f") and c[1] not in ("nan", "inf", "-inf"):
        return ["num", float(c[1])]
    return c


def legal_text(t, drill):
    if any(ch in t for ch in "/=\\\0"):
        return False
    if drill and (t == "" or t in (".", "..")):
        return False
    return len(t.encode("utf-8")) < 200


# ----------------------------------------------------------------------------- extraction vs kernel (DESIGN 3.2)
def coq_sx(x):
    """Python value as given to / returned by harness.common.Pqref -> Gallina term of type Extract.Sx.sx
    (to be read with N_scope open)"""
    if isinstance(x, bool):
        return "(SZ %d%%Z)" % (1 if x else 0)
    if isinstance(x, int):
        return "(SZ (%d)%%Z)" % x
    if isinstance(x, (bytes, bytearray)):
        return "(SB [%s])" % "; ".join(str(b) for b in bytes(x))
    if isinstance(x, str):
        return "(SB [%s])" % "; ".join(str(b) for b in x.encode())
    if x is None:
        return "(SL [])"
    return "(SL [%s])" % "; ".join(coq_sx(e) for e in x)


def extraction_agrees(ctx, samples, tag):
    """samples: [(command tuple as given to Pqref.call, parsed output)].  Generates one closed Example per sample,
    `Cmd.pqref_main input = output` proved by vm_compute in coqc: the extracted OCaml program and the Coq kernel's own
    evaluation of the same Gallina agree on these inputs (a check of extraction + driver, not of the model)."""
    from harness import common as C
    if not samples:
        return
    path = os.path.join(ctx.gen_dir, "extract_agrees_%s.v" % tag)
    with open(path, "w") as f:
        f.write("From Coq Require Import NArith ZArith List String.\nFrom Pq Require Import Extract.Sx Extract.Cmd.\n"
                "Import ListNotations.\nLocal Open Scope N_scope.\n")
        for i, (cmd, out) in enumerate(samples):
            f.write("Example extract_agrees_%s_%d : Cmd.pqref_main %s = %s.\nProof. vm_compute. reflexivity. Qed.\n" % (
                tag, i, coq_sx(list(cmd)), coq_sx(out)))
    ctx.coq_file(path)


def sample_pq(samples, cmds, outs, rng, k, limit=1500):
    """pick up to k (command, output) pairs of moderate size"""
    idx = [i for i in range(min(len(cmds), len(outs))) if len(repr(cmds[i])) + len(repr(outs[i])) < limit]
    for i in rng.sample(idx, min(k, len(idx))):
        samples.append((cmds[i], outs[i]))


def coqchk_props(ctx, pid):
    """thorough tier (DESIGN 4.6): the independent checker re-checks props/<pid>.vo and everything it depends on"""
    from harness import common as C
    import time
    t = time.time()
    rc, out = C.run(["coqchk", "-silent", "-o", "-Q", os.path.join(C.COQ, "theories"), "Pq", pid],
                    cwd=os.path.join(C.COQ, "props"), timeout=1500)
    ok = rc == 0 and "* Axioms: <none>" in out
    ctx.checker_cmds.append("cd coq/props && coqchk -silent -o -Q ../theories Pq %s  (%.1fs)" % (pid, time.time() - t))
    ctx.obligation("coqchk -o %s.vo: re-checked by the standalone checker, Axioms: <none>" % pid, ok, out[-1500:])


# ----------------------------------------------------------------------------- translator paths2coq (C08, C14)
PATHS_FUNCS = ["util.analyse_paths", "util._strip_path_tail", "util.path_string", "util._val_to_num",
               "writer.partition_on_columns (directory naming)", "api.paths_to_cats", "api._path_to_cats",
               "util.val_from_meta (bool literals, dispatch)", "util.metadata_from_many (fast-path relative path)",
               "core.read_row_group (partition-column fill)"]


def filter_proof_blocks(text, ok_units):
    """coq/genproofs/GenPathsProofs.v is cut into blocks by lines `(* @needs u1 u2 *)`; keep the blocks whose units were all
    translated.  -> (text, names of the theorems kept, names of the theorems left out)"""
    import re
    keep, kept, dropped = True, [], []
    out = []
    for line in text.split("\n"):
        m = re.match(r"^\(\* @needs(.*)\*\)\s*$", line)
        if m:
            keep = all(u in ok_units for u in m.group(1).split())
            continue
        t = re.match(r"^\s*(?:Theorem|Lemma|Example|Corollary)\s+([A-Za-z0-9_']+)", line)
        if t:
            (kept if keep else dropped).append(t.group(1))
        if keep:
            out.append(line)
    return "\n".join(out), kept, dropped


def paths_translator(ctx):
    """translators/paths2coq.py: regenerate Gen/GenPaths.v from util.py / writer.py / api.py of the working tree and re-prove
    coq/genproofs/GenPathsProofs.v on it.  Fail closed PER FUNCTION: a function outside the fragment is left to its hand model +
    correspondence (recorded under `translator_fallback` with the reason) and only the proof blocks that need it are left out.
    -> the set of units whose regenerated text is in use"""
    import sys
    from harness import common as C
    sys.path.insert(0, os.path.join(C.VERIF, "translators"))
    import paths2coq
    for f in os.listdir(ctx.gen_dir):
        if f.startswith("GenPaths"):
            os.unlink(os.path.join(ctx.gen_dir, f))
    rp = os.path.join(C.REPO, "fastparquet")
    try:
        text, ok_units, failed = paths2coq.translate_units(os.path.join(rp, "util.py"), os.path.join(rp, "writer.py"), os.path.join(rp, "api.py"),
                                                            os.path.join(rp, "core.py"))
        gen = os.path.join(ctx.gen_dir, "GenPaths.v")
        open(gen, "w").write(text)
        ok, out = C.coqc(gen, extra_q=[(ctx.gen_dir, "PqGen")])
        if not ok:
            raise paths2coq.Unsupported("generated text does not type-check: " + out[-600:])
    except (paths2coq.Unsupported, SyntaxError, OSError) as e:
        ctx.extra["translator"] = {"status": "translator_fallback", "translator": "paths2coq", "reason": str(e)[:500]}
        ctx.notes.append("translator_fallback (paths2coq, all units): " + str(e)[:300])
        return set()
    proofs = os.path.join(ctx.gen_dir, "GenPathsProofs.v")
    ptext, kept, dropped = filter_proof_blocks(open(os.path.join(C.COQ, "genproofs", "GenPathsProofs.v")).read(), ok_units)
    open(proofs, "w").write(ptext)
    ctx.coq_file(proofs, extra_q=[(ctx.gen_dir, "PqGen")], obligations=["gen:" + n for n in kept])
    ctx.extra["translator"] = {"status": "ok" if not failed else "translator_fallback", "translator": "paths2coq", "units": ok_units,
                               "functions": PATHS_FUNCS, "lines": text.count("\n")}
    if failed:
        ctx.extra["translator"]["failed_closed"] = {u: r[:300] for u, r in failed.items()}
        ctx.extra["translator"]["obligations_left_out"] = dropped
        ctx.extra["translator"]["reason"] = "; ".join("%s: %s" % (u, r[:160]) for u, r in failed.items())
        ctx.notes.append("translator_fallback (paths2coq, units %s): hand model + correspondence for them; %d regenerated obligations still checked"
                         % (", ".join(failed), len(kept)))
    return set(ok_units)


def coq_str(s):
    """ASCII text -> Gallina term of type Partition.str"""
    return "[]" if s == "" else '(s_ "%s")' % s.replace('"', '""')


def coq_ascii_ok(s):
    return all(32 <= ord(ch) < 127 for ch in s)


def gen_paths_samples(ctx, path_cases, strip_cases):
    """the REGENERATED text evaluated by the Coq kernel (vm_compute) against the real functions on sampled inputs: exercises
    translator + prelude (Impl/PyPaths.v) end to end.  path_cases: [(paths, root|None)], strip_cases: [path]"""
    from harness import common as C
    from fastparquet import util, api
    req = ("From Coq Require Import ZArith List String Ascii.\nFrom Pq Require Import Base.Bytes Impl.Partition Impl.Paths Impl.PyPaths.\n"
           "From PqGen Require Import GenPaths.\nImport ListNotations.\n"
           "Definition sh (s : str) : string := string_of_list_ascii s.\n"
           "Definition sh_ares (r : ares) : string := match r with AOk b rel => sh (join_with \"|\"%char (b :: rel)) "
           "| AIndexError => \"IndexError\"%string | AAssertion => \"AssertionError\"%string end.\n"
           )
    exprs, impls, cases = [], [], []
    for paths, root in path_cases:
        if not all(coq_ascii_ok(p) and "|" not in p for p in list(paths) + [root or ""]):
            continue
        exprs.append("sh_ares (gen_analyse_paths [%s] %s)" % ("; ".join(coq_str(p) for p in paths), "None" if root is None else "(Some %s)" % coq_str(root)))
        try:
            b, rel = util.analyse_paths(list(paths), root=False if root is None else root)
            impls.append("|".join([b] + list(rel)))
        except AssertionError:
            impls.append("AssertionError")
        except IndexError:
            impls.append("IndexError")
        cases.append({"gen": "analyse_paths", "paths": list(paths), "root": root})
    for p in strip_cases:
        if not coq_ascii_ok(p):
            continue
        exprs.append("sh (gen_strip_tail %s)" % coq_str(p))
        impls.append(list(api._strip_path_tail([p]))[0])
        cases.append({"gen": "_strip_path_tail", "path": p})
    if not exprs:
        return
    res = C.vm_eval(req, exprs, "string", os.path.join(ctx.scratch, "genpaths"), tag="genpaths", extra_q=[(ctx.gen_dir, "PqGen")])
    for c, m, i in zip(cases, res, impls):
        mo = C.parse_coq(m) if m is not None else None
        ctx.correspondence("regenerated text (paths2coq, kernel evaluation) ~ real function", c, mo, i)


# ----------------------------------------------------------------------------- operations on twin datasets (harness/twins.py), C08 / C14
def twin_partition_answer(pf, case):
    """what a handle shows of the partition column of a partition twin: (id, cell) pairs, the labels, the dtype of the column"""
    import json
    out = pf.to_pandas()
    col = case["col"] if case.get("scheme", "hive") == "hive" else "dir0"
    if col not in out.columns:
        return {"columns": [str(c) for c in out.columns]}
    return {"cells": sorted([int(i), canon(v)] for i, v in zip(out["id"], out[col])),
            "labels": sorted(json.dumps(canon(v)) for v in pf.cats.get(col, [])), "scheme": pf.file_scheme,
            "categories_dtype": str(out[col].dtype.categories.dtype) if isinstance(out[col].dtype, pd.CategoricalDtype) else str(out[col].dtype)}


def twin_files(root):
    return [os.path.join(root, f) for f in tree_files(root)]
