"""handleprog - PROGRAMS over live ParquetFile handles, each observer answer compared with a FRESH handle.

Reusable by every property that talks about "the same handle" (C06, C17, C04, C08, ...): the caller supplies extra
observers (name -> function(pf, args) -> JSON-able canonical answer); the module supplies the dataset generator
(row groups of UNEQUAL sizes, columns whose dtype is decided by the null statistics with the nulls confined to some
row groups, simple file or hive directory, optional partition column), the program generator and the runner.

A program is pure data (a replay needs nothing else):
    ["obs",    h, name, args]                       observer on live handle h
    ["derive", h, kind, args]                       kind: slice [a,b,k] | pick i | pickle | copy | deepcopy  -> new handle
    ["mutate", h, kind, args]                       kind: append {sizes} | append_fail {sizes, fail_after}
                                                          remove {idx} (hive; on a simple file it is the refused, failed variant)
The runner keeps, for every live handle, the RECIPE that defines what a fresh handle of the same ground state is:
(snapshot of the dataset at the epoch the handle's metadata was last (re)read or edited, the selections applied since).
After every observer call:   answer(live handle) == answer(fresh open of that snapshot + the same selections)
- this is exactly `run = run_spec` of coq/theories/Dataset/Handle.v (theorem run_refines_spec) on the real code - and
after every step the handle's internal views agree (len(pf) - from fmd - equals len(pf.row_groups)).
Also checked on every step (the tie of the regenerated inventory, translators/handle2coq.py, to the running code):
the attributes found in pf.__dict__ and the dynamic fields found on pf.fmd are all in the inventory.

Outside the quantifier (dropped from the store, counted): handles of an earlier epoch after a successful remove_row_groups (their files are gone); edits
through a handle that is a selection or that is not at the current epoch of the dataset on disk.
"""
import copy
import os
import pickle
import shutil
import traceback
import warnings

import numpy as np
import pandas as pd


# ---------------------------------------------------------------------------------------------
# datasets

def gen_dataset(rng, force=None):
    force = force or {}
    nrg = force.get("nrg", rng.choice([2, 3, 3, 4, 4, 5]))
    pool = [1, 2, 3, 4, 5, 7, 9, 12]
    sizes = force.get("sizes") or [rng.choice(pool) for _ in range(nrg)]
    if len(set(sizes)) == 1 and len(sizes) > 1:
        sizes[0] += 2                       # unequal sizes: prefix sums of a selection differ from the parent's
    scheme = force.get("scheme", rng.choice(["simple", "simple", "hive", "hive"]))
    part = bool(force.get("part", scheme == "hive" and rng.random() < 0.6))
    k = len(sizes)
    # row groups in which the statistics-typed columns hold a NULL (possibly none, never all when k > 1)
    nullrgs = force.get("nullrgs")
    if nullrgs is None:
        nullrgs = sorted(rng.sample(range(k), rng.choice([0, 1, 1, 1, 2]) if k > 1 else rng.choice([0, 1])))
        if len(nullrgs) == k and k > 1:
            nullrgs = nullrgs[:-1]
    return {"sizes": sizes, "scheme": scheme, "part": part, "nullrgs": nullrgs, "pandas_nulls": force.get("pandas_nulls", rng.random() < 0.75),
            "index": force.get("index", rng.choice([None, None, "id"])), "seed": rng.randrange(1 << 30),
            "given": force.get("given", rng.random() < 0.15)}


def frame(ds, start, sizes, nullrgs=(), pshift=0):
    """rows start .. start+sum(sizes)-1; row group j of this frame holds a NULL in the object columns iff j in nullrgs"""
    n = sum(sizes)
    ids = np.arange(start, start + n, dtype="int64")
    o = [int(i) * 3 - 5 for i in ids]
    ob = [bool(i % 2) for i in ids]
    pos = 0
    for j, s in enumerate(sizes):
        if j in nullrgs and s:
            o[pos] = None
            ob[pos + s - 1] = None
        pos += s
    df = pd.DataFrame({"id": ids, "g": ids.astype("float64") / 4, "s": ["r%04d" % i for i in ids],
                       "o": pd.Series(o, dtype="object"), "ob": pd.Series(ob, dtype="object"),
                       "c": pd.Categorical([["x", "y", "z"][i % 3] for i in ids], categories=["x", "y", "z"]),
                       "t": pd.Series(pd.to_datetime(1_600_000_000 + ids, unit="s")).dt.tz_localize("UTC").dt.tz_convert("Europe/Berlin")})
    if ds["part"]:
        # spaced labels: appended rows (pshift != 0) bring NEW partition values that sort BETWEEN the existing ones
        df["p"] = [(int(i) % 3) * 3 + pshift for i in ids]
    return df


def offsets(sizes):
    out, acc = [], 0
    for s in sizes:
        out.append(acc)
        acc += s
    return out


def build(ds, root):
    import fastparquet
    df = frame(ds, 0, ds["sizes"], ds["nullrgs"])
    kw = {"row_group_offsets": offsets(ds["sizes"]), "object_encoding": {"o": "int", "ob": "bool", "s": "utf8"}, "stats": True}
    if ds["index"]:
        df = df.set_index(ds["index"])
        kw["write_index"] = True
    if ds["scheme"] == "simple":
        path = os.path.join(root, "ds.parquet")
        fastparquet.write(path, df, **kw)
    else:
        path = os.path.join(root, "ds")
        fastparquet.write(path, df, file_scheme="hive", partition_on=["p"] if ds["part"] else [], **kw)
    return path


def open_ds(ds, path):
    import fastparquet
    if ds.get("given"):
        # the constructor-level dtypes= override (an OPTION of the handle: every derived handle and every fresh reference has it)
        d = dict(fastparquet.ParquetFile(path, pandas_nulls=ds["pandas_nulls"])._dtypes([]))
        d = {k: v for k, v in d.items() if k != "p"}
        if "g" in d:
            d["g"] = np.dtype("float32")
        if "id" in d:
            d["id"] = np.dtype("float64")
        # (the override must not depend on the epoch at which the handle is opened: the statistics-typed columns get their
        #  nullable / float dtype whatever the null counts of the moment say)
        d["o"] = pd.Int64Dtype() if ds["pandas_nulls"] else np.dtype("float64")
        d["ob"] = pd.BooleanDtype() if ds["pandas_nulls"] else np.dtype("float64")
        return fastparquet.ParquetFile(path, pandas_nulls=ds["pandas_nulls"], dtypes=d)
    return fastparquet.ParquetFile(path, pandas_nulls=ds["pandas_nulls"])


# ---------------------------------------------------------------------------------------------
# observers: name -> function(pf, args) -> canonical JSON-able answer

def _ids(df):
    if "id" in df.columns:
        return [int(v) for v in df["id"].tolist()]
    if "id" in df.index.names:
        return [int(v) for v in df.index.get_level_values("id").tolist()]
    if "s" in df.columns:
        return [int(str(v)[1:]) for v in df["s"].tolist()]
    return ["n", len(df)]


def frame_obs(df):
    idx = [] if isinstance(df.index, pd.RangeIndex) else [str(n) for n in df.index.names]
    cells = {}
    for c in ("o", "ob", "p", "c"):
        if c in df.columns:
            cells[c] = [None if pd.isna(v) else (v if isinstance(v, str) else float(v)) for v in df[c].tolist()]
    return {"columns": [str(c) for c in df.columns], "index": idx, "dtypes": {str(c): str(df[c].dtype) for c in df.columns},
            "index_dtype": None if not idx else str(df.index.dtype), "rows": _ids(df), "cells": cells,
            "categories": {str(c): [repr(x) for x in df[c].cat.categories] for c in df.columns if isinstance(df[c].dtype, pd.CategoricalDtype)}}


def _read_kw(args):
    kw = {}
    if args and args.get("row_filter"):
        kw["row_filter"] = True
    for k in ("columns", "index", "categories", "dtypes", "filters"):
        if args and args.get(k) is not None:
            v = args[k]
            if k == "filters":
                v = [tuple(f) for f in v]
            kw[k] = v
    return kw


def _stats(pf):
    st = pf.statistics
    return {k: {c: [repr(x) for x in v] for c, v in sorted(st[k].items())} for k in sorted(st)}


def _info(pf):
    i = dict(pf.info)
    i.pop("name", None)
    return {"info": i, "str_rows_row_groups": str(pf).split("'rows'")[-1]}


def _merge_input(pf, a):
    import fastparquet
    other = pickle.loads(pickle.dumps(pf))       # a second, independent handle of the same dataset
    ins = [pf, other] if (a or {}).get("two", True) else [pf]
    m = fastparquet.ParquetFile(ins)
    return {"row_groups": len(m.row_groups), "rows": int(m.count()), "columns": list(m.columns)}


def _spc(pf, a):
    from fastparquet.api import sorted_partitioned_columns
    out = sorted_partitioned_columns(pf, filters=[tuple(f) for f in a["filters"]] if a and a.get("filters") else None)
    return {str(c): {k: [repr(x) for x in v] for k, v in d.items()} for c, d in sorted(out.items())}


def filtered_observers(rng, h, total):
    """observers that take filters (row-group pruning, row filtering): they walk the handle's row groups and statistics"""
    k = rng.choice([1, 2, 3, 5, max(1, total // 2)])
    flt = [["id", rng.choice(["<", ">="]), k]]
    return [["obs", h, "sorted_partitioned_columns", {"filters": flt}], ["obs", h, "to_pandas", {"filters": flt, "row_filter": True}],
            ["obs", h, "to_pandas", {"filters": flt}], ["obs", h, "iter", {"filters": flt}], ["obs", h, "count_filtered", {"filters": flt}],
            ["obs", h, "head", {"n": 4, "filters": flt}], ["obs", h, "to_pandas_mask", {"k": rng.choice([1, 2, k])}]]


OBSERVERS = {
    "info": lambda pf, a: _info(pf),
    "count": lambda pf, a: int(pf.count()),
    "len": lambda pf, a: int(len(pf)),
    "row_group_rows": lambda pf, a: [int(rg.num_rows) for rg in pf.row_groups],
    "columns": lambda pf, a: [list(pf.columns), list(pf.cats)],
    "dtypes": lambda pf, a: {str(k): _dts(v) for k, v in pf._dtypes(None).items()},
    "cats": lambda pf, a: {str(k): [repr(x) for x in v] for k, v in pf.cats.items()},
    "categories": lambda pf, a: {str(k): repr(v) for k, v in dict(pf.categories).items()},
    "statistics": lambda pf, a: _stats(pf),
    "index": lambda pf, a: list(pf._get_index(None) or []),
    "head": lambda pf, a: frame_obs(pf.head(a["n"], **_read_kw(a))),
    "to_pandas": lambda pf, a: frame_obs(pf.to_pandas(**_read_kw(a))),
    # custom row mask (a boolean array over all rows of the handle): only the first k rows
    "to_pandas_mask": lambda pf, a: frame_obs(pf.to_pandas(row_filter=np.arange(sum(int(rg.num_rows) for rg in pf.row_groups)) < a["k"])),
    "iter": lambda pf, a: [frame_obs(df)["rows"] for df in pf.iter_row_groups(**_read_kw(a))],
    "sorted_partitioned_columns": lambda pf, a: _spc(pf, a),
    "count_filtered": lambda pf, a: int(pf.count(filters=[tuple(f) for f in a["filters"]])),
    # the handle used as INPUT of ParquetFile([...]) (what fastparquet.writer.merge does): an observer-like use - the inputs
    # must come out untouched; the answer is what the combined handle reports
    "as_merge_input": lambda pf, a: _merge_input(pf, a),
    "pickled_twin": lambda pf, a: (lambda t: {"len": len(t), "rows": [int(rg.num_rows) for rg in t.row_groups], "count": int(t.count())})(pickle.loads(pickle.dumps(pf))),
}
# observers that read attribute `a` of the inventory first (used to aim programs at an offending (operation, attribute) pair)
READS_ATTR = {"_statistics": ["statistics"], "_categories": ["categories", "to_pandas"], "_kvm": ["to_pandas"], "_pdm": ["index", "to_pandas"],
              "row_groups": ["count", "row_group_rows"], "cats": ["cats", "columns"], "dtypes": ["dtypes", "columns"], "_base_dtype": ["dtypes", "to_pandas"],
              "tz": ["to_pandas"], "_columns_dtype": ["to_pandas"], "origin": ["dtypes", "to_pandas", "head"]}


def ask(observers, pf, name, args):
    try:
        with warnings.catch_warnings():
            warnings.simplefilter("ignore")
            return ["ok", observers[name](pf, args)]
    except Exception as e:      # noqa
        return ["raise", type(e).__name__, str(e)[:160]]


# ---------------------------------------------------------------------------------------------
# programs

def gen_slice(rng, n):
    r = rng.random()
    if r < 0.25:
        return [rng.choice([1, 2, n - 1, -2, -1]), None, None]              # suffix (non-prefix)
    if r < 0.4:
        return [None, None, -1]                                              # reversed
    if r < 0.55:
        return [rng.choice([0, 1]), None, 2]                                 # strided
    if r < 0.65:
        return [rng.choice([n - 1, -1, n]), rng.choice([0, None]), -1 if rng.random() < 0.7 else -2]
    if r < 0.8:
        return [None, rng.choice([1, 2, n - 1, -1]), None]                   # prefix
    if r < 0.9:
        return [rng.choice([n, n + 2, 1]), rng.choice([n + 3, 1, 0]), None]  # possibly empty
    return [rng.choice([None, 0, 1, -3]), rng.choice([None, n, -1]), rng.choice([None, 1, 2, 3, -1])]


def gen_read_args(rng, ds, allow_dtypes=True):
    a = {}
    cols = ["id", "g", "s", "o", "ob", "c", "t"] + (["p"] if ds["part"] else [])
    if ds["index"]:
        cols = [c for c in cols if c != ds["index"]]
    r = rng.random()
    if r < 0.25:
        sub = rng.sample(cols, rng.randint(1, len(cols)))
        if "id" not in sub and ds["index"] != "id":
            sub.append("id")
        a["columns"] = sub
    r = rng.random()
    if r < 0.15:
        a["index"] = False
    elif r < 0.25 and (a.get("columns") is None or "s" in a["columns"]):
        a["index"] = "s"
    r = rng.random()
    if r < 0.15:
        a["categories"] = []
    elif r < 0.25:
        a["categories"] = ["c"]
    return a


def gen_obs(rng, ds, h, nrows_hint):
    name = rng.choice(["info", "info", "count", "len", "row_group_rows", "columns", "dtypes", "cats", "categories", "statistics", "statistics",
                       "index", "head", "head", "head", "to_pandas", "to_pandas", "iter", "pickled_twin"])
    args = None
    if name == "head":
        args = gen_read_args(rng, ds)
        args["n"] = rng.choice([0, 1, 2, 3, 4, 5, 6, 7, 8, 9, 10, 12, 13, 15, 20, nrows_hint, max(0, nrows_hint - 1)])
    elif name in ("to_pandas", "iter"):
        args = gen_read_args(rng, ds)
    return ["obs", h, name, args]


def gen_shared_rg_program(rng, ds):
    """the SAME row group read through two handles whose derived state differs (a selection re-derives the partition label
    lists from its own paths; the row-group structs are shared by the shallow metadata copy): selection then parent, parent then
    selection, head then full read, iter_row_groups then full read - partition column VALUES are part of every answer"""
    nrg = len(ds["sizes"]) * (3 if ds["part"] else 1)          # a partitioned write splits every row group by partition value
    picks = sorted({rng.randrange(nrg), rng.randrange(nrg), nrg - 1, 1})
    kind = rng.choice(["parent-then-selection", "selection-then-parent", "head-then-full", "iter-then-full"])
    rd = lambda h: ["obs", h, "to_pandas", None]               # noqa
    if kind == "parent-then-selection":
        prog, h = [rd(0)], 1
        for j in picks:
            prog += [["derive", 0, "pick", j], rd(h), ["obs", h, "iter", None]]
            h += 1
        prog += [["derive", 0, "slice", [1, None, 2]], rd(h), ["derive", 0, "slice", [None, None, -1]], rd(h + 1)]
    elif kind == "selection-then-parent":
        prog, h = [], 1
        for j in picks:
            prog += [["derive", 0, "pick", j], rd(h)]
            h += 1
        prog += [["derive", 0, "slice", [2, None, None]], ["obs", h, "head", {"n": 2}], rd(0), ["obs", 0, "iter", None]] + [rd(k) for k in range(1, h + 1)]
    elif kind == "head-then-full":
        prog = [["obs", 0, "head", {"n": rng.choice([1, 2, 3])}], rd(0), ["obs", 0, "head", {"n": sum(ds["sizes"])}], ["derive", 0, "pickle", None], rd(1)]
    else:
        prog = [["obs", 0, "iter", None], rd(0), ["derive", 0, "pick", picks[-1]], rd(1), ["obs", 0, "iter", {"columns": ["id", "p"] if ds["part"] else ["id"]}]]
    return prog


def gen_program(rng, ds, nsteps=None, aim=None):
    """aim = (operation name, attribute) of an inventory offender: the program starts with an observer that fills the
    attribute, applies the operation, and asks again"""
    nsteps = nsteps or rng.randint(5, 12)
    prog = []
    nh = 1                          # live handles (upper bound; the runner skips steps on dead ones)
    nrg = len(ds["sizes"])
    total = sum(ds["sizes"])
    base = 1000
    if aim is not None:
        op, attr = aim
        first = [["obs", 0, o, ({"n": 3} if o == "head" else None)] for o in READS_ATTR.get(attr, ["info", "statistics", "head", "to_pandas"])]
        prog += first
        if op not in ("pickle", "copy", "deepcopy") and "getitem" not in op and "#" not in op and "!" not in op:
            # an OBSERVER that mutates the cached object `attr`: read it, run the filter-taking observers, read it again
            base_obs = [["obs", 0, o, ({"n": 3} if o == "head" else None)] for o in ("statistics", "row_group_rows", "count", "info", "to_pandas", "cats")]
            prog = base_obs + filtered_observers(rng, 0, total) + [["obs", 0, "as_merge_input", {"two": True}], ["obs", 0, "as_merge_input", {"two": False}]] \
                + base_obs + [["obs", 0, "pickled_twin", None], ["obs", 0, "len", None], ["derive", 0, "slice", [None, None, None]], ["obs", 1, "to_pandas", None],
                              ["derive", 0, "pickle", None], ["obs", 2, "to_pandas", None], ["derive", 0, "pick", 0], ["obs", 3, "head", {"n": 2}]]
            return prog
        if "getitem" in op:
            clean = [j for j in range(nrg) if j not in ds["nullrgs"]]
            if clean and rng.random() < 0.7:
                prog.append(["derive", 0, "pick", rng.choice(clean)])      # a selection without the row groups that hold NULLs
            else:
                prog.append(["derive", 0, "slice", rng.choice([[1, None, None], [None, None, -1], [1, None, 2]])])
            nh += 1
            tgt = 1
        elif op in ("pickle", "copy", "deepcopy"):
            prog.append(["derive", 0, op, None])
            nh += 1
            tgt = 1
        elif "fails" in op:
            prog.append(["mutate", 0, "append_fail", {"sizes": [3, 2], "fail_after": 1, "start": base}])
            tgt = 0
        elif "remove" in op:
            prog.append(["mutate", 0, "remove", {"idx": [0]}])
            tgt = 0
        else:
            prog.append(["mutate", 0, "append", {"sizes": [4], "start": base, "nullrgs": [0], "pshift": 1}])
            tgt = 0
            base += 100
        prog += [[s[0], tgt] + s[2:] for s in first] + [["obs", tgt, "head", {"n": 4}], ["obs", tgt, "pickled_twin", None], ["obs", tgt, "info", None]]
        return prog
    asked = {}
    for _ in range(nsteps):
        r = rng.random()
        h = rng.randrange(nh)
        if r < 0.05:
            prog.append(["obs", h, "as_merge_input", {"two": rng.random() < 0.7}])
            # ... and everything derived from the input handle afterwards must still work
            prog.append(["derive", h, rng.choice(["pickle", "copy", "deepcopy", "slice"]), None])
            if prog[-1][2] == "slice":
                prog[-1][3] = [None, None, None]
            nh += 1
            prog.append(["obs", nh - 1, "to_pandas", None])
        elif r < 0.10:
            fo = filtered_observers(rng, h, total)
            prog += rng.sample(fo, 2)
        elif r < 0.55:
            prog.append(gen_obs(rng, ds, h, total))
            asked.setdefault(h, []).append(prog[-1])
        elif r < 0.8:
            k = rng.random()
            if k < 0.6:
                prog.append(["derive", h, "slice", gen_slice(rng, nrg)])
            elif k < 0.7:
                prog.append(["derive", h, "pick", rng.choice([0, 1, -1, nrg - 1])])
            else:
                prog.append(["derive", h, rng.choice(["pickle", "copy", "deepcopy"]), None])
            nh += 1
            prog.append(["obs", nh - 1, "head", {"n": rng.choice([1, 2, 3, 4, 5, 6, 7, 8, 9, 10, 12])}])
            prog.append(["obs", nh - 1, rng.choice(["statistics", "info", "to_pandas", "dtypes"]), None])
        else:
            k = rng.random()
            sizes = [rng.choice([1, 2, 3, 5]) for _ in range(rng.choice([1, 1, 2, 3]))]
            if k < 0.45:
                prog.append(["mutate", h, "append", {"sizes": sizes, "start": base, "nullrgs": [0] if rng.random() < 0.4 else [],
                                                    "pshift": rng.choice([0, 0, 1, 2, -1]),
                                                    # (multi-file datasets only; ignored for a single file)
                                                    "sort_pnames": rng.random() < 0.25, "sort_key": rng.choice([None, None, None, "num_rows", "neg_num_rows", "path"])}])
                prog += [list(o) for o in rng.sample(asked.get(h, []), min(3, len(asked.get(h, []))))] + [["obs", h, "to_pandas", None]]
                base += 100
                nrg += len(sizes)
                total += sum(sizes)
            elif k < 0.75:
                prog.append(["mutate", h, "append_fail", {"sizes": sizes + [2], "fail_after": rng.randint(0, len(sizes)), "start": base}])
                base += 100
                prog += [["obs", h, "pickled_twin", None], ["obs", h, "info", None]]
            else:
                prog.append(["mutate", h, "remove", {"idx": sorted(set(rng.sample(range(max(1, nrg)), min(nrg, rng.choice([1, 1, 2]))))),
                                                    "sort_pnames": rng.random() < 0.3}])
                prog += [list(o) for o in rng.sample(asked.get(h, []), min(3, len(asked.get(h, []))))] + [["obs", h, "to_pandas", None]]
    # every program ends by asking every live handle the cheap questions
    for h in range(nh):
        prog.append(["obs", h, "info", None])
        prog.append(["obs", h, "pickled_twin", None])
        prog.append(["obs", h, "head", {"n": rng.choice([3, 5, 8, total])}])
    return prog


# ---------------------------------------------------------------------------------------------
# runner

SORT_KEYS = {"num_rows": lambda rg: rg.num_rows, "neg_num_rows": lambda rg: -rg.num_rows,
             "path": lambda rg: rg.columns[0].file_path or ""}


class _Boom(Exception):
    pass


def _failing_frames(ds, args):
    k = args["fail_after"]
    start = args["start"]
    for j, s in enumerate(args["sizes"]):
        if j >= k:
            raise _Boom("the data source fails after %d row group(s)" % k)
        yield frame(ds, start, [s])
        start += s


def _copytree(src, dst):
    if os.path.isdir(src):
        shutil.copytree(src, dst)
    else:
        os.makedirs(dst, exist_ok=True)
        shutil.copy2(src, os.path.join(dst, os.path.basename(src)))


def _snap_path(ds, snapdir):
    return os.path.join(snapdir, "ds.parquet") if ds["scheme"] == "simple" else snapdir


def _select(pf, recipe):
    for kind, arg in recipe:
        pf = pf[slice(*arg)] if kind == "slice" else pf[arg]
    return pf


def run_program(ds, root, prog, observers=None, inventory=None):
    """-> dict(problems=[(what, step index, text)], steps=[...], skipped=n, counts={})   `root`: an empty scratch directory"""
    observers = dict(OBSERVERS, **(observers or {}))
    out = {"problems": [], "trace": [], "skipped": 0, "counts": {}, "inventory_unknown": []}

    def count(k):
        out["counts"][k] = out["counts"].get(k, 0) + 1
    live = os.path.join(root, "live")
    os.makedirs(live)
    path = build(ds, live)
    snaps = [os.path.join(root, "epoch0")]
    _copytree(path, snaps[0])
    epoch = 0
    pf0 = open_ds(ds, path)
    # handle records: pf, epoch, recipe (selections since the last (re)read of the metadata), alive
    H = [{"pf": pf0, "epoch": 0, "recipe": [], "alive": True}]
    known = set(inventory["known_attrs"]) if inventory else None
    fmd_known = set(x[4:-1] for x in inventory["fmd_memos"]) if inventory else None

    def problem(what, k, text):
        out["problems"].append([what, k, text])

    def check_views(k, h, after):
        pf = h["pf"]
        a, b = len(pf), len(pf.row_groups)
        if a != b:
            problem("views", k, "after %s: len(pf) = %d (from fmd) but the handle lists %d row groups" % (after, a, b))
        if known is not None:
            unk = sorted(set(pf.__dict__) - known)
            dyn = sorted(str(x) for x in pf.fmd.contents if isinstance(x, str) and x != "i32list" and x not in fmd_known)
            if unk or dyn:
                out["inventory_unknown"].append([k, unk, dyn])

    for k, st in enumerate(prog):
        kind, hi = st[0], st[1]
        if hi >= len(H) or not H[hi]["alive"]:
            out["skipped"] += 1
            continue
        h = H[hi]
        pf = h["pf"]
        if kind == "obs":
            name, args = st[2], st[3]
            got = ask(observers, pf, name, args)
            ref_pf = _select(open_ds(ds, _snap_path(ds, snaps[h["epoch"]])), h["recipe"])
            want = ask(observers, ref_pf, name, args)
            count("obs." + name)
            if got[0] == "raise":
                count("obs.raises:%s:%s" % (name, got[1]))
            out["trace"].append([k, name, got[0]])
            if h["recipe"] and got[0] == "ok" and name in ("dtypes", "to_pandas", "head") and not (args or {}).get("dtypes") \
                    and (args or {}).get("categories") is None:
                root_pf = open_ds(ds, _snap_path(ds, snaps[h["epoch"]]))
                rd = {str(c): _dts(v) for c, v in root_pf._dtypes(None).items()}
                mine = got[1] if name == "dtypes" else got[1]["dtypes"]
                bad = {c: (v, rd[c]) for c, v in mine.items() if c in rd and c not in root_pf.cats and _dt_norm(v) != _dt_norm(rd[c])}
                if bad:
                    problem("inherit", k, "%s on a selection (recipe %s): dtypes %s differ from those of the handle it was selected from (column: (selection, parent)): %s" % (
                        name, h["recipe"], name, bad))
            if got != want:
                problem("answer", k, "%s(%s) on live handle %d (recipe %s, epoch %d): %s; a fresh handle of the same state: %s" % (
                    name, args, hi, h["recipe"], h["epoch"], _short(got), _short(want)))
            check_views(k, h, "observer %s" % name)
        elif kind == "derive":
            dk, arg = st[2], st[3]
            try:
                if dk == "slice":
                    new = pf[slice(*arg)]
                    rec = h["recipe"] + [("slice", arg)]
                elif dk == "pick":
                    new = pf[arg]
                    rec = h["recipe"] + [("pick", arg)]
                elif dk == "pickle":
                    new, rec = pickle.loads(pickle.dumps(pf)), list(h["recipe"])
                elif dk == "copy":
                    new, rec = copy.copy(pf), list(h["recipe"])
                else:
                    new, rec = copy.deepcopy(pf), list(h["recipe"])
            except (IndexError, ValueError) as e:
                # the same selection on a fresh handle must be refused the same way
                try:
                    _select(open_ds(ds, _snap_path(ds, snaps[h["epoch"]])), h["recipe"] + [(dk, arg)])
                    problem("answer", k, "selection %s raises %s on the live handle only" % (arg, type(e).__name__))
                except (IndexError, ValueError):
                    pass
                H.append({"pf": None, "epoch": 0, "recipe": [], "alive": False})
                count("derive.refused")
                continue
            H.append({"pf": new, "epoch": h["epoch"], "recipe": rec, "alive": True})
            count("derive." + dk)
            check_views(k, H[-1], "derivation %s" % dk)
            check_views(k, h, "derivation %s (parent)" % dk)
        elif kind == "mutate":
            mk, arg = st[2], st[3]
            if h["recipe"] or h["epoch"] != epoch:
                out["skipped"] += 1
                count("mutate.skipped (selection or stale epoch)")
                continue
            twins = [t for t in H if t is not h and t["alive"] and t["pf"].fmd is pf.fmd]
            try:
                if mk == "append":
                    kw = {}
                    if arg.get("sort_pnames"):
                        kw["sort_pnames"] = True
                    if arg.get("sort_key"):
                        kw["sort_key"] = SORT_KEYS[arg["sort_key"]]
                    pf.write_row_groups(frame(ds, arg["start"], arg["sizes"], arg.get("nullrgs", ()), arg.get("pshift", 0)),
                                        row_group_offsets=offsets(arg["sizes"]), **kw)
                    ok = True
                elif mk == "append_fail":
                    try:
                        pf.write_row_groups(_failing_frames(ds, arg))
                        problem("harness", k, "the failing data source did not make write_row_groups raise")
                        ok = True
                    except _Boom:
                        ok = False
                elif mk == "remove":
                    rgs = [pf.row_groups[i] for i in arg["idx"] if i < len(pf.row_groups)]
                    if not rgs:
                        out["skipped"] += 1
                        continue
                    try:
                        pf.remove_row_groups(rgs, sort_pnames=bool(arg.get("sort_pnames")))
                        ok = True
                    except ValueError:
                        ok = False           # simple file, or a part file shared with row groups that stay: refused before any edit
                        mk = "remove_refused"
                else:
                    raise AssertionError(mk)
            except Exception as e:      # noqa
                problem("mutator", k, "%s raised %s: %s" % (mk, type(e).__name__, str(e)[:200]))
                h["alive"] = False
                continue
            count("mutate." + mk)
            if ok:
                epoch += 1
                snaps.append(os.path.join(root, "epoch%d" % epoch))
                _copytree(path, snaps[-1])
                h["epoch"] = epoch
                for t in twins:
                    # (since fix: __getstate__ hands on its own shallow copy of fmd, no twin shares the object; one that does
                    #  stays in the store - its answers are compared with its own epoch like everybody else's)
                    count("copy.copy twin sharing the edited fmd object")
                if mk == "remove" or (mk == "append" and arg.get("sort_pnames") and ds["scheme"] != "simple"):
                    # (files removed / part files renamed: the files handles of an earlier epoch point to may be gone)
                    for t in H:
                        if t["alive"] and t["epoch"] < epoch:
                            t["alive"] = False
                            count("dropped: handle of an earlier epoch after remove_row_groups / renamed part files")
                # the edit itself: a fresh open of the dataset now = the edited handle
            else:
                # a failed edit: the dataset reads as before (C18/C19's subject, needed here as the reference)
                pass
            check_views(k, h, "mutator %s" % mk)
        else:
            raise AssertionError(st)
    return out


def _dts(v):
    """dtype text of an entry of ParquetFile._dtypes() (np.float64() stands for float64 there)"""
    if isinstance(v, str):
        return v
    try:
        return str(np.dtype(v))
    except Exception:       # noqa  (pandas extension dtypes)
        return str(v)


def _dt_norm(s):
    s = str(s)
    return {"str": "object", "string": "object", "<U0": "object"}.get(s, s)


def _short(ans):
    s = repr(ans)
    return s if len(s) < 700 else s[:700] + "..."


def classify(ds, prog, problems):
    """classification dict for ctx.fail: which observer disagreed, after which kinds of operations"""
    what, k, _ = problems[0]
    st = prog[k]
    before = [s[2] for s in prog[:k] if s[0] in ("derive", "mutate")]
    return {"component": "handle-program", "what": what, "observer": st[2] if st[0] == "obs" else st[0] + ":" + st[2], "scheme": ds["scheme"],
            "partitioned": ds["part"], "after_mutation": any(b in ("append", "append_fail", "remove") for b in before),
            "after_failed_append": "append_fail" in before, "after_selection": any(b in ("slice", "pick") for b in before)}


def minimise(ds, prog, mkroot, observers=None, inventory=None, budget=16):
    """greedy step removal keeping the first problem's kind (indices of later steps are handle numbers: only observers and
    trailing steps are removed, so that handle numbering is preserved)"""
    def fails(p):
        root = mkroot()
        try:
            r = run_program(ds, root, p, observers, inventory)
            return bool(r["problems"])
        except Exception:       # noqa
            return False
        finally:
            shutil.rmtree(root, ignore_errors=True)
    cur = list(prog)
    i = len(cur) - 1
    while i >= 0 and budget > 0:
        if cur[i][0] == "obs":
            cand = cur[:i] + cur[i + 1:]
            budget -= 1
            if fails(cand):
                cur = cand
        i -= 1
    return cur


def run_job(job):
    """worker entry (harness.common.pmap): job = dict(ds, progs, observers_module=None, inventory)"""
    import tempfile
    warnings.filterwarnings("ignore")
    res = []
    for prog in job["progs"]:
        root = tempfile.mkdtemp(prefix="verif-hp-", dir="/tmp")
        try:
            r = run_program(job["ds"], root, prog, None, job.get("inventory"))
            r.pop("trace", None)
            if r["problems"] and sum(1 for x in res if x["result"] and x["result"]["problems"]) < 1:
                cnt = [0]

                def mk():
                    cnt[0] += 1
                    return tempfile.mkdtemp(prefix="verif-hp-", dir="/tmp")
                small = minimise(job["ds"], prog, mk, None, job.get("inventory"))
                root2 = tempfile.mkdtemp(prefix="verif-hp-", dir="/tmp")
                try:
                    r2 = run_program(job["ds"], root2, small, None, job.get("inventory"))
                finally:
                    shutil.rmtree(root2, ignore_errors=True)
                if r2["problems"]:
                    r2.pop("trace", None)
                    r, prog = r2, small
            res.append({"prog": prog, "result": r, "error": None})
        except Exception as e:      # noqa
            res.append({"prog": prog, "result": None, "error": "%s: %s\n%s" % (type(e).__name__, e, traceback.format_exc()[-1500:])})
        finally:
            shutil.rmtree(root, ignore_errors=True)
    return {"ds": job["ds"], "results": res}


def replay_case(case, inventory=None):
    """re-run a recorded (dataset, program) on the real code; prints what happens; 1 if it still fails"""
    import json
    import tempfile
    warnings.filterwarnings("ignore")
    root = tempfile.mkdtemp(prefix="verif-hp-replay-", dir="/tmp")
    try:
        print("dataset: %s" % json.dumps(case["ds"]))
        for k, st in enumerate(case["prog"]):
            print("  step %d: %s" % (k, json.dumps(st)))
        r = run_program(case["ds"], root, case["prog"], None, inventory)
        for what, k, text in r["problems"]:
            print("PROPERTY FAILS (%s) at step %d: %s" % (what, k, text))
        if not r["problems"]:
            print("every observer answer equals the answer of a fresh handle of the same state")
        return 1 if r["problems"] else 0
    finally:
        shutil.rmtree(root, ignore_errors=True)


# ---------------------------------------------------------------------------------------------
# the stream a property check calls

def _winit():
    from harness import common as C
    warnings.filterwarnings("ignore")
    C.use_shadow()


def stream(ctx, nds, nprog, register_obligations=True, stream_name="handle-programs"):
    """translator -> (optionally) the regenerated proof obligations -> aimed + random programs on the real code.
    Failing programs are reported with ctx.fail (case = {"handle_program": {"ds", "prog"}}); returns the inventory used."""
    import json
    from harness import common as C
    from translators import handle2coq
    res = handle2coq.run(C.REPO, ctx.gen_dir)
    pinned = json.load(open(os.path.join(C.VERIF, "harness", "handle_inventory_pinned.json")))
    aims = []
    if res["status"] == "translated":
        inv = res["inventory"]
        ok, out = C.coqc(res["file"], extra_q=[(ctx.gen_dir, "PqGen")])
        if not ok:
            ctx.notes.append("translator_fallback: handle2coq: generated file rejected by coqc: %s" % out[-300:])
            ctx.extra.setdefault("translators", {})["handle2coq"] = "translator_fallback"
            inv = pinned
        else:
            offs = handle2coq.offenders(inv)
            aims = [(o, a) for o, a, _ in offs]
            ctx.extra.setdefault("translators", {})["handle2coq"] = {
                "status": "translated", "memoised_attributes": inv["memos"], "lazy": inv["lazy"], "cached_on_fmd": inv["fmd_memos"],
                "context_attributes": inv["ctx"], "derivations": [o["name"] for o in inv["derivs"]], "mutators": [o["name"] for o in inv["mutators"]],
                "offenders": [list(o) for o in offs],
                "differs_from_pinned": sorted(k for k in ("memos", "ctx", "fmd_memos", "derivs", "mutators", "preserved") if inv[k] != pinned[k])}
            if register_obligations:
                ctx.coq_file(os.path.join(C.COQ, "genproofs", "GenHandleProofs.v"), extra_q=[(ctx.gen_dir, "PqGen")])
            elif offs:
                ctx.obligation("handle inventory regenerated from api.py/writer.py satisfies inventory_ok (proved sufficient for coherence: C17 gen_inventory_ok)",
                               False, "; ".join("%s / %s: %s" % o for o in offs))
    else:
        ctx.notes.append("translator_fallback: handle2coq: %s" % res["reason"])
        ctx.extra.setdefault("translators", {})["handle2coq"] = "translator_fallback: " + res["reason"]
        inv = pinned
    rng = ctx.rng
    jobs = []
    corners = [{"scheme": "simple", "sizes": [5, 3, 7, 2], "nullrgs": [0]}, {"scheme": "hive", "part": True, "sizes": [4, 2, 6], "nullrgs": [1]},
               {"scheme": "hive", "part": False, "sizes": [9, 1, 3, 5], "nullrgs": [0, 2]}, {"scheme": "simple", "sizes": [1, 12, 2], "nullrgs": [], "pandas_nulls": False}]
    # corpus first: minimised programs that failed on trees with a defect of each offender class (corpus/<ID>/hp_*.json)
    cdir = os.path.join(C.VERIF, "corpus", ctx.pid)
    ncorpus = 0
    if os.path.isdir(cdir):
        for fn in sorted(os.listdir(cdir)):
            if fn.startswith("hp_") and fn.endswith(".json"):
                c = json.load(open(os.path.join(cdir, fn)))["handle_program"]
                jobs.append({"ds": c["ds"], "progs": [c["prog"]], "inventory": inv, "aimed": False, "corpus": fn})
                ncorpus += 1
    ctx.extra[stream_name + ".corpus_programs"] = ncorpus
    for i in range(nds):
        ds = gen_dataset(rng, corners[i] if i < len(corners) else None)
        progs = [gen_program(rng, ds) for _ in range(nprog)]
        if ds["part"] or i % 3 == 0:
            progs += [gen_shared_rg_program(rng, ds) for _ in range(2)]
        jobs.append({"ds": ds, "progs": progs, "inventory": inv, "aimed": False})
    # programs aimed at the (operation, attribute) pairs the regenerated inventory does not clear: fill the attribute, apply the
    # operation, ask again - on several datasets of both schemes
    for (o, a) in aims[:12]:
        for force in corners[:3] + [None, None]:
            ds = gen_dataset(rng, force)
            jobs.append({"ds": ds, "progs": [gen_program(rng, ds, aim=(o, a)) for _ in range(2)], "inventory": inv, "aimed": True})
    results = C.pmap(run_job, jobs, init=_winit, nproc=min(8, os.cpu_count() or 4), job_timeout=300)
    unknown = []
    for job, r in zip(jobs, results):
        if isinstance(r, dict) and "__crashed__" in r:
            ctx.fail({"component": "handle-program", "what": "crash"}, {"handle_program": {"ds": job["ds"], "prog": job["progs"][0]}, "all_programs": job["progs"]},
                     "running handle programs on this dataset: " + r["__crashed__"])
            continue
        ds = r["ds"]
        ctx.count(stream_name + ".dataset", "%s%s/%d row groups" % (ds["scheme"], "+partition" if ds["part"] else "", len(ds["sizes"])))
        for pr in r["results"]:
            if pr["error"]:
                raise RuntimeError("handle program harness error: %s\n%s" % (json.dumps(ds), pr["error"]))
            case = {"handle_program": {"ds": ds, "prog": pr["prog"]}}
            ctx.case(case, trivial=False)
            ctx.count("stream", stream_name + ("/aimed" if job["aimed"] else ("/corpus" if job.get("corpus") else "")))
            res_ = pr["result"]
            for k, v in res_["counts"].items():
                ctx.dist.setdefault(stream_name + ".steps", {})
                ctx.dist[stream_name + ".steps"][k] = ctx.dist[stream_name + ".steps"].get(k, 0) + v
            unk = res_["inventory_unknown"]
            ctx.correspondence("handle inventory (handle2coq) ~ attributes of live handles (pf.__dict__, dynamic fields of pf.fmd)", case,
                               [], [u[1:] for u in unk[:1]])
            if res_["problems"]:
                ctx.fail(classify(ds, pr["prog"], res_["problems"]), case,
                         "; ".join("step %d (%s): %s" % (k, w, t) for w, k, t in res_["problems"][:3]))
    return inv
