"""Entry point: ./check <ID> [--tier quick|thorough] [--replay FILE]"""
import argparse
import importlib
import json
import os
import sys
import traceback

sys.path.insert(0, os.path.dirname(os.path.dirname(os.path.abspath(__file__))))
from harness import common  # noqa


def main():
    ap = argparse.ArgumentParser()
    ap.add_argument("pid")
    ap.add_argument("--tier", default=os.environ.get("VERIF_TIER", "quick"), choices=["quick", "thorough"])
    ap.add_argument("--replay")
    ap.add_argument("--seed", type=int, default=int(os.environ.get("VERIF_SEED", "0") or 0))
    a = ap.parse_args()
    os.environ.setdefault("PYTHONHASHSEED", "0")
    os.environ["PIP_NO_INDEX"] = "1"
    mod = importlib.import_module("harness.props." + a.pid)
    if a.replay:
        case = json.load(open(a.replay))
        sys.exit(mod.replay(case))
    ctx = common.Ctx(a.pid, a.tier, a.seed)
    try:
        mod.run(ctx)
    except Exception:
        tb = traceback.format_exc()
        print(tb, file=sys.stderr)
        ctx.broken.append({"kind": "harness-error", "name": a.pid + " check machinery", "detail": tb[-3000:]})
    sys.exit(ctx.finish())


if __name__ == "__main__":
    main()
