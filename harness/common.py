"""Shared machinery of the /verif checks (DESIGN.md section 4.6).

Everything a property check needs that is not specific to the property:
paths, the build of the native extension + shadow package, the Coq library
build, per-run compilation of generated / property files, the extracted
model binary, evidence, known findings, replays.
"""
import fcntl
import hashlib
import json
import os
import random
import re
import shutil
import subprocess
import sys
import tempfile
import time

VERIF = os.path.dirname(os.path.dirname(os.path.abspath(__file__)))
REPO = os.environ.get("VERIF_REPO", "/repo")
BUILD = os.path.join(VERIF, "build")
COQ = os.path.join(VERIF, "coq")
PY = "/venv/bin/python"
PYINC = "/root/.pyenv/versions/3.12.1/include/python3.12"
NPINC = "/venv/lib/python3.12/site-packages/numpy/_core/include"
EXT = ".cpython-312-x86_64-linux-gnu.so"
GUARD = "FASTPARQUET_VERIF"


def sha(b):
    if isinstance(b, str):
        b = b.encode()
    return hashlib.sha256(b).hexdigest()


class Lock:
    def __init__(self, name):
        os.makedirs(BUILD, exist_ok=True)
        self.path = os.path.join(BUILD, "." + name + ".lock")

    def __enter__(self):
        self.f = open(self.path, "w")
        fcntl.flock(self.f, fcntl.LOCK_EX)
        return self

    def __exit__(self, *a):
        fcntl.flock(self.f, fcntl.LOCK_UN)
        self.f.close()


def _limit_coq_memory():
    # a runaway lia/nia must not take the machine down: 8 GB of address space per coqc/make process
    import resource
    soft, hard = resource.getrlimit(resource.RLIMIT_AS)
    lim = 8 * 1024 ** 3
    if hard == resource.RLIM_INFINITY or hard > lim:
        resource.setrlimit(resource.RLIMIT_AS, (lim, hard))


def run(cmd, timeout=600, cwd=None, env=None, input=None):
    """Run a command, return (rc, stdout+stderr)."""
    pre = None
    if not isinstance(cmd, str) and cmd and os.path.basename(cmd[0]) in ("coqc", "make", "coq_makefile", "coqchk"):
        pre = _limit_coq_memory
    try:
        p = subprocess.run(cmd, cwd=cwd, env=env, input=input, timeout=timeout,
                           stdout=subprocess.PIPE, stderr=subprocess.STDOUT,
                           shell=isinstance(cmd, str), preexec_fn=pre)
        return p.returncode, p.stdout.decode("utf-8", "replace")
    except subprocess.TimeoutExpired as e:
        return 124, (e.stdout or b"").decode("utf-8", "replace") + "\nTIMEOUT"


# ---------------------------------------------------------------------------
# native extension modules rebuilt from the .c files of the working tree
# ---------------------------------------------------------------------------

def _native_one(name, sanitize):
    src = os.path.join(REPO, "fastparquet", name + ".c")
    if not os.path.exists(src):
        return None, "missing " + src
    flags = ["-shared", "-fPIC", "-O2", "-fwrapv", "-w"]
    if sanitize:
        flags = ["-shared", "-fPIC", "-O1", "-g", "-fwrapv", "-w",
                 "-fsanitize=address,undefined", "-fno-sanitize=shift-base", "-fno-sanitize=alignment",
                 "-fno-omit-frame-pointer"]
    key = sha(open(src, "rb").read() + " ".join(flags).encode())[:24]
    d = os.path.join(BUILD, "native", key)
    out = os.path.join(d, name + EXT)
    if os.path.exists(out):
        return out, None
    os.makedirs(d, exist_ok=True)
    tmp = out + ".tmp%d" % os.getpid()
    rc, o = run(["gcc"] + flags + ["-I" + NPINC, "-I" + PYINC, src, "-o", tmp], timeout=900)
    if rc != 0:
        return None, o[-2000:]
    os.replace(tmp, out)
    return out, None


def shadow(sanitize=False):
    """Build (if needed) the extension modules from $REPO/fastparquet/*.c and
    return the directory to put on sys.path so that `import fastparquet`
    resolves to the working tree's .py files + the freshly built .so files."""
    with Lock("native"):
        sos = {}
        for name in ("cencoding", "speedups"):
            so, err = _native_one(name, sanitize)
            if so is None:
                raise RuntimeError("native build failed for %s: %s" % (name, err))
            sos[name] = so
        key = sha(REPO + "|" + "|".join(sorted(sos.values())))[:16]
        root = os.path.join(BUILD, "shadow", key)
        pkg = os.path.join(root, "fastparquet")
        os.makedirs(pkg, exist_ok=True)
        want = {}
        src = os.path.join(REPO, "fastparquet")
        for e in os.listdir(src):
            if e.endswith((".so", ".c", ".html")) or e == "__pycache__":
                continue
            want[e] = os.path.join(src, e)
        for name, so in sos.items():
            want[name + EXT] = so
        for e in os.listdir(pkg):
            if e == "__pycache__":
                continue
            p = os.path.join(pkg, e)
            if e not in want or not os.path.islink(p) or os.readlink(p) != want[e]:
                if os.path.islink(p) or os.path.isfile(p):
                    os.unlink(p)
                else:
                    shutil.rmtree(p)
        for e, target in want.items():
            p = os.path.join(pkg, e)
            if not os.path.lexists(p):
                os.symlink(target, p)
        return root


def use_shadow(sanitize=False):
    """Make `import fastparquet` in THIS process use the shadow package."""
    root = shadow(sanitize)
    for m in [m for m in sys.modules if m == "fastparquet" or m.startswith("fastparquet.")]:
        del sys.modules[m]
    sys.path.insert(0, root)
    os.environ[GUARD] = "1"
    sys.dont_write_bytecode = True
    import fastparquet  # noqa
    assert os.path.dirname(fastparquet.__file__).startswith(root), fastparquet.__file__
    return root


def pyx_vs_c():
    """DESIGN 4.5: compare each .pyx source line with the lines Cython embedded in the .c file.
    Returns list of (file, lineno, pyx_line, c_line) for lines that differ."""
    diffs = []
    for name in ("cencoding", "speedups"):
        pyx = os.path.join(REPO, "fastparquet", name + ".pyx")
        c = os.path.join(REPO, "fastparquet", name + ".c")
        if not (os.path.exists(pyx) and os.path.exists(c)):
            diffs.append((name, 0, "missing", "missing"))
            continue
        lines = open(pyx, encoding="utf-8").read().split("\n")
        emb = {}
        pat = re.compile(r'^ \* (.*?)\s*# <<<<<<<<<<<<<<$')
        hdr = re.compile(r'^\s*/\* "fastparquet/%s\.pyx":(\d+)$' % name)
        cl = open(c, encoding="utf-8", errors="replace").read().split("\n")
        i = 0
        while i < len(cl):
            m = hdr.match(cl[i])
            if m:
                ln = int(m.group(1))
                j = i + 1
                while j < len(cl) and cl[j].strip() != "*/":
                    m2 = pat.match(cl[j])
                    if m2:
                        emb[ln] = m2.group(1)
                    j += 1
                i = j
            i += 1
        for ln, text in emb.items():
            src = lines[ln - 1] if ln - 1 < len(lines) else "<eof>"
            if src.strip() != text.strip():
                diffs.append((name, ln, src.strip(), text.strip()))
    return diffs


# ---------------------------------------------------------------------------
# Coq
# ---------------------------------------------------------------------------

COQFLAGS = ["-Q", os.path.join(COQ, "theories"), "Pq"]


def _gen_cmd_v():
    """Extract/Cmd.v is generated: it concatenates the `table` of every Extract/Cmd_*.v present."""
    d = os.path.join(COQ, "theories", "Extract")
    mods = sorted(f[:-2] for f in os.listdir(d) if f.startswith("Cmd_") and f.endswith(".v"))
    txt = "(* GENERATED by harness/common.py from the Cmd_*.v files present; do not edit. *)\n"
    txt += "From Coq Require Import NArith ZArith List String Bool.\n"
    txt += "From Pq Require Import Base.Bytes Extract.Sx.\n"
    for m in mods:
        txt += "From Pq Require Extract.%s.\n" % m
    txt += "Import ListNotations.\nOpen Scope string_scope.\n"
    txt += "Definition table : list (string * handler) :=\n  " + " ++\n  ".join("%s.table" % m for m in mods) + ".\n"
    txt += """Definition pqref_main (s : sx) : sx :=
  match s with
  | SL (SB c :: args) =>
    match dispatch table c with Some h => h args | None => err "unknown command" end
  | _ => err "malformed command"
  end.
(* older name, still used by generated ExtractAgrees.v files; not extracted (the entry point is pqref_main) *)
Definition run (s : sx) : sx := pqref_main s.
"""
    p = os.path.join(d, "Cmd.v")
    if not os.path.exists(p) or open(p).read() != txt:
        open(p, "w").write(txt)


def coq_lib():
    """(Re)build the hand-written library. No-op when up to date."""
    with Lock("coq"):
        _gen_cmd_v()
        mk = os.path.join(COQ, "Makefile")
        proj = os.path.join(COQ, "_CoqProject")
        files = sorted(
            os.path.relpath(os.path.join(dp, f), COQ)
            for dp, _, fs in os.walk(os.path.join(COQ, "theories")) for f in fs if f.endswith(".v"))
        want = "-Q theories Pq\n" + "\n".join(files) + "\n"
        if not os.path.exists(proj) or open(proj).read() != want:
            open(proj, "w").write(want)
            if os.path.exists(mk):
                os.unlink(mk)
        if not os.path.exists(mk):
            rc, o = run(["coq_makefile", "-f", "_CoqProject", "-o", "Makefile"], cwd=COQ)
            if rc != 0:
                raise RuntimeError("coq_makefile failed: " + o)
        rc, o = run(["make", "-j16"], cwd=COQ, timeout=3000)
        if rc != 0:
            raise RuntimeError("coq library build failed:\n" + o[-4000:])
        return True


def coqc(path, extra_q=(), timeout=600, out_dir=None):
    """Compile one .v file against the library. Returns (ok, output)."""
    cmd = ["coqc"] + COQFLAGS
    for d, n in extra_q:
        cmd += ["-Q", d, n]
    cmd.append(path)
    rc, o = run(cmd, timeout=timeout, cwd=os.path.dirname(path))
    return rc == 0, o


_ASSUM = re.compile(r"^(Closed under the global context|Axioms:)", re.M)


def parse_assumptions(output):
    """Split coqc output produced by `Print Assumptions` commands into a list of blocks."""
    blocks = []
    cur = None
    for line in output.split("\n"):
        if line.startswith("Closed under the global context"):
            blocks.append("closed")
            cur = None
        elif line.startswith("Axioms:"):
            cur = []
            blocks.append(cur)
        elif cur is not None:
            if line.strip() == "" or (not line.startswith(" ") and ":" not in line):
                cur = None
            else:
                cur.append(line.strip())
    return ["closed" if b == "closed" else " ".join(b) for b in blocks]


def theorem_names(vfile):
    txt = open(vfile).read()
    txt = re.sub(r"\(\*.*?\*\)", "", txt, flags=re.S)
    return re.findall(r"^\s*(?:Theorem|Lemma|Example|Corollary)\s+([A-Za-z0-9_']+)", txt, re.M)


def failing_theorem(vfile, output):
    """Name of the theorem inside which coqc stopped, from the error's line number."""
    m = re.search(r'line (\d+), characters', output)
    if not m:
        return None
    ln = int(m.group(1))
    last = None
    for i, line in enumerate(open(vfile).read().split("\n"), 1):
        mm = re.match(r"\s*(?:Theorem|Lemma|Example|Corollary)\s+([A-Za-z0-9_']+)", line)
        if mm:
            if i > ln:
                break
            last = mm.group(1)
    return last


def hygiene():
    """No Admitted/admit/Axiom/... anywhere in the development (DESIGN 8.7)."""
    bad = []
    pat = re.compile(r"\b(Admitted|admit|Axiom|Axioms|Parameter|Parameters|Conjecture|Admit Obligations|"
                     r"Unset Guard Checking|bypass_check|type-in-type|impredicative-set|"
                     r"Unset Positivity|Unset Universe Checking)\b")
    for dp, _, fs in os.walk(COQ):
        for f in fs:
            if f.endswith(".v"):
                p = os.path.join(dp, f)
                txt = open(p).read()
                txt2 = re.sub(r"\(\*.*?\*\)", lambda m: " " * len(m.group(0)), txt, flags=re.S)
                for m in pat.finditer(txt2):
                    bad.append("%s: %s" % (os.path.relpath(p, VERIF), m.group(0)))
    return bad


# ---------------------------------------------------------------------------
# extracted model binary
# ---------------------------------------------------------------------------

def pqref():
    """Build build/pqref from the extraction output + ocaml/driver.ml; returns its path."""
    with Lock("pqref"):
        exe = os.path.join(BUILD, "pqref")
        exdir = os.path.join(BUILD, "extract")
        vo = os.path.join(COQ, "theories", "Extract", "Extract.vo")
        drv = os.path.join(VERIF, "ocaml", "driver.ml")
        stamp = os.path.join(BUILD, "pqref.stamp")
        key = sha(open(vo, "rb").read() + open(drv, "rb").read())
        if os.path.exists(exe) and os.path.exists(stamp) and open(stamp).read() == key:
            return exe
        # Extract.v writes pqmodel.ml/.mli into coqc's working directory (= coq/ under make)
        os.makedirs(exdir, exist_ok=True)
        src = COQ
        if not os.path.exists(os.path.join(src, "pqmodel.ml")):
            run(["coqc"] + COQFLAGS + [os.path.join(COQ, "theories", "Extract", "Extract.v")], cwd=COQ)
        for f in ("pqmodel.ml", "pqmodel.mli"):
            shutil.copy(os.path.join(src, f), os.path.join(exdir, f))
        shutil.copy(drv, os.path.join(exdir, "driver.ml"))
        rc, o = run(["ocamlfind", "ocamlopt", "-O3", "-w", "-a", "pqmodel.mli", "pqmodel.ml", "driver.ml",
                     "-o", exe], cwd=exdir, timeout=600)
        if rc != 0:
            rc, o = run(["ocamlfind", "ocamlopt", "-w", "-a", "pqmodel.mli", "pqmodel.ml", "driver.ml",
                         "-o", exe], cwd=exdir, timeout=600)
        if rc != 0:
            raise RuntimeError("pqref build failed:\n" + o[-3000:])
        open(stamp, "w").write(key)
        return exe


def hexb(b):
    return "#" + bytes(b).hex()


def sx(x):
    """Python value -> s-expression text understood by ocaml/driver.ml."""
    if isinstance(x, bool):
        return "1" if x else "0"
    if isinstance(x, int):
        return ("-x%x" % -x) if x < 0 else ("x%x" % x)
    if isinstance(x, (bytes, bytearray)):
        return hexb(x)
    if isinstance(x, str):
        return x  # symbol
    if x is None:
        return "()"
    return "(" + " ".join(sx(e) for e in x) + ")"


def parse_sx(s):
    """s-expression text printed by the driver -> nested Python lists / ints / bytes."""
    pos = 0
    n = len(s)

    def skip():
        nonlocal pos
        while pos < n and s[pos] in " \t\r\n":
            pos += 1

    def rd():
        nonlocal pos
        skip()
        if s[pos] == "(":
            pos += 1
            out = []
            while True:
                skip()
                if s[pos] == ")":
                    pos += 1
                    return out
                out.append(rd())
        st = pos
        while pos < n and s[pos] not in " \t\r\n()":
            pos += 1
        tok = s[st:pos]
        if tok.startswith("#"):
            return bytes.fromhex(tok[1:])
        if tok.startswith("-x"):
            return -int(tok[2:], 16)
        if tok.startswith("x"):
            return int(tok[1:], 16)
        return tok
    return rd()


class Pqref:
    """Line-oriented conversation with build/pqref (one s-expression per line each way)."""

    def __init__(self):
        self.exe = pqref()
        self.p = subprocess.Popen([self.exe], stdin=subprocess.PIPE, stdout=subprocess.PIPE,
                                  bufsize=0)

    def call(self, *cmd):
        line = (sx(list(cmd)) + "\n").encode()
        self.p.stdin.write(line)
        self.p.stdin.flush()
        out = self.p.stdout.readline()
        if not out:
            raise RuntimeError("pqref died on %r" % line[:200])
        return parse_sx(out.decode())

    def batch(self, cmds):
        data = "".join(sx(list(c)) + "\n" for c in cmds).encode()
        p = subprocess.run([self.exe], input=data, stdout=subprocess.PIPE, timeout=3600)
        lines = p.stdout.decode().split("\n")
        return [parse_sx(l) for l in lines if l.strip()]

    def close(self):
        try:
            self.p.stdin.close()
            self.p.wait(timeout=5)
        except Exception:
            self.p.kill()


# ---------------------------------------------------------------------------
# vm_compute evaluation of model functions inside coqc
# ---------------------------------------------------------------------------

def vm_eval(requires, exprs, typ, workdir, tag="cases", shard=400, extra_q=(), timeout=900):
    """Evaluate Gallina expressions with vm_compute; return list of result strings.

    `exprs`: list of Gallina terms of type `typ`, which must be printable on a single logical
    line by the model's own `show` function (i.e. typ should be `string`): each expression is
    wrapped so that coqc prints  `R<i>=<string>`.
    """
    os.makedirs(workdir, exist_ok=True)
    files = []
    for si in range(0, len(exprs), shard):
        path = os.path.join(workdir, "%s_%d.v" % (tag, si // shard))
        with open(path, "w") as f:
            f.write(requires + "\n")
            f.write("From Coq Require Import String.\nOpen Scope string_scope.\n")
            for k, e in enumerate(exprs[si:si + shard]):
                f.write("Definition r%d : %s := Eval vm_compute in (%s).\n" % (si + k, typ, e))
            f.write("Set Printing Width 1000000.\nSet Printing Depth 1000000.\n")
            for k in range(len(exprs[si:si + shard])):
                f.write("Print r%d.\n" % (si + k))
        files.append(path)
    results = {}
    procs = []
    for path in files:
        cmd = ["coqc"] + COQFLAGS
        for d, n in extra_q:
            cmd += ["-Q", d, n]
        cmd.append(path)
        procs.append((path, subprocess.Popen(cmd, stdout=subprocess.PIPE, stderr=subprocess.STDOUT,
                                             cwd=workdir)))
        if len(procs) >= 8:
            _drain(procs, results, timeout)
            procs = []
    _drain(procs, results, timeout)
    return [results.get(i) for i in range(len(exprs))]


def _drain(procs, results, timeout):
    for path, p in procs:
        try:
            out, _ = p.communicate(timeout=timeout)
        except subprocess.TimeoutExpired:
            p.kill()
            out = b""
        txt = out.decode("utf-8", "replace")
        if p.returncode != 0:
            raise RuntimeError("coqc failed on %s:\n%s" % (path, txt[-3000:]))
        for m in re.finditer(r"^r(\d+) = (.*?)\n\s+: ", txt, re.M | re.S):
            results[int(m.group(1))] = re.sub(r"\s+", " ", m.group(2)).strip()


# ---------------------------------------------------------------------------
# crash-proof parallel map (a worker that segfaults or hangs is an observation, not the end of the check)
# ---------------------------------------------------------------------------

def _pmap_worker(conn, func, init):
    try:
        if init is not None:
            init()
        while True:
            msg = conn.recv()
            if msg is None:
                break
            idx, job = msg
            try:
                res = func(job)
            except BaseException as e:      # noqa
                import traceback
                res = {"__crashed__": "exception in worker: %s: %s" % (type(e).__name__, str(e)[:300]),
                       "tb": traceback.format_exc()[-1500:]}
            conn.send((idx, res))
    except (EOFError, KeyboardInterrupt):
        pass


def pmap(func, jobs, init=None, nproc=None, job_timeout=600):
    """Parallel map over forked worker processes that survives worker death.
    Returns a list aligned with `jobs`; a job whose worker died (segfault, abort) or exceeded
    `job_timeout` seconds yields {"__crashed__": "<what happened>"} instead of a result."""
    import multiprocessing as mp
    from multiprocessing.connection import wait
    ctxm = mp.get_context("fork")
    nproc = max(1, min(nproc or (os.cpu_count() or 4), len(jobs) or 1))
    results = [None] * len(jobs)
    todo = list(range(len(jobs)))[::-1]
    workers = {}     # conn -> [proc, current idx or None, start time]

    def spawn():
        a, b = ctxm.Pipe()
        p = ctxm.Process(target=_pmap_worker, args=(b, func, init), daemon=True)
        p.start()
        b.close()
        workers[a] = [p, None, 0.0]
        return a

    def feed(conn):
        if todo:
            i = todo.pop()
            workers[conn][1] = i
            workers[conn][2] = time.time()
            try:
                conn.send((i, jobs[i]))
            except (BrokenPipeError, OSError):
                pass
        else:
            workers[conn][1] = None
            try:
                conn.send(None)
            except (BrokenPipeError, OSError):
                pass

    for _ in range(nproc):
        feed(spawn())
    done = 0
    while done < len(jobs):
        busy = [c for c, w in workers.items() if w[1] is not None]
        if not busy:
            break
        ready = wait(busy, timeout=5)
        now = time.time()
        for c in ready:
            w = workers[c]
            try:
                idx, res = c.recv()
                results[idx] = res
                done += 1
                feed(c)
            except (EOFError, OSError):
                w[0].join(timeout=5)
                results[w[1]] = {"__crashed__": "worker process died (exit code %s)" % w[0].exitcode}
                done += 1
                del workers[c]
                c.close()
                if todo:
                    feed(spawn())
        for c in [c for c, w in workers.items() if w[1] is not None and now - w[2] > job_timeout]:
            w = workers.pop(c)
            w[0].kill()
            w[0].join(timeout=5)
            results[w[1]] = {"__crashed__": "timeout after %ds (worker killed)" % job_timeout}
            done += 1
            c.close()
            if todo:
                feed(spawn())
    for c, w in workers.items():
        try:
            c.send(None)
        except Exception:      # noqa
            pass
        w[0].join(timeout=2)
        if w[0].is_alive():
            w[0].kill()
    return results


# ---------------------------------------------------------------------------
# known findings
# ---------------------------------------------------------------------------

def load_findings():
    """Known findings are committed under findings.d/<ID>.json (one file per property, so that
    independent work on different properties never edits the same file); known_findings.json at the
    top level is the concatenation, regenerated by tools/mkmanifest.py for readers."""
    import glob
    out = []
    for p in sorted(glob.glob(os.path.join(VERIF, "findings.d", "C*.json"))):
        out += json.load(open(p)).get("findings", [])
    return out


def _match_val(pat, v):
    if isinstance(pat, dict):
        for op, x in pat.items():
            if v is None:
                return False
            if op == ">=" and not v >= x: return False
            if op == "<=" and not v <= x: return False
            if op == ">" and not v > x: return False
            if op == "<" and not v < x: return False
            if op == "in" and v not in x: return False
            if op == "contains" and x not in v: return False
            if op == "ne" and v == x: return False
        return True
    return pat == v


def match_finding(pid, cls, findings=None):
    """Return the open finding whose signature matches the classified case, else None."""
    for f in (findings if findings is not None else load_findings()):
        if f["property"] != pid or f.get("status", "open") != "open":
            continue
        sig = f["signature"]
        if all(_match_val(p, cls.get(k)) for k, p in sig.items()):
            return f
    return None


# ---------------------------------------------------------------------------
# the per-run context
# ---------------------------------------------------------------------------

class Ctx:
    def __init__(self, pid, tier, seed):
        self.pid = pid
        self.tier = tier
        self.seed = seed
        self.rng = random.Random("%s/%d" % (pid, seed))
        self.t0 = time.time()
        self.scratch = tempfile.mkdtemp(prefix="verif-%s-" % pid, dir="/tmp")
        self.gen_dir = os.path.join(BUILD, "gen", pid)
        os.makedirs(self.gen_dir, exist_ok=True)
        self.obligations = []       # (name, ok, detail)
        self.assumptions = []       # Print Assumptions blocks
        self.checker_cmds = []
        self.corr = {}              # name -> dict(cases, disagreements, first)
        self.evaluations = 0
        self.case_hashes = set()
        self.samples = []
        self.dist = {}
        self.failures = []          # (cls, case, detail) property-level failing inputs on the real code
        self.broken = []            # broken obligations / correspondences (names + detail)
        self.known_hit = {}         # finding id -> count
        self.notes = []
        self.trusted = []
        self.assume = []
        self.rule = ""
        self.extra = {}
        self.findings = load_findings()

    # -- bookkeeping ------------------------------------------------------
    def quick(self):
        return self.tier == "quick"

    def count(self, key, sub):
        d = self.dist.setdefault(key, {})
        d[str(sub)] = d.get(str(sub), 0) + 1

    def case(self, case, trivial=False, sample_every=0):
        """Register one explored case (for evaluations / distinct_nontrivial / samples)."""
        self.evaluations += 1
        if not trivial:
            self.case_hashes.add(sha(json.dumps(case, sort_keys=True, default=repr))[:16])
        if len(self.samples) < 3 and not trivial:
            self.samples.append(_short(case))

    def obligation(self, name, ok, detail=""):
        self.obligations.append((name, bool(ok), detail))
        if not ok:
            self.broken.append({"kind": "proof-obligation", "name": name, "detail": detail[-3000:]})

    def correspondence(self, name, case, model_out, impl_out):
        c = self.corr.setdefault(name, {"cases": 0, "disagreements": 0, "first": None})
        c["cases"] += 1
        if model_out != impl_out:
            c["disagreements"] += 1
            if c["first"] is None:
                c["first"] = {"case": _short(case, 4000), "model": _short(model_out, 2000),
                              "impl": _short(impl_out, 2000)}
                self.broken.append({"kind": "correspondence", "name": name, "detail": c["first"]})
            return False
        return True

    def fail(self, cls, case, detail):
        """A concrete input on which the PROPERTY fails on the real implementation."""
        f = match_finding(self.pid, cls, self.findings)
        if f is not None:
            self.known_hit.setdefault(f["id"], {"n": 0, "what": f["what"]})["n"] += 1
            return False
        self.failures.append({"class": cls, "case": case, "detail": detail})
        return True

    # -- Coq --------------------------------------------------------------
    def coq_file(self, path, extra_q=(), timeout=900, obligations=None):
        """Compile a Props/Gen/genproofs file; every theorem in it is one obligation."""
        names = obligations if obligations is not None else theorem_names(path)
        t = time.time()
        ok, out = coqc(path, extra_q=extra_q, timeout=timeout)
        self.checker_cmds.append("coqc -Q coq/theories Pq %s%s  (%.1fs)" % (
            "".join("-Q %s %s " % (os.path.relpath(d, VERIF), n) for d, n in extra_q),
            os.path.relpath(path, VERIF), time.time() - t))
        if ok:
            for n in names:
                self.obligation(n, True)
            self.assumptions += ["%s: %s" % (os.path.basename(path), a) for a in parse_assumptions(out)]
        else:
            bad = failing_theorem(path, out)
            hit = False
            for n in names:
                if n == bad:
                    hit = True
                    self.obligation(n, False, out)
                elif not hit:
                    self.obligation(n, True)
                else:
                    self.obligation(n, False, "not reached: an earlier obligation in %s failed" % os.path.basename(path))
            if not hit:
                self.obligation(os.path.basename(path), False, out)
        return ok, out

    # -- finish -----------------------------------------------------------
    def finish(self):
        wall = time.time() - self.t0
        lines = []
        rc = 0
        for fid, h in sorted(self.known_hit.items()):
            lines.append("KNOWN-FINDING: property=%s %s [%s, reproduced %d times]" % (self.pid, h["what"], fid, h["n"]))
        rdir = os.path.join(VERIF, "replays", self.pid)
        nviol = 0
        if self.failures:
            os.makedirs(rdir, exist_ok=True)
            seen = set()
            for f in self.failures:
                k = sha(json.dumps(f["class"], sort_keys=True, default=repr))[:12]
                if k in seen:
                    continue
                seen.add(k)
                p = os.path.join(rdir, k + ".json")
                json.dump({"property": self.pid, "kind": "failing-input", "class": f["class"],
                           "case": f["case"], "detail": f["detail"], "seed": self.seed,
                           "broken": self.broken[:5]}, open(p, "w"), indent=1, default=repr)
                lines.append("VIOLATION property=%s replay=%s" % (self.pid, p))
                nviol += 1
                if nviol >= 5:
                    break
            rc = 1
        elif self.broken:
            os.makedirs(rdir, exist_ok=True)
            k = sha(json.dumps(self.broken, sort_keys=True, default=repr))[:12]
            p = os.path.join(rdir, "broken-" + k + ".json")
            json.dump({"property": self.pid, "kind": "no-failing-input-found",
                       "no_longer_checks": self.broken,
                       "searched": {"evaluations": self.evaluations, "rule": self.rule,
                                    "distribution": self.dist}, "seed": self.seed},
                      open(p, "w"), indent=1, default=repr)
            lines.append("VIOLATION property=%s replay=%s no-failing-input-found" % (self.pid, p))
            nviol = 1
            rc = 1
        nob = len(self.obligations)
        ndis = sum(1 for o in self.obligations if o[1])
        cov = {
            "obligations": nob,
            "discharged": ndis,
            "checker_cmd": "; ".join(self.checker_cmds) or "none",
            "trusted_base": self.trusted + ["Print Assumptions: " + a for a in self.assumptions],
            "evaluations": self.evaluations,
            "distinct_nontrivial": len(self.case_hashes),
            "rule": self.rule,
            "samples": self.samples,
            "obligation_names": [o[0] for o in self.obligations],
            "undischarged": [o[0] for o in self.obligations if not o[1]],
            "correspondence": {k: {"cases": v["cases"], "disagreements": v["disagreements"]}
                               for k, v in self.corr.items()},
            "input_distribution": self.dist,
            "known_findings_reproduced": {k: v["n"] for k, v in self.known_hit.items()},
            "notes": self.notes,
        }
        cov.update(self.extra)
        ev = {"property_id": self.pid, "tier": self.tier, "seed": self.seed, "level": "proof",
              "coverage": cov, "assumptions": self.assume, "wall_s": round(wall, 2),
              "violations": nviol}
        os.makedirs(os.path.join(VERIF, "evidence"), exist_ok=True)
        json.dump(ev, open(os.path.join(VERIF, "evidence", self.pid + ".json"), "w"), indent=1, default=repr)
        for l in lines:
            print(l, flush=True)
        print("%s %s: obligations %d/%d, evaluations %d (distinct non-trivial %d), correspondences %s, %.1fs -> %s" % (
            self.pid, self.tier, ndis, nob, self.evaluations, len(self.case_hashes),
            {k: "%d/%d" % (v["cases"] - v["disagreements"], v["cases"]) for k, v in self.corr.items()},
            wall, "OK" if rc == 0 else "VIOLATION"), flush=True)
        shutil.rmtree(self.scratch, ignore_errors=True)
        return rc


def _short(x, lim=1500):
    s = json.dumps(x, default=repr)
    if len(s) <= lim:
        return json.loads(s)
    return s[:lim] + "...(%d chars)" % len(s)


# ---------------------------------------------------------------------------
# parser for terms printed by Coq (lists, tuples, numbers, options, bools, strings)
# ---------------------------------------------------------------------------

def parse_coq(s):
    """Parse what `Print r.` shows for closed data terms into Python values:
    [a; b] -> list, (a, b) -> tuple, 12%N / (-3)%Z / 5 -> int, Some x -> ('Some', x),
    None -> None, true/false -> bool, "..." -> str, other constructors C a b -> ('C', a, b)."""
    toks = re.findall(r'"(?:[^"]|"")*"|[\[\]\(\);,]|[^\s\[\]\(\);,"]+', s)
    pos = 0

    def peek():
        return toks[pos] if pos < len(toks) else None

    def atom():
        nonlocal pos
        t = toks[pos]
        if t == "[":
            pos += 1
            out = []
            if peek() == "]":
                pos += 1
                return out
            while True:
                out.append(app())
                t2 = toks[pos]
                pos += 1
                if t2 == "]":
                    return out
                assert t2 == ";", (t2, s[:200])
        if t == "(":
            pos += 1
            items = [app()]
            while toks[pos] == ",":
                pos += 1
                items.append(app())
            assert toks[pos] == ")", (toks[pos], s[:200])
            pos += 1
            return items[0] if len(items) == 1 else tuple(items)
        pos += 1
        if t.startswith('"'):
            return t[1:-1].replace('""', '"')
        t0 = re.sub(r"%[A-Za-z_]+$", "", t)
        if re.fullmatch(r"-?\d+", t0):
            return int(t0)
        if t0 == "true":
            return True
        if t0 == "false":
            return False
        if t0 == "None":
            return None
        return ("@", t0)

    def app():
        nonlocal pos
        head = atom()
        if isinstance(head, tuple) and len(head) == 2 and head[0] == "@":
            args = []
            while peek() is not None and peek() not in ("]", ")", ";", ","):
                a = atom()
                if isinstance(a, tuple) and len(a) == 2 and a[0] == "@":
                    a = (a[1],)
                args.append(a)
            return (head[1],) + tuple(args)
        # scope annotation after a parenthesised number, e.g. (-3)%Z handled by tokenizer: ")%Z" is not split
        return head

    s = s.replace(")%Z", ")").replace(")%N", ")").replace(")%nat", ")").replace("]%Z", "]").replace("]%N", "]").replace("]%list", "]").replace("]%string", "]")
    toks = re.findall(r'"(?:[^"]|"")*"|[\[\]\(\);,]|[^\s\[\]\(\);,"]+', s)
    v = app()
    return v
