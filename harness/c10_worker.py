"""Subprocess that runs fastparquet's thrift code for C10 (a crash here is an observation, not the end
of the check).  argv[1] = shadow package root.  Protocol: pickled (op, payload) requests on stdin,
pickled replies on the duplicated original stdout (fd 1 itself is redirected to a temp file so that
read_thrift's `print("Corrupted thrift data ...")` is captured and cannot corrupt the protocol)."""
import io
import os
import pickle
import sys


def main():
    root = sys.argv[1]
    sys.path.insert(0, root)
    sys.dont_write_bytecode = True
    proto = os.fdopen(os.dup(1), "wb")
    devnull = os.open(os.devnull, os.O_WRONLY)
    os.dup2(devnull, 1)
    inp = sys.stdin.buffer
    import fastparquet  # noqa
    from fastparquet import cencoding
    from fastparquet.cencoding import ThriftObject, from_buffer
    assert os.path.dirname(fastparquet.__file__).startswith(root)

    def build(recipe):
        """recipe = ("obj", name, i32flag, i32list|None, {field: recipe}) | ("list", [recipe]) | ("val", x)"""
        k = recipe[0]
        if k == "val":
            return recipe[1]
        if k == "list":
            return [build(r) for r in recipe[1]]
        _, name, i32, i32l, fields = recipe
        kw = {f: build(r) for f, r in fields.items()}
        return ThriftObject.from_fields(name, i32=bool(i32), i32list=i32l, **kw)

    def cap_of(o):
        """the buffer size rule of ThriftObject.to_bytes, replicated (cencoding.pyx 792-800)"""
        size = 0
        if o.thrift_name == "RowGroup":
            size = 1000 * len(o[1])
        elif o.thrift_name == "FileMetaData":
            size = 1000 * len(o[4]) * len(o[2]) + len(str(o[5]))
        return max(size, 500000)

    def do(op, p):
        if op == "to_bytes":            # (name, raw int-keyed dict)
            name, data = p
            return bytes(ThriftObject(name, data).to_bytes())
        if op == "api_to_bytes":        # recipe -> (bytes, contents)
            o = build(p)
            return bytes(o.to_bytes()), o.contents
        if op == "from_buffer":         # bytes -> (dict, consumed, printed)
            cap = io.StringIO()
            old = sys.stdout
            sys.stdout = cap
            try:
                buf = cencoding.NumpyIO(p)
                d = cencoding.read_thrift(buf)
                pos = buf.tell()
            finally:
                sys.stdout = old
            return d, pos, cap.getvalue()[:200]
        if op == "roundtrip":           # (name, raw dict) -> (bytes, parsed dict, x == parsed, parsed == x)
            name, data = p
            x = ThriftObject(name, data)
            b = bytes(x.to_bytes())
            y = from_buffer(b, name)
            return b, y.contents, bool(x == y), bool(y == x)
        if op == "api_roundtrip":
            x = build(p)
            b = bytes(x.to_bytes())
            y = from_buffer(b, x.thrift_name)
            return b, x.contents, y.contents, bool(x == y), cap_of(x)
        if op == "dict_eq":
            a, b = p
            return bool(cencoding.dict_eq(a, b))
        if op == "pickle":              # (name, raw dict) -> (x == loads(dumps(x)))
            name, data = p
            x = ThriftObject(name, data)
            y = pickle.loads(pickle.dumps(x))
            return bool(x == y), y.contents
        if op == "specs_names":         # candidate struct names -> those ThriftObject knows (`specs` is a cdef dict)
            out = []
            for n in p:
                try:
                    ThriftObject(n, {})
                    out.append(n)
                except KeyError:
                    pass
            return out
        if op == "reserialise":         # (name, bytes) -> (parsed dict, consumed, printed, to_bytes of the parsed object)
            name, b = p
            cap = io.StringIO()
            old = sys.stdout
            sys.stdout = cap
            try:
                buf = cencoding.NumpyIO(b)
                d = cencoding.read_thrift(buf)
                pos = buf.tell()
            finally:
                sys.stdout = old
            return d, pos, cap.getvalue()[:200], bytes(ThriftObject(name, d).to_bytes())
        if op == "ping":
            return "pong"
        raise ValueError(op)

    while True:
        try:
            op, p = pickle.load(inp)
        except EOFError:
            return
        try:
            r = ("ok", do(op, p))
        except BaseException as e:      # noqa
            r = ("exc", type(e).__name__, str(e)[:300])
        pickle.dump(r, proto, protocol=4)
        proto.flush()


if __name__ == "__main__":
    main()
