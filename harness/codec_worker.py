"""Runs the REAL fastparquet codec functions on recorded cases, in a subprocess of the C11/C12 checks.

usage: python codec_worker.py <shadow_root> <cases.json> <out.jsonl> [exact]

cases.json: list of case dicts ({"fn": name, ...}); one JSON result per line is appended to
out.jsonl and flushed, so that after a crash the parent knows which case killed the process.
`exact` (C12): every buffer handed to native code is an exactly-sized heap allocation so that the
sanitizer's red zones see any access outside it; otherwise output buffers carry a guard area
filled with 0xAA that is returned with the result (writes beyond the capacity become visible).
"""
import json
import sys

GUARD = 16
FILL = 0xAA


def main():
    root, cases_p, out_p = sys.argv[1:4]
    exact = len(sys.argv) > 4 and sys.argv[4] == "exact"
    sys.path.insert(0, root)
    sys.dont_write_bytecode = True
    import numpy as np
    import fastparquet  # noqa
    from fastparquet import cencoding, speedups, encoding
    from fastparquet.cencoding import NumpyIO
    assert fastparquet.__file__.startswith(root), fastparquet.__file__

    # ---- results held across calls -------------------------------------------------------------------------------
    # every value a codec function RETURNS is kept alive (a ring of the last 48) together with a snapshot of what it showed
    # right after the call; when it leaves the ring and at the end of the chunk it is looked at again: a result must stay
    # what it was, whatever the library decoded or encoded in between (no views of module-level / reused buffers)
    HELD = []
    cur = {"i": None}

    def snap(obj):
        if isinstance(obj, (bytes, bytearray, memoryview)):
            return bytes(obj).hex()
        a = np.asarray(obj)
        if a.dtype.kind == "O":
            return [None if x is None else (x.encode("utf-8", "surrogatepass").hex() if isinstance(x, str) else bytes(x).hex()) for x in a]
        return [a.dtype.str, np.ascontiguousarray(a).tobytes().hex()]

    def hold(obj):
        HELD.append((cur["i"], obj, snap(obj)))
        return obj

    def recheck(out, upto):
        """re-examine (and drop) all but the newest `upto` held results"""
        while len(HELD) > upto:
            i, obj, was = HELD.pop(0)
            now = snap(obj)
            if now != was:
                out.write(json.dumps([i, ["changed", str(was)[:300], str(now)[:300]]]) + "\n")
                out.flush()

    def inbuf(hexs):
        b = bytes.fromhex(hexs)
        a = np.empty(len(b), dtype=np.uint8)      # exact-size heap allocation (no trailing NUL of a bytes object)
        a[:] = np.frombuffer(b, dtype=np.uint8)
        return a

    def outbuf(cap):
        n = cap if exact else cap + GUARD
        a = np.empty(max(n, 0), dtype=np.uint8)
        a[:] = FILL
        return a

    def nio(a):
        if len(a) == 0:
            # NumpyIO takes &data[0]; give it a 1-byte allocation viewed as empty
            return NumpyIO(np.empty(1, dtype=np.uint8)[1:])     # points at the END of a 1-byte allocation
        return NumpyIO(a)

    def decoder(c, call):
        a = inbuf(c["inp"])
        skip = c.get("in_loc", 0)
        buf = outbuf(c["cap"])
        fi = nio(a)
        if skip:
            fi.seek(skip)
        o = nio(buf[:c["cap"]])
        ret = call(fi, o)
        return ["ok", buf.tobytes().hex(), fi.tell() - skip, o.tell()] + ([] if ret is None else [ret])

    def items_view(out, typ):
        """every decoded value as the hex of its bytes: object arrays item by item, fixed-width arrays from the array's
        own buffer (an 'S<n>' ITEM would lose trailing NULs: that is numpy's scalar conversion, not the decoder)"""
        if typ == "BOOLEAN":
            return [int(x) for x in np.asarray(out).view(np.uint8)]
        a = np.asarray(out)
        if a.dtype.kind == "O":
            return [None if x is None else (x.encode("utf-8", "surrogatepass").hex() if isinstance(x, str) else bytes(x).hex())
                    for x in a]
        k = a.dtype.itemsize
        raw = np.ascontiguousarray(a).tobytes()
        return [raw[i * k:(i + 1) * k].hex() for i in range(len(a))]

    class Spy:
        """records the calls the Python page readers make to the generic native index decoder"""
        def __enter__(self):
            from fastparquet import core
            self.mod = core.encoding            # (core.py binds the compiled module under the name `encoding`)
            self.calls = []
            self.orig = self.mod.read_rle_bit_packed_hybrid

            def spy(io_obj, width, length, o=None, itemsize=4, *a, **k):
                self.calls.append([int(width), int(itemsize), int(o.len) if hasattr(o, "len") else -1])
                return self.orig(io_obj, width, length, o, itemsize, *a, **k)
            self.mod.read_rle_bit_packed_hybrid = spy
            return self

        def __exit__(self, *exc):
            self.mod.read_rle_bit_packed_hybrid = self.orig

    def codec_threads(c):
        """four threads, each calling ONE codec function on ITS OWN input over and over with a very short switch interval and
        looking at the result a moment later: it must still be the value computed for that input"""
        import threading
        import time
        import pandas as pd
        from fastparquet import parquet_thrift as pt, writer
        bse = pt.SchemaElement(type=pt.Type.BOOLEAN)
        jobs = []
        for k in range(4):
            bits = [(i * (k + 3) + k) % (k + 2) == 0 for i in range(c["n"] + k)]
            packed = np.packbits(np.array(bits + [False] * (-len(bits) % 8), dtype=bool), bitorder="little").tobytes()
            items = [bytes([65 + k]) * (i % (k + 3)) + b"\x00" for i in range(c["n"] // 4 + k)]
            ba = b"".join(len(x).to_bytes(4, "little") + x for x in items)
            ints = np.arange(c["n"] + k, dtype="int64") * (k + 1)
            codes = pd.Series(np.arange(c["n"] + k, dtype="int16") % (100 + k))
            nul = pd.Series(np.where(np.arange(c["n"] + k) % (k + 2) == 0, np.nan, 1.0))
            jobs.append({
                "read_plain_boolean": lambda p=packed, n=len(bits): encoding.read_plain_boolean(p, n),
                "read_plain(BOOLEAN)": lambda p=packed, n=len(bits): encoding.read_plain(p, pt.Type.BOOLEAN, n),
                "read_plain(BYTE_ARRAY)": lambda b=ba, n=len(items): encoding.read_plain(b, pt.Type.BYTE_ARRAY, n),
                "unpack_byte_array": lambda b=ba, n=len(items): speedups.unpack_byte_array(b, n),
                "read_plain(INT64)": lambda a=ints: encoding.read_plain(a.tobytes(), pt.Type.INT64, len(a)),
                "pack_byte_array": lambda it=items: speedups.pack_byte_array(list(it)),
                "encode_plain(BOOLEAN)": lambda b=bits: writer.encode_plain(pd.Series(np.array(b, dtype=bool)), bse),
                "encode_dict": lambda s_=codes: writer.encode_dict(s_, None),
                "make_definitions": lambda s_=nul: writer.make_definitions(s_, False, 1)[0],
            })
        names = sorted(jobs[0])
        expected = [{nm: snap(j[nm]()) for nm in names} for j in jobs]
        problems = []

        def worker(k):
            for _ in range(c["rounds"]):
                for nm in names:
                    try:
                        r = jobs[k][nm]()
                        time.sleep(0)
                        if snap(r) != expected[k][nm]:
                            problems.append("%s in thread %d: the result is not the value of this thread's input any more" % (nm, k))
                    except Exception as e:      # noqa
                        problems.append("%s in thread %d: %s: %s" % (nm, k, type(e).__name__, str(e)[:80]))
        old = sys.getswitchinterval()
        sys.setswitchinterval(1e-6)
        try:
            ts = [threading.Thread(target=worker, args=(k,)) for k in range(4)]
            for t in ts:
                t.start()
            for t in ts:
                t.join()
        finally:
            sys.setswitchinterval(old)
        return ["ok", sorted(set(problems))[:6], len(problems)]

    def run(c):
        fn = c["fn"]
        if fn == "read_bitpacked":
            return decoder(c, lambda fi, o: cencoding.read_bitpacked(fi, c["header"], c["w"], o, c["isz"]))
        if fn == "read_bitpacked1":
            return decoder(c, lambda fi, o: cencoding.read_bitpacked1(fi, c["count"], o))
        if fn == "read_rle":
            return decoder(c, lambda fi, o: cencoding.read_rle(fi, c["header"], c["w"], o, c["isz"]))
        if fn == "read_hybrid":
            return decoder(c, lambda fi, o: cencoding.read_rle_bit_packed_hybrid(fi, c["w"], c["length"], o, c["isz"]))
        if fn == "read_varint":
            a = inbuf(c["inp"])
            fi = nio(a)
            v = cencoding.read_unsigned_var_int(fi)
            return ["ok", int(v), fi.tell()]
        if fn == "delta_unpack":
            return decoder(c, lambda fi, o: cencoding.delta_binary_unpack(fi, o, c["longval"]))
        if fn == "enc_varint":
            buf = outbuf(c["cap"])
            o = nio(buf[:c["cap"]])
            cencoding.encode_unsigned_varint(c["x"], o)
            return ["ok", buf.tobytes().hex(), o.tell()]
        if fn == "enc_bitpacked":
            buf = outbuf(c["cap"])
            o = nio(buf[:c["cap"]])
            cencoding.encode_bitpacked(np.array(c["vals"], dtype=np.int64).astype(np.int32), c["w"], o)
            return ["ok", buf.tobytes().hex(), o.tell()]
        if fn == "enc_rle_bp":
            buf = outbuf(c["cap"])
            o = nio(buf[:c["cap"]])
            cencoding.encode_rle_bp(np.array(c["vals"], dtype=np.int64).astype(np.int32), c["w"], o, c["withlength"])
            return ["ok", buf.tobytes().hex(), o.tell()]
        if fn == "write_bitpacked1":
            # input: one byte per value (the function fetches 8 of them at once)
            a = inbuf(c["inp"])
            buf = outbuf(c["cap"])
            fi = nio(a)
            o = nio(buf[:c["cap"]])
            cencoding.write_bitpacked1(fi, c["count"], o)
            return ["ok", buf.tobytes().hex(), fi.tell(), o.tell()]
        if fn == "width_from_max_int":
            return ["ok", int(cencoding.width_from_max_int(c["x"]))]
        if fn == "pack_byte_array":
            items = [bytes.fromhex(x) for x in c["items"]]
            return ["ok", hold(speedups.pack_byte_array(items)).hex()]
        if fn == "unpack_byte_array":
            a = inbuf(c["inp"])
            if len(a) == 0:
                a = np.empty(1, dtype=np.uint8)[1:]
            out = hold(speedups.unpack_byte_array(a, c["n"], utf=c.get("utf", False)))
            return ["ok", [None if x is None else (x.encode("utf-8", "surrogatepass").hex() if isinstance(x, str) else bytes(x).hex())
                           for x in out]]
        if fn == "read_plain_boolean":
            out = hold(encoding.read_plain_boolean(bytes.fromhex(c["inp"]), c["count"]))
            return ["ok", [int(x) for x in np.asarray(out).view(np.uint8)]]
        if fn == "read_plain":
            out = encoding.read_plain(bytes.fromhex(c["inp"]), c["type"], c["count"], c.get("width", 0))
            return ["ok", np.asarray(out).tobytes().hex(), len(out)]
        if fn == "read_plain_t":
            # encoding.read_plain through its dispatch, every physical type; the buffer the way the page readers hand it over
            from fastparquet import parquet_thrift as pt
            raw = bytes.fromhex(c["inp"]) + b"\xa5" * c.get("extra", 0)
            if c["buf"] == "ndarray":
                raw = np.frombuffer(raw, dtype=np.uint8).copy()
            elif c["buf"] == "memoryview":
                raw = memoryview(np.frombuffer(raw, dtype=np.uint8).copy())
            out = hold(encoding.read_plain(raw, getattr(pt.Type, c["type"]), c["count"], c["width"], utf=c["utf"], stat=c["stat"]))
            return ["ok", items_view(out, c["type"]), str(getattr(out, "dtype", type(out)))]
        if fn == "ba_roundtrip":
            from fastparquet import parquet_thrift as pt
            items = [bytes.fromhex(x) for x in c["items"]]
            src = [x.decode("utf-8") for x in items] if c["utf"] else items
            packed = speedups.pack_byte_array(src) if not c["utf"] else speedups.pack_byte_array([x.encode("utf-8") for x in src])
            a = np.frombuffer(packed, dtype=np.uint8).copy() if len(packed) else np.empty(1, dtype=np.uint8)[1:]
            back = hold(speedups.unpack_byte_array(a, len(items), utf=c["utf"]))
            back2 = hold(encoding.read_plain(packed, pt.Type.BYTE_ARRAY, len(items), utf=c["utf"]))
            return ["ok", items_view(back, "BYTE_ARRAY"), items_view(back2, "BYTE_ARRAY")]
        if fn == "encode_dict":
            import pandas as pd
            from fastparquet import writer
            data = pd.Series(np.array(c["vals"], dtype=c["dtype"]))
            enc = bytes(hold(writer.encode_dict(data, None)))
            # decoded back by the real decoder, the way core.read_data_page does for a foreign file (general hybrid branch)
            back = None
            if len(enc) > 1 and c["vals"] and not exact and data.values.dtype.itemsize <= 2:
                # (32-bit codes: the general hybrid path is the known width >= 25 defect; fastparquet reads its own pages
                #  through the array-view fast path, which the structural check of the oracle covers)
                raw = np.frombuffer(enc, dtype=np.uint8).copy()
                fi = NumpyIO(raw)
                width = fi.read_byte()
                o = np.full(len(c["vals"]), -1, dtype=np.int32)
                cencoding.read_rle_bit_packed_hybrid(fi, width, len(enc) - 1, NumpyIO(o.view(np.uint8)), 4)
                back = [int(x) for x in o]
            return ["ok", enc.hex(), back]
        if fn == "convert_bool":
            import pandas as pd
            from fastparquet import writer, parquet_thrift
            data = pd.Series(np.array(c["vals"], dtype=bool))
            se = parquet_thrift.SchemaElement(type=parquet_thrift.Type.BOOLEAN)
            return ["ok", bytes(hold(writer.encode_plain(data, se))).hex()]
        if fn == "make_definitions":
            import pandas as pd
            from fastparquet import writer
            vals = [None if v is None else float(v) for v in c["vals"]]
            data = pd.Series(np.array([np.nan if v is None else v for v in vals], dtype="float64"))
            block, out = writer.make_definitions(data, c["no_nulls"], c["version"])
            hold(block)
            # the packed not-null mask as the writer's own boolean packing produces it (parameter of the regenerated model)
            from fastparquet import parquet_thrift
            packed = bytes(writer.encode_plain(data.notnull(), parquet_thrift.SchemaElement(type=parquet_thrift.Type.BOOLEAN)))
            return ["ok", bytes(block).hex(), len(out), packed.hex()]
        if fn == "levels_v1":
            # the Python reader of LEVEL streams (definition / repetition levels of a v1 page): core.read_data on a length-prefixed
            # hybrid stream of any run structure, followed by the rest of the page
            from fastparquet import core, parquet_thrift as pt
            a = inbuf(c["inp"])
            fi = nio(a)
            out = hold(core.read_data(fi, pt.Encoding.RLE, c["count"], c["w"]))
            return ["ok", [int(x) for x in np.asarray(out)[:c["count"]]], fi.tell()]
        if fn == "make_definitions_big":
            # pages of millions of rows (the 3 -> 4 byte boundary of the run header at 2^20 groups): too big to ship through the
            # extracted spec decoder as lists - the block is taken apart here with independent Python (varint, length prefix) and
            # numpy's unpackbits (LSB first = the format's bit order)
            import pandas as pd
            from fastparquet import writer
            n = c["n"]
            vals = np.ones(n, dtype="float64")
            mask = np.ones(n, dtype=bool)
            for i in c["null_at"]:
                vals[i] = np.nan
                mask[i] = False
            block, out = writer.make_definitions(pd.Series(vals), False, c["version"])
            b = bytes(block)
            probs = []
            pos = 0
            if c["version"] == 1:
                if int.from_bytes(b[:4], "little") != len(b) - 4:
                    probs.append("length prefix %d, block body %d bytes" % (int.from_bytes(b[:4], "little"), len(b) - 4))
                pos = 4
            h = shift = 0
            while True:
                x = b[pos]
                pos += 1
                h |= (x & 127) << shift
                shift += 7
                if not x & 128:
                    break
            if not h & 1:
                probs.append("run header %d is not a bit-packed run" % h)
            groups = h >> 1
            body = b[pos:]
            if len(body) != groups:
                probs.append("run header announces %d groups (bytes at width 1), %d bytes follow" % (groups, len(body)))
            if groups * 8 < n:
                probs.append("%d groups hold fewer than %d levels" % (groups, n))
            got = np.unpackbits(np.frombuffer(body, dtype=np.uint8), bitorder="little")[:n].astype(bool)
            if len(got) != n or not (got == mask).all():
                probs.append("levels decode differently from the not-null mask (%d of %d present)" % (len(got), n))
            return ["ok", probs, len(b), b[:12].hex()]
        if fn == "page_v1_dict":
            # the Python CALLER of the native decoders: core.read_data_page on a foreign (not self-made) v1 data page
            # holding dictionary indices of width w (and, for an OPTIONAL column, width-1 definition levels)
            import io
            from fastparquet import parquet_thrift as pt, schema, core
            root_se = pt.SchemaElement(name="schema", num_children=1)
            ptype = pt.Type.BOOLEAN if c.get("rle_bool") else pt.Type.INT32
            penc = pt.Encoding.RLE if c.get("rle_bool") else pt.Encoding.RLE_DICTIONARY
            col_se = pt.SchemaElement(name="c", type=ptype,
                                      repetition_type=pt.FieldRepetitionType.OPTIONAL if c["optional"] else pt.FieldRepetitionType.REQUIRED)
            helper = schema.SchemaHelper([root_se, col_se])
            daph = pt.DataPageHeader(num_values=c["n"], encoding=penc,
                                     definition_level_encoding=pt.Encoding.RLE, repetition_level_encoding=pt.Encoding.RLE)
            page = bytes.fromhex(c["page"])
            header = pt.PageHeader(type=0, uncompressed_page_size=len(page), compressed_page_size=len(page), data_page_header=daph)
            md = pt.ColumnMetaData(type=ptype, path_in_schema=["c"], codec=0, num_values=c["n"], encodings=[8],
                                   total_uncompressed_size=len(page), total_compressed_size=len(page), data_page_offset=0)
            class Dic:              # the dictionary the chunk's dictionary page gave (the readers look at its size)
                def __len__(self):
                    return int(c.get("dic_len", 1 << 31))
            with Spy() as spy:
                defi, rep, values = core.read_data_page(io.BytesIO(page), helper, header, md, selfmade=bool(c.get("selfmade")), dic=Dic())
            hold(values)
            if defi is not None:
                hold(defi)
            return ["ok", [int(x) for x in np.asarray(values)], None if defi is None else [int(x) for x in np.asarray(defi)],
                    str(np.asarray(values).dtype), spy.calls]
        if fn == "page_v2_dict":
            # the v2 caller: core.read_data_page_v2 on a foreign RLE_DICTIONARY page (indices of width w, optional nulls)
            import io
            from fastparquet import parquet_thrift as pt, schema, core
            root_se = pt.SchemaElement(name="schema", num_children=1)
            ptype = pt.Type.BOOLEAN if c.get("rle_bool") else pt.Type.INT32
            col_se = pt.SchemaElement(name="c", type=ptype,
                                      repetition_type=pt.FieldRepetitionType.OPTIONAL if c["optional"] else pt.FieldRepetitionType.REQUIRED)
            helper = schema.SchemaHelper([root_se, col_se])
            page = bytes.fromhex(c["page"])
            dlen = c["dlen"]
            nn = c["n"] - c["nval"]
            h2 = pt.DataPageHeaderV2(num_values=c["n"], num_nulls=nn, num_rows=c["n"],
                                     encoding=pt.Encoding.RLE if c.get("rle_bool") else pt.Encoding.RLE_DICTIONARY,
                                     definition_levels_byte_length=dlen, repetition_levels_byte_length=0, is_compressed=False)
            ph = pt.PageHeader(type=3, uncompressed_page_size=len(page), compressed_page_size=len(page), data_page_header_v2=h2)
            md = pt.ColumnMetaData(type=ptype, path_in_schema=["c"], codec=0, num_values=c["n"], encodings=[8],
                                   total_uncompressed_size=len(page), total_compressed_size=len(page), data_page_offset=0)

            class Ident:            # a dictionary whose entry number k is k: the output shows the decoded indices
                def __getitem__(self, idx):
                    return np.asarray(idx).astype(np.int64)

                def __len__(self):
                    return int(c.get("dic_len", 1 << 31))
            if c.get("use_cat"):
                # categorical output: the page's indices ARE the result (codes array; nulls become -1)
                assign = np.full(c["n"], -7, dtype=c["adt"])
            else:
                assign = np.full(c["n"], -7, dtype=np.float64 if c["optional"] else np.int64)
            with Spy() as spy:
                core.read_data_page_v2(io.BytesIO(page), helper, col_se, h2, md, Ident(), assign, 0, bool(c.get("use_cat")), 0, ph,
                                       selfmade=bool(c.get("selfmade")))
            return ["ok", [None if (x != x) else int(x) for x in assign], None, str(assign.dtype), spy.calls]
        if fn == "codec_threads":
            return codec_threads(c)
        if fn == "dict_roundtrip":
            # the REAL encoder's output through the REAL page readers: writer.encode_dict on the codes pandas holds for a
            # categorical of `ncat` categories, wrapped into a v1 / v2 data page, read back as fastparquet reads its own files
            import io
            import pandas as pd
            from fastparquet import parquet_thrift as pt, schema, core, writer
            cdt = pd.Categorical.from_codes([0], categories=range(c["ncat"])).codes.dtype     # pandas' code dtype for that many categories
            codes = np.array(c["codes"], dtype=cdt)
            enc = bytes(writer.encode_dict(pd.Series(codes), None))
            n = c["n"]
            lv = c["levels"]
            root_se = pt.SchemaElement(name="schema", num_children=1)
            col_se = pt.SchemaElement(name="c", type=pt.Type.INT32,
                                      repetition_type=pt.FieldRepetitionType.OPTIONAL if c["optional"] else pt.FieldRepetitionType.REQUIRED)
            helper = schema.SchemaHelper([root_se, col_se])
            head = b""
            if c["optional"]:
                bits = bytearray((n + 7) // 8)
                for i, b_ in enumerate(lv):
                    bits[i // 8] |= b_ << (i % 8)
                hv = ((n + 7) // 8) << 1 | 1
                hb = bytearray()
                while hv > 127:
                    hb.append((hv & 127) | 128)
                    hv >>= 7
                hb.append(hv)
                head = bytes(hb) + bytes(bits)
            out = {"enc": enc.hex(), "codes_dtype": str(cdt)}
            md = pt.ColumnMetaData(type=pt.Type.INT32, path_in_schema=["c"], codec=0, num_values=n, encodings=[8],
                                   total_uncompressed_size=0, total_compressed_size=0, data_page_offset=0)
            for selfmade in (True, False):
                if not selfmade and enc[:1] == b"\x20":
                    continue            # 32-bit bit-packed runs through the generic decoder: the open .pyx finding
                # v1
                page = (len(head).to_bytes(4, "little") + head if c["optional"] else b"") + enc
                daph = pt.DataPageHeader(num_values=n, encoding=pt.Encoding.RLE_DICTIONARY,
                                         definition_level_encoding=pt.Encoding.RLE, repetition_level_encoding=pt.Encoding.RLE)
                header = pt.PageHeader(type=0, uncompressed_page_size=len(page), compressed_page_size=len(page), data_page_header=daph)
                try:
                    defi, rep, values = core.read_data_page(io.BytesIO(page), helper, header, md, selfmade=selfmade, dic=range(c["ncat"]))
                    out["v1/%s" % selfmade] = [int(x) for x in np.asarray(values)]
                except Exception as e:       # noqa
                    out["v1/%s" % selfmade] = ["exc", type(e).__name__, str(e)[:100]]
                # v2: categorical output and dictionary de-reference
                page = head + enc
                nn = n - len(c["codes"])
                for use_cat in (True, False):
                    h2 = pt.DataPageHeaderV2(num_values=n, num_nulls=nn, num_rows=n, encoding=pt.Encoding.RLE_DICTIONARY,
                                             definition_levels_byte_length=len(head), repetition_levels_byte_length=0, is_compressed=False)
                    ph = pt.PageHeader(type=3, uncompressed_page_size=len(page), compressed_page_size=len(page), data_page_header_v2=h2)

                    class Ident:
                        def __getitem__(self, idx):
                            # (a dictionary of ncat entries: label k = k; numpy's negative indexing included)
                            return np.arange(c["ncat"], dtype=np.int64)[np.asarray(idx)]

                        def __len__(self):
                            return c["ncat"]
                    assign = np.full(n, -7, dtype=cdt) if use_cat else np.full(n, -7, dtype=np.float64 if c["optional"] else np.int64)
                    try:
                        core.read_data_page_v2(io.BytesIO(page), helper, col_se, h2, md, Ident(), assign, 0, use_cat, 0, ph,
                                               selfmade=selfmade)
                        out["v2/%s/%s" % (selfmade, "cat" if use_cat else "deref")] = [None if (x != x) else int(x) for x in assign]
                    except Exception as e:       # noqa
                        out["v2/%s/%s" % (selfmade, "cat" if use_cat else "deref")] = ["exc", type(e).__name__, str(e)[:100]]
            return ["ok", out]
        if fn == "page_delta":
            # the Python callers of delta_binary_unpack: core.read_data_page / read_data_page_v2 on a DELTA_BINARY_PACKED page
            import io
            from fastparquet import parquet_thrift as pt, schema, core
            typ = pt.Type.INT64 if c["longval"] else pt.Type.INT32
            root_se = pt.SchemaElement(name="schema", num_children=1)
            col_se = pt.SchemaElement(name="c", type=typ, repetition_type=pt.FieldRepetitionType.REQUIRED)
            helper = schema.SchemaHelper([root_se, col_se])
            page = bytes.fromhex(c["inp"])
            md = pt.ColumnMetaData(type=typ, path_in_schema=["c"], codec=0, num_values=c["n"], encodings=[5],
                                   total_uncompressed_size=len(page), total_compressed_size=len(page), data_page_offset=0)
            if c["version"] == 1:
                daph = pt.DataPageHeader(num_values=c["n"], encoding=pt.Encoding.DELTA_BINARY_PACKED,
                                         definition_level_encoding=pt.Encoding.RLE, repetition_level_encoding=pt.Encoding.RLE)
                header = pt.PageHeader(type=0, uncompressed_page_size=len(page), compressed_page_size=len(page), data_page_header=daph)
                defi, rep, values = core.read_data_page(io.BytesIO(page), helper, header, md, selfmade=False)
                return ["ok", [int(x) for x in np.asarray(values)], str(np.asarray(values).dtype)]
            h2 = pt.DataPageHeaderV2(num_values=c["n"], num_nulls=0, num_rows=c["n"], encoding=pt.Encoding.DELTA_BINARY_PACKED,
                                     definition_levels_byte_length=0, repetition_levels_byte_length=0, is_compressed=False)
            ph = pt.PageHeader(type=3, uncompressed_page_size=len(page), compressed_page_size=len(page), data_page_header_v2=h2)
            assign = np.full(c["n"], -7, dtype=c["adt"])
            core.read_data_page_v2(io.BytesIO(page), helper, col_se, h2, md, None, assign, 0, False, 0, ph)
            return ["ok", [int(x) for x in assign], str(assign.dtype)]
        if fn == "numpyio":
            # a small script of NumpyIO operations
            buf = outbuf(c["cap"])
            buf[:c["cap"]] = np.frombuffer(bytes.fromhex(c["init"]), dtype=np.uint8)[:c["cap"]] if c.get("init") else FILL
            o = nio(buf[:c["cap"]])
            trace = []
            for op in c["ops"]:
                k = op[0]
                if k == "write_byte":
                    o.write_byte(op[1]); trace.append(o.tell())
                elif k == "write_int":
                    o.write_int(op[1]); trace.append(o.tell())
                elif k == "read_int":
                    trace.append([int(o.read_int()), o.tell()])
                elif k == "seek":
                    trace.append(int(o.seek(op[1], op[2])))
                elif k == "read_byte_checked":
                    if o.tell() < c["cap"]:
                        trace.append([int(o.read_byte()), o.tell()])
                    else:
                        trace.append("end")
            return ["ok", buf.tobytes().hex(), trace]
        return ["unknown-fn", fn]

    cases = json.load(open(cases_p))
    with open(out_p, "a") as out:
        start = int(sys.argv[5]) if len(sys.argv) > 5 else 0
        for i in range(start, len(cases)):
            sys.stderr.write("@@CASE %d\n" % i)
            sys.stderr.flush()
            cur["i"] = i
            try:
                r = run(cases[i])
            except BaseException as e:      # noqa
                r = ["exc", type(e).__name__, str(e)[:200]]
            out.write(json.dumps([i, r]) + "\n")
            out.flush()
            recheck(out, 48)
        recheck(out, 0)


if __name__ == "__main__":
    main()
