"""Shared helpers of the C04 / C17 checks: column specs as data (replayable), an independent decoder of
the column chunks AS STORED in a written file, the Parquet orderings, logical views of physical values.

Nothing here uses pandas to decide what a statistic should be: the stored pages are decoded with
struct/numpy (page headers through fastparquet's thrift reader, decompression through
fastparquet.compression = cramjam, both trusted), the comparison logic is plain Python.
import fastparquet only after C.use_shadow()."""
import struct

import numpy as np


# ---------------------------------------------------------------------------------------------
# column specs (JSON-able) -> pandas Series
# ---------------------------------------------------------------------------------------------

def fl(x):
    """float -> JSON-able text that keeps NaN / inf / -0.0 / every bit of a finite value"""
    return float(x).hex() if x == x else "nan"


def build_series(spec, name=None):
    import pandas as pd
    k = spec["k"]
    v = spec["v"]
    if k == "np":
        dt = spec["dtype"]
        if dt.startswith("float"):
            arr = np.array([float.fromhex(x) if x != "nan" else float("nan") for x in v], dtype="float64").astype(dt)
        else:
            arr = np.array(v, dtype=dt)
        return pd.Series(arr, name=name)
    if k == "ext":
        dt = spec["dtype"]
        if dt.startswith("Float"):
            vals = [None if x is None else float.fromhex(x) for x in v]
        else:
            vals = v
        return pd.Series(pd.array(vals, dtype=dt), name=name)
    if k in ("dt", "td"):
        unit = spec["unit"]
        iv = np.array([np.iinfo("int64").min if x is None else x for x in v], dtype="int64")
        arr = iv.view(("M8[%s]" if k == "dt" else "m8[%s]") % unit)
        s = pd.Series(arr, name=name)
        if k == "dt" and spec.get("tz"):
            s = s.dt.tz_localize("UTC").dt.tz_convert(spec["tz"])
        return s
    if k == "str":
        return pd.Series(v, dtype="str", name=name)
    if k == "ostr":
        return pd.Series(v, dtype=object, name=name)
    if k == "obytes":
        return pd.Series([None if x is None else bytes.fromhex(x) for x in v], dtype=object, name=name)
    if k in ("oint", "obool"):
        return pd.Series(v, dtype=object, name=name)
    if k == "ofloat":
        return pd.Series([None if x is None else float.fromhex(x) for x in v], dtype=object, name=name)
    if k == "odec":
        from decimal import Decimal
        return pd.Series([None if x is None else Decimal(x) for x in v], dtype=object, name=name)
    if k in ("lstr", "lostr", "lbytes"):
        vals = [None if x is None else expand_long(x, k == "lbytes") for x in v]
        return pd.Series(vals, dtype="str" if k == "lstr" else object, name=name)
    if k == "cat":
        labels = build_series(spec["cats"])
        cat = pd.Categorical.from_codes(np.array(v, dtype="int64"), categories=pd.Index(labels), ordered=bool(spec.get("ordered")))
        return pd.Series(cat, name=name)
    raise ValueError(k)


def expand_long(item, as_bytes=False):
    """a long text/binary value stored compactly in case specs: [unit, length, tail] = `unit` repeated and cut
    so that the whole value has `length` characters and ends in `tail` (values that share a long common prefix
    and differ only at the very end); bytes values are the latin-1 bytes of that text"""
    unit, length, tail = item
    body = (unit * (length // max(1, len(unit)) + 1))[:max(0, length - len(tail))] + tail
    return body.encode("latin-1") if as_bytes else body


def open_case(case, path):
    import os
    from fastparquet import ParquetFile
    if case["opts"].get("multi"):
        return ParquetFile([os.path.join(path, "f1.parquet"), os.path.join(path, "f2.parquet")])
    return ParquetFile(path)


def build_frame(cols):
    import pandas as pd
    return pd.DataFrame({c["name"]: build_series(c, c["name"]) for c in cols})


def write_case(case, path):
    """Write the frame of `case` with its options through the real writer. Returns nothing."""
    from fastparquet import writer
    df = build_frame(case["cols"])
    o = case["opts"]
    old = (writer.DATAPAGE_VERSION, writer.MAX_PAGE_SIZE)
    writer.DATAPAGE_VERSION = 2 if o.get("v2") else 1
    writer.MAX_PAGE_SIZE = o.get("page") or old[1]
    try:
        kw = {}
        for key in ("stats", "has_nulls", "compression", "times", "object_encoding", "fixed_text", "file_scheme"):
            if key in o:
                kw[key] = o[key]
        if o.get("multi"):
            # a dataset of two files written from the same frame with the columns in OPPOSITE order (row groups that list their chunks
            # in different orders), opened as ParquetFile([f1, f2])
            import os
            k = o["multi"]
            kw.pop("file_scheme", None)
            os.mkdir(path)
            rgo = o.get("rgo") or [0]
            writer.write(os.path.join(path, "f1.parquet"), df.iloc[:k].reset_index(drop=True), write_index=False,
                         row_group_offsets=[x for x in rgo if x < k] or [0], **kw)
            writer.write(os.path.join(path, "f2.parquet"), df.iloc[k:][list(df.columns)[::-1]].reset_index(drop=True), write_index=False,
                         row_group_offsets=sorted({0} | {x - k for x in rgo if x >= k}), **kw)
            return
        if o.get("rgo") is not None:
            kw["row_group_offsets"] = o["rgo"]
        writer.write(path, df, write_index=False, **kw)
    finally:
        writer.DATAPAGE_VERSION, writer.MAX_PAGE_SIZE = old


# ---------------------------------------------------------------------------------------------
# decoding the chunk as stored
# ---------------------------------------------------------------------------------------------

def _uvarint(b, pos):
    r = 0
    sh = 0
    while True:
        x = b[pos]
        pos += 1
        r |= (x & 0x7F) << sh
        if not x & 0x80:
            return r, pos
        sh += 7


def hybrid_decode(b, bw, count):
    """RLE / bit-packed hybrid (Encodings.md): returns `count` non-negative ints."""
    out = []
    pos = 0
    nb = (bw + 7) // 8
    while len(out) < count:
        h, pos = _uvarint(b, pos)
        if h & 1:
            groups = h >> 1
            nbytes = groups * bw
            chunk = bytes(b[pos:pos + nbytes])
            pos += nbytes
            acc = int.from_bytes(chunk, "little")
            mask = (1 << bw) - 1
            n = min(groups * 8, (len(chunk) * 8) // bw if bw else 0)
            for i in range(n):
                out.append((acc >> (i * bw)) & mask)
        else:
            run = h >> 1
            val = int.from_bytes(bytes(b[pos:pos + nb]), "little")
            pos += nb
            out.extend([val] * run)
        if h == 0 and bw == 0:
            break
    return out[:count]


_FIXED = {1: ("<u4", 4), 2: ("<u8", 8), 4: ("<u4", 4), 5: ("<u8", 8)}   # INT32 INT64 FLOAT DOUBLE bit patterns


def plain_decode(raw, ptype, count, type_length=None):
    """PLAIN values as physical values: bit patterns (ints) or bytes."""
    raw = bytes(raw)
    if ptype in _FIXED:
        dt, w = _FIXED[ptype]
        return [int(x) for x in np.frombuffer(raw, dtype=dt, count=count)]
    if ptype == 0:     # BOOLEAN, bits LSB first
        return [(raw[i >> 3] >> (i & 7)) & 1 for i in range(count)]
    if ptype == 3:     # INT96
        return [int.from_bytes(raw[12 * i:12 * i + 12], "little") for i in range(count)]
    if ptype == 6:     # BYTE_ARRAY
        out = []
        pos = 0
        for _ in range(count):
            (ln,) = struct.unpack_from("<I", raw, pos)
            out.append(raw[pos + 4:pos + 4 + ln])
            pos += 4 + ln
        return out
    if ptype == 7:
        return [raw[type_length * i:type_length * (i + 1)] for i in range(count)]
    raise ValueError(ptype)


def decode_chunk(fbytes, cmd, optional, type_length=None):
    """-> dict(pages=[[cell,...],...] cell = None | physical value, dict=[...] | None,
              codes=[[code|None,...],...] | None, v2_nulls=[header num_nulls per v2 page])"""
    from fastparquet.cencoding import NumpyIO, from_buffer
    from fastparquet.compression import decompress_data
    off = min(cmd.dictionary_page_offset or cmd.data_page_offset, cmd.data_page_offset)
    chunk = np.frombuffer(fbytes[off:off + cmd.total_compressed_size], dtype="uint8")
    io = NumpyIO(chunk)
    pages, codes, dic, v2n = [], [], None, []
    seen = 0
    codec = cmd.codec or 0

    def dec(b, size):
        if codec == 0:
            return bytes(b)
        return bytes(decompress_data(bytes(b), size, codec))
    while seen < cmd.num_values and io.tell() < len(chunk):
        ph = from_buffer(io, "PageHeader")
        pos = io.tell()
        payload = chunk[pos:pos + ph.compressed_page_size]
        io.seek(pos + ph.compressed_page_size)
        if ph.type == 2:      # DICTIONARY_PAGE
            raw = dec(payload, ph.uncompressed_page_size)
            dic = plain_decode(raw, cmd.type, ph.dictionary_page_header.num_values, type_length)
            continue
        if ph.type == 0:      # DATA_PAGE
            h = ph.data_page_header
            raw = dec(payload, ph.uncompressed_page_size)
            n = h.num_values
            p = 0
            if optional:
                (ln,) = struct.unpack_from("<I", raw, 0)
                levels = hybrid_decode(raw[4:4 + ln], 1, n)
                p = 4 + ln
            else:
                levels = [1] * n
            enc = h.encoding
            data = raw[p:]
        elif ph.type == 3:    # DATA_PAGE_V2
            h = ph.data_page_header_v2
            n = h.num_values
            rl, dl = h.repetition_levels_byte_length or 0, h.definition_levels_byte_length or 0
            payload = bytes(payload)
            levels = hybrid_decode(payload[rl:rl + dl], 1, n) if optional and dl else [1] * n
            data = payload[rl + dl:]
            if h.is_compressed is None or h.is_compressed:
                data = dec(data, ph.uncompressed_page_size - rl - dl)
            enc = h.encoding
            v2n.append(h.num_nulls)
        else:
            continue
        nn = sum(levels)
        if enc == 0:          # PLAIN
            vals = plain_decode(data, cmd.type, nn, type_length)
            idx = None
        elif enc in (2, 8):   # PLAIN_DICTIONARY / RLE_DICTIONARY
            bw = data[0]
            idx = hybrid_decode(data[1:], bw, nn)
            vals = [dic[i] for i in idx]
        else:
            raise NotImplementedError("encoding %s" % enc)
        it = iter(vals)
        pages.append([next(it) if lv else None for lv in levels])
        if idx is not None:
            it2 = iter(idx)
            codes.append([next(it2) if lv else None for lv in levels])
        seen += n
    return {"pages": pages, "dict": dic, "codes": codes if dic is not None and len(codes) == len(pages) else None,
            "v2_nulls": v2n}


# ---------------------------------------------------------------------------------------------
# Parquet orderings (from the format documents: column order TYPE_ORDER per physical/logical type)
# ---------------------------------------------------------------------------------------------
UNSIGNED_CT = (11, 12, 13, 14)     # ConvertedType UINT_8 .. UINT_64


def ordering(ptype, converted_type):
    """-> (ord s-expression for pqref, python key function or None=bytes, ordered predicate)"""
    if ptype == 0:
        return ["unsigned"], (lambda v: v), (lambda v: True)
    if ptype in (1, 2):
        w = 32 if ptype == 1 else 64
        if converted_type in UNSIGNED_CT:
            return ["unsigned"], (lambda v: v), (lambda v: True)
        return ["signed", w], (lambda v, w=w: v - (1 << w) if v >> (w - 1) else v), (lambda v: True)
    if ptype == 3:
        def k96(v):
            day = v >> 64
            day = day - (1 << 32) if day >> 31 else day
            return (day, v & ((1 << 64) - 1))
        return ["int96"], k96, (lambda v: True)
    if ptype == 4:
        f = lambda v: struct.unpack("<f", struct.pack("<I", v))[0]
        return ["float", 8, 23], f, (lambda v: f(v) == f(v))
    if ptype == 5:
        d = lambda v: struct.unpack("<d", struct.pack("<Q", v))[0]
        return ["float", 11, 52], d, (lambda v: d(v) == d(v))
    return ["bytes"], (lambda v: v), (lambda v: True)


PTYPE_NAME = {0: "BOOLEAN", 1: "INT32", 2: "INT64", 3: "INT96", 4: "FLOAT", 5: "DOUBLE", 6: "BYTE_ARRAY",
              7: "FIXED_LEN_BYTE_ARRAY"}
PWIDTH = {1: 4, 2: 8, 3: 12, 4: 4, 5: 8}


def raw_to_phys(ptype, raw):
    """My own reading of one PLAIN-encoded statistics value (None when malformed)."""
    raw = bytes(raw)
    if ptype == 0:
        return raw[0] & 1 if len(raw) >= 1 else None
    if ptype in PWIDTH:
        return int.from_bytes(raw, "little") if len(raw) == PWIDTH[ptype] else None
    return raw


def logical(ptype, se, phys):
    """Logical value of a physical value, in a canonical comparable form (tag, value)."""
    ct = se.converted_type
    lt = se.logicalType
    if ptype == 0:
        return ("bool", bool(phys))
    if ptype in (1, 2):
        w = 32 if ptype == 1 else 64
        sv = phys - (1 << w) if phys >> (w - 1) else phys
        if lt is not None and lt.TIMESTAMP is not None:
            u = lt.TIMESTAMP.unit
            unit = "ns" if u.NANOS is not None else ("us" if u.MICROS is not None else "ms")
            return ("M8[%s]" % unit, sv)
        if ct in UNSIGNED_CT:
            return ("int", phys)
        if ct == 9:
            return ("M8[ms]", sv)
        if ct == 10:
            return ("M8[us]", sv)
        if ct == 8:
            return ("m8[us]", sv)
        if ct == 7:
            return ("m8[ns]", sv * 1000000)
        if ct == 6:
            return ("M8[ns]", sv * 86400000000000)
        return ("int", sv)
    if ptype == 3:
        day = phys >> 64
        day = day - (1 << 32) if day >> 31 else day
        return ("M8[ns]", (day - 2440588) * 86400000000000 + (phys & ((1 << 64) - 1)))
    if ptype == 4:
        return ("float", struct.unpack("<f", struct.pack("<I", phys))[0])
    if ptype == 5:
        return ("float", struct.unpack("<d", struct.pack("<Q", phys))[0])
    if ct == 0:
        b = phys.rstrip(b"\x00") if ptype == 7 else phys
        return ("str", b.decode("utf-8"))
    return ("bytes", phys.rstrip(b"\x00") if ptype == 7 else phys)


def user_canon(x):
    """What ParquetFile.statistics hands out, in the same canonical form."""
    import pandas as pd
    if x is None:
        return None
    if isinstance(x, (bool, np.bool_)):
        return ("bool", bool(x))
    if isinstance(x, np.datetime64):
        unit = np.datetime_data(x.dtype)[0]
        return ("M8[%s]" % unit, int(x.astype("int64")))
    if isinstance(x, np.timedelta64):
        unit = np.datetime_data(x.dtype)[0]
        return ("m8[%s]" % unit, int(x.astype("int64")))
    if isinstance(x, pd.Timestamp):
        return ("M8[ns]", int(x.value))
    if isinstance(x, (int, np.integer)):
        return ("int", int(x))
    if isinstance(x, (float, np.floating)):
        return ("float", float(x))
    if isinstance(x, str):
        return ("str", x)
    if isinstance(x, (bytes, np.bytes_)):
        return ("bytes", bytes(x))
    return ("other", repr(x))


def same_logical(a, b):
    if a is None or b is None:
        return a is b
    if a[0] == "float" and b[0] == "float":
        return a[1] == b[1]          # -0.0 == 0.0: the same value under the type's order
    if a[0].startswith(("M8", "m8")) and b[0][:2] == a[0][:2]:
        f = {"s": 10**9, "ms": 10**6, "us": 10**3, "ns": 1}
        ua, ub = a[0][3:-1], b[0][3:-1]
        return a[1] * f[ua] == b[1] * f[ub]
    if a[0] == "bytes" and b[0] == "bytes":
        return a[1].rstrip(b"\x00") == b[1].rstrip(b"\x00")
    return a == b
