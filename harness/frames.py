"""Generated DataFrames over the dtypes of the properties' quantifiers, as DATA (a spec that can be
stored in a replay and rebuilt), and the cell-wise comparison the round-trip properties use.

A frame spec is {"n": rows, "cols": [colspec...], "index": None | colspec}; a colspec is
{"name", "kind", "nulls": pattern, "seed": int, ...kind parameters}.  build(spec) is deterministic.
"""
import json
import random

import numpy as np
import pandas as pd

INT_KINDS = ["int8", "int16", "int32", "int64", "uint8", "uint16", "uint32", "uint64"]
NULLABLE_INT = ["Int8", "Int16", "Int32", "Int64", "UInt8", "UInt16", "UInt32", "UInt64"]
KINDS = (["bool", "float32", "float64"] + INT_KINDS + NULLABLE_INT + ["boolean"] +
         ["str", "string", "bytes", "json",
          "dt_s", "dt_ms", "dt_us", "dt_ns", "dttz_s", "dttz_ms", "dttz_us", "dttz_ns",
          "td_us", "td_ns", "td_ms", "td_s",
          "cat_str", "cat_int", "cat_float", "cat_str_ordered", "cat_bool", "cat_dt"])
NULL_PATTERNS = ["none", "some", "all", "first", "last"]
SIZES = [0, 1, 2, 7, 8, 9, 63, 64, 65, 127, 128, 129, 255, 256, 257, 8191, 8192, 8193]
TZS = ["UTC", "Europe/Berlin", "US/Pacific"]

# kinds whose dtype cannot hold a missing value (null pattern is forced to "none")
NO_NULL_KINDS = set(["bool"] + INT_KINDS)


def null_mask(pattern, n, rng):
    m = np.zeros(n, dtype=bool)
    if n == 0 or pattern == "none":
        return m
    if pattern == "all":
        m[:] = True
    elif pattern == "first":
        m[0] = True
    elif pattern == "last":
        m[-1] = True
    else:
        for i in range(n):
            m[i] = rng.random() < 0.3
        if not m.any():
            m[rng.randrange(n)] = True
    return m


_WORDS = ["", "a", "b", "abc", "é", "日本", "\U0001F600", "x" * 17, "0.7", "True", "nan", "None", " sp ace ", "a/b=c"]


def tz_of(t):
    """zone of a colspec: a zone name (str, as before) or, added in wave 3, a FIXED offset given as data:
    {"fixed_s": seconds} / {"fixed_us": microseconds} -> datetime.timezone"""
    if isinstance(t, dict):
        import datetime
        if "fixed_us" in t:
            return datetime.timezone(datetime.timedelta(microseconds=t["fixed_us"]))
        return datetime.timezone(datetime.timedelta(seconds=t["fixed_s"]))
    return t


def col_values(cs, n):
    """-> pandas Series for a colspec."""
    rng = random.Random(cs["seed"])
    kind = cs["kind"]
    pat = "none" if kind in NO_NULL_KINDS else cs.get("nulls", "none")
    m = null_mask(pat, n, rng)
    name = cs["name"]
    if kind == "bool":
        return pd.Series(np.array([rng.random() < 0.5 for _ in range(n)], dtype=bool), name=name)
    if kind in INT_KINDS or kind in NULLABLE_INT:
        base = kind.lower()
        info = np.iinfo(base)
        edge = [info.min, info.max, 0, 1, info.max - 1, info.min + 1 if info.min else 2]
        vals = np.array([rng.choice(edge) if rng.random() < 0.3 else rng.randint(info.min, info.max) for _ in range(n)],
                        dtype=base)
        if kind in INT_KINDS:
            return pd.Series(vals, name=name)
        return pd.Series(pd.arrays.IntegerArray(vals, m.copy()), name=name)
    if kind == "boolean":
        vals = np.array([rng.random() < 0.5 for _ in range(n)], dtype=bool)
        return pd.Series(pd.arrays.BooleanArray(vals, m.copy()), name=name)
    if kind in ("float32", "float64"):
        special = [0.0, -0.0, float("inf"), float("-inf"), 1.5, -2.25, 1e-300 if kind == "float64" else 1e-30, 3.0e38 if kind == "float32" else 1.7e308]
        vals = np.array([rng.choice(special) if rng.random() < 0.3 else rng.uniform(-1e6, 1e6) for _ in range(n)], dtype=kind)
        vals[m] = np.nan
        return pd.Series(vals, name=name)
    if kind in ("str", "string"):
        vals = [None if m[i] else (rng.choice(_WORDS) if rng.random() < 0.5 else "s%d" % rng.randrange(1000)) for i in range(n)]
        if kind == "string":
            return pd.Series(pd.array(vals, dtype="string"), name=name)
        return pd.Series(vals, dtype=object, name=name)
    if kind == "bytes":
        vals = [None if m[i] else bytes(rng.randrange(256) for _ in range(rng.choice([0, 1, 3, 9]))) for i in range(n)]
        return pd.Series(vals, dtype=object, name=name)
    if kind == "json":
        def obj():
            c = rng.randrange(4)
            if c == 0:
                return {"a": rng.randrange(10), "b": [1, 2, {"c": "é"}]}
            if c == 1:
                return [rng.randrange(5), "x", None]
            if c == 2:
                return {"k": rng.choice(_WORDS)}
            return []
        vals = [None if m[i] else obj() for i in range(n)]
        return pd.Series(vals, dtype=object, name=name)
    if kind.startswith("dt"):
        unit = kind.split("_")[1]
        per = {"s": 1, "ms": 10**3, "us": 10**6, "ns": 10**9}[unit]
        lo, hi = -2 * 10**9, 4 * 10**9           # seconds: 1906 .. 2096 (inside the ns range)
        vals = np.array([rng.randint(lo, hi) * per + rng.randrange(per) for _ in range(n)], dtype="int64").view("M8[%s]" % unit)
        vals = vals.copy()
        vals[m] = np.datetime64("NaT")
        s = pd.Series(vals, name=name)
        if kind.startswith("dttz"):
            s = s.dt.tz_localize("UTC").dt.tz_convert(tz_of(cs.get("tz", "UTC")))
        return s
    if kind.startswith("td_"):
        unit = kind.split("_")[1]
        per_us = {"s": 10**6, "ms": 10**3, "us": 1, "ns": None}[unit]
        if unit == "ns":
            vals = np.array([rng.randint(-10**15, 10**15) * 1000 for _ in range(n)], dtype="int64")   # whole microseconds
        else:
            vals = np.array([rng.randint(-10**9, 10**9) for _ in range(n)], dtype="int64")
        vals = vals.view("m8[%s]" % unit).copy()
        vals[m] = np.timedelta64("NaT")
        return pd.Series(vals, name=name)
    if kind.startswith("cat_"):
        ncat = cs.get("ncat", 5)
        if kind in ("cat_str", "cat_str_ordered"):
            labels = ["c%03d" % i for i in range(ncat)]
            rng.shuffle(labels)                     # category order != value order
        elif kind == "cat_int":
            labels = rng.sample(range(-1000, 1000), ncat)
        elif kind == "cat_bool":
            ncat = min(ncat, 2)
            labels = [[False, True], [True, False], [True], [False]][rng.randrange(4 if ncat == 1 else 2) if ncat == 2 else 2 + rng.randrange(2)]
            ncat = len(labels)
        elif kind == "cat_dt":
            labels = [pd.Timestamp("2020-01-01") + pd.Timedelta(hours=h) for h in rng.sample(range(0, 100000), ncat)]
        else:
            labels = [x + 0.5 for x in rng.sample(range(-1000, 1000), ncat)]
        codes = np.array([rng.randrange(ncat) for _ in range(n)], dtype="int64")
        codes[m] = -1
        # (wave 7: a colspec may say "ordered": true / false for ANY categorical kind; default as before)
        cat = pd.Categorical.from_codes(codes, categories=labels, ordered=bool(cs.get("ordered", kind == "cat_str_ordered")))
        return pd.Series(cat, name=name)
    raise ValueError(kind)


def build(spec):
    n = spec["n"]
    data = {}
    for cs in spec["cols"]:
        data[cs["name"]] = col_values(cs, n)
    df = pd.DataFrame(data) if data else pd.DataFrame(index=pd.RangeIndex(n))
    if spec.get("index"):
        if spec["index"]["kind"] == "range":
            # a stored (metadata-only) range index: start / step / name as given, exactly n labels
            a, st = spec["index"]["start"], spec["index"]["step"]
            df.index = pd.RangeIndex(a, a + n * st, st, name=spec["index"]["name"])
        else:
            ix = col_values(spec["index"], n)
            df.index = pd.Index(ix, name=spec["index"]["name"])
    return df


def gen_spec(rng, n=None, ncols=None, kinds=None, index=None):
    n = rng.choice(SIZES) if n is None else n
    kinds = kinds or KINDS
    ncols = ncols if ncols is not None else rng.choice([1, 2, 3, 5])
    cols = []
    for i in range(ncols):
        k = rng.choice(kinds)
        cs = {"name": "c%d_%s" % (i, k), "kind": k, "nulls": rng.choice(NULL_PATTERNS), "seed": rng.randrange(1 << 30)}
        if k.startswith("dttz"):
            cs["tz"] = rng.choice(TZS)
        if k.startswith("cat_"):
            cs["ncat"] = rng.choice([1, 2, 5, 130, 300])
        cols.append(cs)
    spec = {"n": n, "cols": cols, "index": None}
    if index is None:
        index = rng.random() < 0.25
    if index and n > 0:
        k = rng.choice(["int64", "str", "dt_ns", "float64", "range", "range"])
        if k == "range":
            spec["index"] = {"name": rng.choice([None, None, "r"]), "kind": "range",
                             "start": rng.choice([0, 0, 0, 1, 5, -3]), "step": rng.choice([1, 2, 2, 3, -1, -2])}
        else:
            spec["index"] = {"name": "idx", "kind": k, "nulls": "none", "seed": rng.randrange(1 << 30)}
    return spec


# --------------------------------------------------------------------------------------------
# comparison

def canonical_dtype(dt):
    """documented canonical form of an input dtype after a write/read round trip (default options)"""
    s = str(dt)
    if s in ("str", "string", "object") or s.startswith("string"):
        return "object"
    if s == "float16":
        return "float32"
    if s in ("Float32", "Float64"):
        return s.lower()
    return s


def _isna_cell(x):
    try:
        r = pd.isna(x)
        return bool(r) if isinstance(r, (bool, np.bool_)) else False
    except (TypeError, ValueError):
        return False


def cells(series):
    """-> (list of python-comparable values with None for missing) for a Series"""
    dt = series.dtype
    if isinstance(dt, pd.CategoricalDtype):
        cats = list(series.cat.categories)
        return [None if c < 0 else cats[c] for c in series.cat.codes]
    kind = getattr(dt, "kind", "O")
    if kind in "mM" or isinstance(dt, pd.DatetimeTZDtype):
        if isinstance(dt, pd.DatetimeTZDtype):
            arr = series.dt.tz_convert("UTC").dt.tz_localize(None).values
        else:
            arr = series.values
        unit = np.datetime_data(arr.dtype)[0]
        iv = arr.view("int64")
        nat = np.iinfo("int64").min
        mul = {"s": 10**9, "ms": 10**6, "us": 10**3, "ns": 1}[unit]
        return [None if v == nat else int(v) * mul for v in iv]          # nanoseconds as python ints
    if kind == "f":
        arr = series.values
        bits = arr.view("uint%d" % (arr.dtype.itemsize * 8))
        return [None if np.isnan(v) else ("f", int(b)) for v, b in zip(arr, bits)]
    out = []
    for x in series.tolist():
        if x is None or _isna_cell(x):
            out.append(None)
        elif isinstance(x, float):
            out.append(("f", int(np.array([x], dtype="float64").view("uint64")[0])))
        elif isinstance(x, (np.integer,)):
            out.append(int(x))
        elif isinstance(x, (np.bool_,)):
            out.append(bool(x))
        else:
            out.append(x)
    return out


def _norm_float(c, width_to=None):
    return c


def compare_series(a, b, what, float_widen=False):
    """a = original, b = read back.  Returns list of problem strings."""
    probs = []
    ca, cb = cells(a), cells(b)
    if len(ca) != len(cb):
        return ["%s: %d rows written, %d read" % (what, len(ca), len(cb))]
    if float_widen:
        # float16->float32 / Float32 ext: compare numerically
        ca = [None if x is None else float(np.array([x[1]], dtype="uint%d" % (a.values.dtype.itemsize * 8)).view(a.values.dtype)[0]) for x in ca]
        cb = [None if x is None else float(np.array([x[1]], dtype="uint%d" % (b.values.dtype.itemsize * 8)).view(b.values.dtype)[0]) for x in cb]
    for i, (x, y) in enumerate(zip(ca, cb)):
        if x is None and y is None:
            continue
        if x is None or y is None:
            probs.append("%s row %d: missingness differs (wrote %r, read %r)" % (what, i, a.iloc[i], b.iloc[i]))
        elif x != y:
            # bool vs numpy bool, int vs float equal numerically are fine only if types are the same kind
            if isinstance(x, tuple) and isinstance(y, tuple) and x[0] == "f" and y[0] == "f" and (x[1] << 1) == 0 and (y[1] << 1) == 0:
                pass
            else:
                probs.append("%s row %d: wrote %r, read %r" % (what, i, a.iloc[i], b.iloc[i]))
        if len(probs) >= 3:
            break
    return probs


def compare_dtype(a, b, what, allowed_extra=()):
    da, db = a.dtype, b.dtype
    if isinstance(da, pd.CategoricalDtype):
        if not isinstance(db, pd.CategoricalDtype):
            return ["%s: categorical came back as %s" % (what, db)]
        probs = []
        if bool(da.ordered) != bool(db.ordered):
            probs.append("%s: ordered flag %s -> %s" % (what, da.ordered, db.ordered))
        la, lb = list(da.categories), list(db.categories)
        if la != lb:
            probs.append("%s: category labels %r -> %r" % (what, la[:6], lb[:6]))
        elif canonical_dtype(da.categories.dtype) != canonical_dtype(db.categories.dtype):
            probs.append("%s: label dtype %s -> %s" % (what, da.categories.dtype, db.categories.dtype))
        if not probs and list(a.cat.codes) != list(b.cat.codes):
            probs.append("%s: categorical codes differ" % what)
        return probs
    ca, cb = canonical_dtype(da), str(db)
    if ca == cb or cb in allowed_extra:
        return []
    return ["%s: dtype %s came back as %s (canonical form %s)" % (what, da, db, ca)]


def compare_frames(orig, got, index_written, allowed_dtype=None):
    """The C01 oracle. `index_written`: whether the original index must come back.
    allowed_dtype: optional {column: [dtype names additionally accepted]}."""
    probs = []
    if list(map(str, got.columns)) != list(map(str, orig.columns)):
        return ["columns %r came back as %r" % (list(orig.columns), list(got.columns))]
    if len(got) != len(orig):
        return ["%d rows written, %d read" % (len(orig), len(got))]
    if index_written:
        if got.index.name != orig.index.name and not (orig.index.name is None and got.index.name == "index"):
            # (an unnamed index that was written explicitly is stored under the column name 'index')
            probs.append("index name %r -> %r" % (orig.index.name, got.index.name))
        probs += compare_series(pd.Series(orig.index), pd.Series(got.index), "index")
        probs += compare_dtype(pd.Series(orig.index), pd.Series(got.index), "index")
    for c in orig.columns:
        a, b = orig[c], got[c]
        probs += compare_dtype(a, b, "column %s" % c, (allowed_dtype or {}).get(c, ()))
        if isinstance(a.dtype, pd.CategoricalDtype) and not isinstance(b.dtype, pd.CategoricalDtype):
            continue
        probs += compare_series(a, b, "column %s" % c)
        if len(probs) > 6:
            break
    return probs


def spec_json(spec):
    return json.loads(json.dumps(spec))
