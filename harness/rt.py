"""Write -> read round trip on the real code for one (frame spec, option tuple): shared by C01/C02/C04/C17.
Must be imported only after common.use_shadow()."""
import os
import shutil
import traceback

from harness import frames as F

COMPRESSIONS = [None, "SNAPPY", "GZIP", "ZSTD", "LZ4", "BROTLI", "percol"]


def gen_opts(rng, spec):
    names = [c["name"] for c in spec["cols"]]
    n = spec["n"]
    o = {}
    o["compression"] = rng.choice(COMPRESSIONS)
    if o["compression"] == "percol":
        o["compression"] = {"_default": rng.choice([None, "SNAPPY"]),
                            **{c: rng.choice(["GZIP", "ZSTD", "LZ4", None, "SNAPPY", "BROTLI"]) for c in names if rng.random() < 0.7}}
    r = rng.random()
    if r < 0.4 or n == 0:
        o["row_group_offsets"] = None
    elif r < 0.7:
        o["row_group_offsets"] = rng.choice([1, 2, 7, 64, max(1, n // 2), max(1, n // 3), n, n + 5])
    else:
        k = rng.randint(1, min(4, n))
        o["row_group_offsets"] = [0] + sorted(rng.sample(range(1, n), k - 1)) if n > 1 else [0]
    o["has_nulls"] = rng.choice([True, True, "infer", "infer", False, "list"])
    if o["has_nulls"] == "list":
        o["has_nulls"] = [c for c in names if rng.random() < 0.5]
    o["page_size"] = rng.choice([None, None, 64, 1000])
    o["dpv"] = rng.choice([1, 2])
    o["stats"] = rng.choice([True, False, "auto", "list"])
    if o["stats"] == "list":
        o["stats"] = [c for c in names if rng.random() < 0.5]
    o["times"] = rng.choice(["int64", "int64", "int96"])
    o["object_encoding"] = rng.choice(["infer", "infer", "dict"])
    o["file_scheme"] = rng.choice(["simple", "simple", "hive"])
    o["write_index"] = rng.choice([None, None, True, False])
    return o


def object_encoding_for(spec, o):
    if o["object_encoding"] == "infer":
        return "infer"
    m = {}
    for c in spec["cols"]:
        k = c["kind"]
        m[c["name"]] = {"str": "utf8", "bytes": "bytes", "json": "json"}.get(k, "infer")
    if spec.get("index") and spec["index"]["kind"] != "range":
        m[spec["index"]["name"]] = {"str": "utf8"}.get(spec["index"]["kind"], "infer")
    return m


def write_frame(df, path, spec, o):
    import fastparquet
    from fastparquet import writer
    old = writer.MAX_PAGE_SIZE, writer.DATAPAGE_VERSION
    try:
        if o["page_size"]:
            writer.MAX_PAGE_SIZE = o["page_size"]
        writer.DATAPAGE_VERSION = o["dpv"]
        kw = dict(compression=o["compression"], row_group_offsets=o["row_group_offsets"],
                  has_nulls=o["has_nulls"], stats=o["stats"], times=o["times"],
                  object_encoding=object_encoding_for(spec, o), file_scheme=o["file_scheme"],
                  write_index=o["write_index"])
        if kw["row_group_offsets"] is None:
            del kw["row_group_offsets"]
        fastparquet.write(path, df, **kw)
    finally:
        writer.MAX_PAGE_SIZE, writer.DATAPAGE_VERSION = old


def index_expected(df, o):
    """does the original index have to come back?"""
    import pandas as pd
    wi = o["write_index"]
    if wi is False:
        return False
    if wi is True:
        return True
    return not (isinstance(df.index, pd.RangeIndex) and df.index.start == 0 and df.index.step == 1 and df.index.name is None)


def index_as_column(df, o):
    """is the index stored as a column of the file? (a RangeIndex of any start/step/name goes into the pandas
    metadata instead, unless write_index=True asks for a column)"""
    import pandas as pd
    wi = o["write_index"]
    if wi is False:
        return False
    if wi is True:
        return True
    return not isinstance(df.index, pd.RangeIndex)


def roundtrip(spec, o, root):
    """-> dict(outcome = 'ok' | 'write-raised' | 'read-raised' | 'differs', problems=[...], err=...)"""
    import fastparquet
    df = F.build(spec)
    path = os.path.join(root, "rt.parquet" if o["file_scheme"] == "simple" else "rt_ds")
    if os.path.isdir(path):
        shutil.rmtree(path)
    elif os.path.exists(path):
        os.unlink(path)
    try:
        write_frame(df, path, spec, o)
    except Exception as e:      # noqa: the property allows a write that raises
        return {"outcome": "write-raised", "err": "%s: %s" % (type(e).__name__, str(e)[:200]), "problems": [], "path": path}
    try:
        got = fastparquet.ParquetFile(path).to_pandas()
    except Exception as e:      # noqa
        return {"outcome": "read-raised", "err": "%s: %s" % (type(e).__name__, str(e)[:300]),
                "tb": traceback.format_exc()[-1500:], "problems": ["read raised %s: %s" % (type(e).__name__, str(e)[:200])], "path": path}
    iw = index_expected(df, o)
    allowed = {}
    if o["times"] == "int96":
        # INT96 timestamps are nanoseconds by definition: a coarser unit comes back as ns (values equal)
        import re
        for c in df.columns:
            sdt = str(df[c].dtype)
            if sdt.startswith("datetime64["):
                allowed[c] = [re.sub(r"^datetime64\[(s|ms|us)", "datetime64[ns", sdt)]
    try:
        probs = F.compare_frames(df, got, iw, allowed)
    except Exception as e:      # noqa: a result so damaged that it cannot even be compared (e.g. codes outside the categories)
        probs = ["result frame is not comparable: %s: %s" % (type(e).__name__, str(e)[:200])]
    return {"outcome": "ok" if not probs else "differs", "problems": probs, "err": None, "path": path,
            "dtypes": {str(c): str(got[c].dtype) for c in got.columns}}


def classify(spec, o, res):
    """classification of a failing case for the known-findings filter: the first problematic column decides."""
    cls = {"outcome": res["outcome"], "dpv": o["dpv"], "has_nulls": "list" if isinstance(o["has_nulls"], list) else o["has_nulls"],
           "times": o["times"], "file_scheme": o["file_scheme"], "compression": "percol" if isinstance(o["compression"], dict) else o["compression"],
           "multi_page": bool(o["page_size"]), "kind": None, "nulls": None, "where": None}
    text = " ".join(res["problems"])[:2000] + " " + (res.get("tb") or "")
    if "index" in (res["problems"][0] if res["problems"] else "") and spec.get("index"):
        cls["where"] = "index"
        cls["kind"] = spec["index"]["kind"]
        return cls
    for c in spec["cols"]:
        if ("column %s" % c["name"]) in text or ("'%s'" % c["name"]) in text:
            cls["where"] = "column"
            cls["kind"] = c["kind"]
            cls["nulls"] = c["nulls"]
            return cls
    if len(spec["cols"]) == 1:
        cls["where"] = "column"
        cls["kind"] = spec["cols"][0]["kind"]
        cls["nulls"] = spec["cols"][0]["nulls"]
    return cls
