"""twins - TWO datasets of identical shape and relative layout but different values / value kinds, operated on one after the
other in ONE interpreter, every answer compared with the answer of a FRESH interpreter that has seen only that dataset.

Class of defect aimed at (recurring over the seeded rounds): state that outlives one call and is keyed by something that does not
identify the dataset - module-level dicts and lru_caches keyed by relative paths, column names, repr(), id(); scratch buffers; objects
shared between handles.  One dataset alone never shows it, two datasets of different layout neither: the twins collide on purpose.

Reusable by any property check.  The caller supplies, as MODULE-LEVEL names of an importable module (they are looked up again inside
the fresh interpreter):

    twin_build(case, root_a, root_b)          write the two datasets (same relative paths / shapes, different values or kinds)
    TWIN_OPS = {"name": fn(root, case, which) -> JSON-able canonical answer}     which in ("a", "b"); evaluated in dict order
                                              (an operation may leave files behind: later operations of the same dataset see them,
                                               in the twin run and in the reference run alike)

    from harness import twins
    twins.run(ctx, "harness.props.C14", cases, stream="P")

For every case: (1) the datasets are built; (2) reference: for each of a, b a NEW interpreter (subprocess) evaluates all operations on a
copy of that dataset only; (3) twin runs, each in a forked worker that also serves other cases (so process state accumulates across
cases, as in a long-lived service): all operations on a copy of A then on a copy of B, and - in another run - B then A; every answer must equal
the reference.  A failing case is reported with ctx.fail(cls, {"twins": module, "case": case}, ...) and can be replayed with
twins.replay(module, case).  partition_twins() builds the standard pair "same hive layout, partition values as text / as typed values".
"""
import json
import os
import shutil
import subprocess
import sys
import tempfile


def _ops(module, ops_attr):
    import importlib
    m = importlib.import_module(module)
    return m, getattr(m, ops_attr)


def _answers(module, ops_attr, case, root, which):
    m, ops = _ops(module, ops_attr)
    out = {}
    for name, fn in ops.items():
        try:
            out[name] = fn(root, case, which)
        except Exception as e:      # noqa  (an exception is an answer: it must be the same in both runs)
            out[name] = {"raises": type(e).__name__}
    return json.loads(json.dumps(out, default=repr))


def _reference(module, ops_attr, case, root, which):
    """all operations on ONE dataset in a fresh interpreter"""
    from harness import common as C
    env = dict(os.environ, PYTHONHASHSEED="0", VERIF_REPO=C.REPO)
    p = subprocess.run([C.PY, "-m", "harness.twins", module, ops_attr, json.dumps(case), root, which], cwd=C.VERIF, env=env,
                       stdout=subprocess.PIPE, stderr=subprocess.PIPE, timeout=300)
    if p.returncode != 0:
        return {"__reference_failed__": p.stderr.decode("utf-8", "replace")[-800:]}
    return json.loads(p.stdout.decode().strip().splitlines()[-1])


def _job(arg):
    module, ops_attr, build_attr, case = arg
    m, _ = _ops(module, ops_attr)
    tmp = tempfile.mkdtemp(prefix="verif-twins-", dir="/tmp")
    problems = []
    try:
        src = {"a": os.path.join(tmp, "src", "a"), "b": os.path.join(tmp, "src", "b")}
        os.makedirs(os.path.join(tmp, "src"))
        getattr(m, build_attr)(case, src["a"], src["b"])

        def fresh_copy(tag, which):
            d = os.path.join(tmp, tag, which)
            shutil.copytree(src[which], d)
            return d
        ref = {w: _reference(module, ops_attr, case, fresh_copy("ref", w), w) for w in ("a", "b")}
        for w in ("a", "b"):
            if "__reference_failed__" in ref[w]:
                raise RuntimeError("twins: reference interpreter failed: " + ref[w]["__reference_failed__"])
        for order in (("a", "b"), ("b", "a")):
            for w in order:
                got = _answers(module, ops_attr, case, fresh_copy("run-" + "".join(order), w), w)
                for name in got:
                    if got[name] != ref[w].get(name):
                        problems.append({"order": "".join(order), "dataset": w, "op": name, "got": got[name], "fresh_interpreter": ref[w].get(name)})
    finally:
        shutil.rmtree(tmp, ignore_errors=True)
    return {"problems": problems}


def _winit():
    import warnings
    from harness import common as C
    warnings.filterwarnings("ignore")
    C.use_shadow()


def run(ctx, module, cases, ops_attr="TWIN_OPS", build_attr="twin_build", stream="twins", nproc=6, classify=None):
    """cases: list of JSON-able dicts.  Reports failures through ctx.fail; returns the per-case problem lists."""
    from harness import common as C
    jobs = [(module, ops_attr, build_attr, c) for c in cases]
    res = C.pmap(_job, jobs, init=_winit, nproc=min(nproc, max(1, len(jobs))), job_timeout=600)
    out = []
    for c, r in zip(cases, res):
        ctx.case({"twins": module, "case": c}, trivial=False)
        ctx.count(stream + ".cases", 1)
        if isinstance(r, dict) and "__crashed__" in r:
            ctx.fail({"component": "twins", "stream": stream, "stage": "crash"}, {"twins": module, "case": c, "ops_attr": ops_attr, "build_attr": build_attr},
                     "twin datasets: " + r["__crashed__"] + " " + r.get("tb", "")[-500:])
            out.append(None)
            continue
        for pr in r["problems"][:1]:
            cls = {"component": "twins", "stream": stream, "op": pr["op"], "stage": "differs-from-fresh-interpreter"}
            if classify:
                cls.update(classify(c, pr))
            ctx.fail(cls, {"twins": module, "case": c, "ops_attr": ops_attr, "build_attr": build_attr},
                     "datasets %s in one process, dataset %s, operation %s: %s; a fresh interpreter that saw only this dataset: %s (%d differing answers)"
                     % (pr["order"].upper().replace("", " ").strip().replace(" ", " then "), pr["dataset"].upper(), pr["op"],
                        json.dumps(pr["got"])[:300], json.dumps(pr["fresh_interpreter"])[:300], len(r["problems"])))
        out.append(r["problems"])
    return out


def replay(rep_case):
    """re-run one stored case; prints the differing answers; 1 if any"""
    from harness import common as C
    r = C.pmap(_job, [(rep_case["twins"], rep_case.get("ops_attr", "TWIN_OPS"), rep_case.get("build_attr", "twin_build"), rep_case["case"])],
               init=_winit, nproc=1, job_timeout=600)[0]
    print(json.dumps(rep_case["case"], indent=1)[:2000])
    if isinstance(r, dict) and "__crashed__" in r:
        print("PROPERTY FAILS: the real code did not survive the twin datasets:", r["__crashed__"], r.get("tb", ""))
        return 1
    for pr in r["problems"][:12]:
        print("PROPERTY FAILS: order %s, dataset %s, %s: %s; fresh interpreter: %s" % (pr["order"], pr["dataset"], pr["op"],
                                                                                         json.dumps(pr["got"])[:400], json.dumps(pr["fresh_interpreter"])[:400]))
    if not r["problems"]:
        print("every answer equals the answer of a fresh interpreter that saw only that dataset")
    return 1 if r["problems"] else 0


# ----------------------------------------------------------------------------- a standard pair: partition values as text / as typed values
PARTITION_TWIN_VALUES = {"int": ["1", "2", "10"], "bool": ["True", "False"], "float": ["0.5", "2.0", "-1.25"],
                         "time": ["2020-01-01T00:00:00", "2021-06-01T12:30:00"],
                         # A: a categorical with TEXT labels (int8 codes), B: an int8 column - the metadata of both says numpy_type int8
                         "catint8": ["1", "2", "7"]}


def gen_partition_case(rng, i):
    kind = ["int", "bool", "float", "time", "catint8"][i % 5]
    n = rng.choice([4, 6, 9])
    return {"pair": kind, "col": rng.choice(["p", "k", "_grp"]), "texts": [rng.choice(PARTITION_TWIN_VALUES[kind]) for _ in range(n)],
            "rgo": rng.choice([None, 2, 3]), "scheme": rng.choice(["hive", "hive", "drill"])}


def partition_twins(case, root_a, root_b):
    """A: the partition column holds TEXT ('1', 'True', '0.5', an ISO date); B: the same spellings as typed values (int, bool, float,
    timestamp).  Same rows, same row-group split: identical relative paths; the kinds are recorded only in each dataset's own metadata.
    Columns: <col> (partition), id (int64), x (float64)."""
    import numpy as np
    import pandas as pd
    from fastparquet import write
    kind, col, texts = case["pair"], case["col"], case["texts"]
    n = len(texts)
    typed = {"int": lambda t: int(t), "bool": lambda t: t == "True", "float": float, "time": pd.Timestamp, "catint8": lambda t: int(t)}[kind]
    base = {"id": np.arange(n, dtype="int64"), "x": np.arange(n) * 0.25}
    if kind == "catint8":
        fa = pd.DataFrame({col: pd.Categorical(texts, categories=PARTITION_TWIN_VALUES[kind]), **base})
        fb = pd.DataFrame({col: np.array([int(t) for t in texts], dtype="int8"), **base})
    else:
        fa = pd.DataFrame({col: np.array(texts + [None], dtype=object)[:-1], **base})
        fb = pd.DataFrame({col: pd.Series([typed(t) for t in texts]), **base})
    for root, f in ((root_a, fa), (root_b, fb)):
        write(root, f, file_scheme=case.get("scheme", "hive"), partition_on=[col], row_group_offsets=case.get("rgo"))


if __name__ == "__main__":          # the fresh interpreter: python -m harness.twins <module> <ops_attr> <case json> <root> <which>
    import warnings
    warnings.filterwarnings("ignore")
    from harness import common as C
    C.use_shadow()
    module, ops_attr, case, root, which = sys.argv[1], sys.argv[2], json.loads(sys.argv[3]), sys.argv[4], sys.argv[5]
    print(json.dumps(_answers(module, ops_attr, case, root, which), default=repr))
