"""Shared by C05 (row-group pruning) and C13 (row-level filtering): datasets as DATA (a spec that is
stored in replays and rebuilt without generator code), filter programs over the whole grammar with
constants chosen at the chunk bounds, the brute-force meaning of a program on a row, and the
conversion of values / row-group metadata into the Coq model's universe (Base/PyVal.v).

A dataset spec: {"n", "cols": {name: {"kind", "values": [...]}}, "offsets": [...], "scheme":
"simple"|"hive", "partition_on": [...], "stats": True|False|[names], "page_size": int|None, "v2": bool,
"has_nulls": None|False}.  Column kinds: int (int64), float (float64, None -> NaN), str (object, None),
nint (Int64, None), ts (datetime64[ns] from integer days), bool, cat (categorical of str, None allowed).
A program: {"flat": bool, "groups": [[(col, op, const)...]...]}; constants are JSON values, timestamps
{"ts": days}.
"""
import math
import os

import numpy as np
import pandas as pd

OPS = ["==", "=", "!=", "<", "<=", ">", ">=", "in", "not in"]
STR_POOL = ["a", "b", "c", "d", "m", "x", "zz", "B", ""]
BIG_INTS = [2**53 - 1, 2**53, 2**53 + 1, 2**63 - 1, -2**63, -2**53 - 1, 2**62 + 1, 1234567890123456721, 2**64 - 1, 2**63, 2**63 + 1]
ZONES = ["UTC", "America/New_York", "Asia/Kolkata", "Europe/Berlin", "Pacific/Auckland", "America/Los_Angeles"]
LONG_LATTICE = [63, 64, 65, 255, 256, 257, 511, 512, 513, 4095, 4096, 4097, 65535, 65536, 65537]
PART_STR = ["u", "v", "w"]


# ------------------------------------------------------------------ datasets
def build_frame(spec):
    cols = {}
    for name, c in spec["cols"].items():
        k, vals = c["kind"], c["values"]
        if k == "int":
            cols[name] = np.array(vals, dtype="int64")
        elif k == "float":
            cols[name] = np.array([np.nan if v is None else v for v in vals], dtype="float64")
        elif k == "str":
            cols[name] = pd.Series(vals, dtype=object)
        elif k == "nint":
            cols[name] = pd.array(vals, dtype="Int64")
        elif k == "ts":
            cols[name] = pd.to_datetime(np.array([np.datetime64("NaT") if v is None else np.datetime64("2020-01-01") + np.timedelta64(v, "D")
                                                  for v in vals], dtype="datetime64[ns]"))
        elif k == "bool":
            cols[name] = np.array(vals, dtype=bool)
        elif k == "uint":
            cols[name] = np.array(vals, dtype="uint64")
        elif k == "lstr":
            cols[name] = pd.Series([None if v is None else expand_long(v) for v in vals], dtype=object)
        elif k == "tstz":
            # hours after 2020-01-01T00:00Z, shown in the column's zone
            cols[name] = pd.Series(pd.to_datetime(np.array([np.datetime64("NaT") if v is None else np.datetime64("2020-01-01") + np.timedelta64(v, "h")
                                                            for v in vals], dtype="datetime64[ns]"))).dt.tz_localize("UTC").dt.tz_convert(c["tz"])
        elif k == "cat":
            cols[name] = pd.Categorical(vals, categories=c["categories"], ordered=bool(c.get("ordered")))
        else:
            raise ValueError(k)
    return pd.DataFrame(cols)


def expand_long(item):
    """[unit, length, tail]: `unit` repeated and cut so that the text has `length` characters and ends in `tail`"""
    unit, length, tail = item
    return (unit * (length // max(1, len(unit)) + 1))[:max(0, length - len(tail))] + tail


def edit_footer(path, edits, edits_nat=()):
    """Rewrite the footer the reader opens (the file itself / _metadata of a directory) the way another writer could have
    written it: drop one bound of a chunk's statistics, or move min/max into the min_value/max_value fields.
    edits: [[row group index, column name, "drop_min"|"drop_max"|"value_fields"|"drop_null_count"], ...]"""
    import struct
    from fastparquet.cencoding import from_buffer
    from fastparquet.writer import write_thrift
    fn = os.path.join(path, "_metadata") if os.path.isdir(path) else path
    with open(fn, "rb+") as f:
        loc0 = f.seek(-8, 2)
        size = int.from_bytes(f.read(4), "little")
        loc = loc0 - size
        f.seek(loc)
        fmd = from_buffer(f.read(), "FileMetaData")
        for gi, name, action in edits:
            if gi >= len(fmd.row_groups):
                continue
            for col in fmd.row_groups[gi].columns:
                cn = ".".join(x.decode() if isinstance(x, bytes) else x for x in col.meta_data.path_in_schema)
                st = col.meta_data.statistics
                if cn != name or st is None:
                    continue
                if action == "drop_min":
                    st.min = None
                    st.min_value = None
                elif action == "drop_max":
                    st.max = None
                    st.max_value = None
                elif action == "drop_null_count":
                    st.null_count = None
                elif action in ("nan_min", "nan_max", "nan_both", "inf_bounds"):
                    # bounds another writer may record for a chunk that holds NaN / NaT cells (or, legitimately, +-inf)
                    import struct as _st
                    t = col.meta_data.type
                    ct = col.meta_data  # noqa
                    if t == 5:
                        nanb, lo, hi = _st.pack("<d", float("nan")), _st.pack("<d", float("-inf")), _st.pack("<d", float("inf"))
                    elif t == 4:
                        nanb, lo, hi = _st.pack("<f", float("nan")), _st.pack("<f", float("-inf")), _st.pack("<f", float("inf"))
                    elif t == 2 and name in edits_nat:
                        nanb, lo, hi = _st.pack("<q", -2**63), None, None          # NaT
                    else:
                        continue
                    if action == "inf_bounds":
                        if lo is not None and st.min is not None:
                            st.min, st.max = lo, hi
                    else:
                        if action in ("nan_min", "nan_both") and (st.min is not None or st.min_value is not None):
                            st.min, st.min_value = nanb, None
                        if action in ("nan_max", "nan_both") and (st.max is not None or st.max_value is not None):
                            st.max, st.max_value = nanb, None
                elif action == "value_fields":
                    if st.max is not None:
                        st.max_value, st.max = st.max, None
                    if st.min is not None:
                        st.min_value, st.min = st.min, None
        f.seek(loc)
        n = write_thrift(f, fmd)
        f.write(struct.pack("<I", n))
        f.write(b"PAR1")
        f.truncate()


def write_dataset(spec, root):
    """write with the real library; returns the path to open"""
    import fastparquet
    from fastparquet import writer
    df = build_frame(spec)
    if spec.get("index"):
        df = df.set_index(spec["index"])
    kw = {}
    if spec.get("has_nulls") is False:
        kw["has_nulls"] = False
    old = writer.MAX_PAGE_SIZE, writer.DATAPAGE_VERSION
    try:
        if spec.get("page_size"):
            writer.MAX_PAGE_SIZE = spec["page_size"]
        writer.DATAPAGE_VERSION = 2 if spec.get("v2") else 1
        if spec["scheme"] == "simple":
            path = os.path.join(root, "f.parquet")
            fastparquet.write(path, df, row_group_offsets=spec["offsets"], stats=spec["stats"],
                              compression=spec.get("compression"), **kw)
        else:
            path = os.path.join(root, "ds")
            fastparquet.write(path, df, file_scheme=spec["scheme"], row_group_offsets=spec["offsets"],
                              partition_on=spec.get("partition_on") or [], stats=spec["stats"],
                              compression=spec.get("compression"), **kw)
    finally:
        writer.MAX_PAGE_SIZE, writer.DATAPAGE_VERSION = old
    if spec.get("footer_edit"):
        edit_footer(path, spec["footer_edit"], edits_nat=[n for n, c in spec["cols"].items() if c["kind"] == "ts"])
    return path


def gen_dataset(rng, kinds=None, allow_parts=True, cat=False, sizes=None):
    """values are drawn from small ranges so that constants meet chunk bounds, min == max chunks,
    all-null chunks and chunks without statistics all occur"""
    nrg = rng.choice([1, 2, 3, 3, 4, 5])
    sizes = [rng.choice(sizes or [1, 2, 3, 4, 6]) for _ in range(nrg)]
    if rng.random() < 0.1:
        sizes[rng.randrange(nrg)] = 0
    sizes = [s for s in sizes if s > 0] or [2]
    n = sum(sizes)
    offsets, a = [], 0
    for s in sizes:
        offsets.append(a)
        a += s
    cols = {"rid": {"kind": "int", "values": list(range(n))}}
    kinds = kinds or rng.sample(["int", "float", "str", "nint", "ts", "bool"], rng.choice([2, 3, 4]))
    for k in kinds:
        name = {"int": "i", "float": "f", "str": "s", "nint": "n", "ts": "t", "bool": "b"}[k]
        vals = []
        for gi, s in enumerate(sizes):
            mode = rng.choice(["range", "const", "allnull", "somenull", "range", "wide"])
            base = rng.choice([0, 2, 4, 6])
            for _ in range(s):
                if k == "int":
                    v = base if mode == "const" else base + rng.randrange(0, 4 if mode != "wide" else 9)
                elif k == "bool":
                    v = (rng.random() < 0.5) if mode != "const" else bool(base & 2)
                elif k == "str":
                    v = None if mode == "allnull" or (mode == "somenull" and rng.random() < 0.4) else \
                        (STR_POOL[base // 2] if mode == "const" else rng.choice(STR_POOL[:-1] if rng.random() < 0.95 else STR_POOL))
                elif k == "float":
                    v = None if mode == "allnull" or (mode == "somenull" and rng.random() < 0.4) else \
                        (float(base) if mode == "const" else base + rng.randrange(0, 12) / 4.0)
                else:   # nint, ts
                    v = None if mode == "allnull" or (mode == "somenull" and rng.random() < 0.4) else \
                        (base if mode == "const" else base + rng.randrange(0, 4))
                vals.append(v)
        cols[name] = {"kind": k, "values": vals}
    scheme = rng.choice(["simple", "simple", "hive", "hive", "drill"] if allow_parts else ["simple", "hive"])
    part = []
    if scheme != "simple" and allow_parts and rng.random() < 0.8:
        # partition values constant per written row-group slice most of the time, so that partitions and
        # statistics interact; sometimes mixed (then the writer regroups the rows)
        if rng.random() < 0.7:
            pv = []
            for s in sizes:
                x = rng.choice(PART_STR)
                pv += [x if rng.random() < 0.9 else rng.choice(PART_STR) for _ in range(s)]
            pname = "p" if scheme == "hive" else "dir%d" % len(part)     # drill directories carry no names
            cols[pname] = {"kind": "str", "values": pv}
            part.append(pname)
        if rng.random() < 0.5:
            qv = []
            for s in sizes:
                x = rng.choice([1, 2, 10])
                qv += [x if rng.random() < 0.9 else rng.choice([1, 2, 10]) for _ in range(s)]
            qname = "q" if scheme == "hive" else "dir%d" % len(part)
            cols[qname] = {"kind": "int", "values": qv}
            part.append(qname)
    if cat:
        cats = rng.sample(["a", "b", "c", "d"], 4)
        pnull = rng.choice([0.0, 0.0, 0.3])
        cols["c"] = {"kind": "cat", "categories": cats, "values": [None if rng.random() < pnull else rng.choice(cats) for _ in range(n)]}
    names = [c for c in cols if c not in part]
    r = rng.random()
    stats = True if r < 0.6 else (False if r < 0.7 else [c for c in names if rng.random() < 0.6])
    spec = {"n": n, "cols": cols, "offsets": offsets, "scheme": scheme, "partition_on": part, "stats": stats,
            "page_size": None, "v2": False, "has_nulls": None, "compression": None}
    if "f" in cols and rng.random() < 0.15:
        spec["has_nulls"] = False      # NaN stored as a value instead of a NULL
        for name, c in cols.items():   # only float can hold a missing value then
            if c["kind"] in ("str", "nint", "ts"):
                c["values"] = [v if v is not None else (STR_POOL[0] if c["kind"] == "str" else 1) for v in c["values"]]
    return spec


def gen_dataset_w3(rng, flavour):
    """wave-3 generator dimensions (each stands for a class of seeded changes the random datasets above do not reach):
    long     - text values on the length lattice sharing a long prefix, statistics on (a writer-side cut of min/max);
    bigpart  - hive partition keys at integer representation boundaries (2**53 +- 1, int64/uint64 extremes);
    tz       - tz-aware timestamp column, consecutive row groups a few hours apart, constants in other zones;
    onesided - statistics with only one bound / in the *_value fields / without null_count (footer as another writer
               leaves it, spec["footer_edit"]), and text chunks whose minimum is '' (which the reader takes as absent)."""
    nrg = rng.choice([2, 3, 3, 4])
    sizes = [rng.choice([1, 2, 3, 4]) for _ in range(nrg)]
    spec = {"scheme": "simple", "partition_on": [], "stats": True, "page_size": None, "v2": rng.random() < 0.3, "has_nulls": None,
            "compression": None, "flavour": flavour}
    if flavour == "long":
        huge = rng.random() < 0.25
        if huge:
            sizes = sizes[:2]         # the footer repeats min and max per row group and is serialised into a fixed 500 kB buffer
        lens = rng.sample([x for x in LONG_LATTICE if x <= (65537 if huge else 4097)][-9 if huge else 0:], 2)
        unit = rng.choice(["ab", "https://example.org/a/", "x"] if huge else ["ab", "https://example.org/a/", "x", "a\u00e9", "\u4e2db"])
        pool = [[unit, L, t] for L in lens for t in ("", "0", "z", "zz")] + [[unit, 2, ""], ["~", 1, ""]][:rng.choice([0, 1, 2])]
        vals = []
        for s_ in sizes:
            mode = rng.choice(["range", "range", "const", "somenull", "top"])
            sub = rng.sample(pool, min(len(pool), 3))
            for _ in range(s_):
                v = sub[0] if mode == "const" else (max(pool, key=lambda it: expand_long(it).encode("utf-8")) if mode == "top" and rng.random() < 0.5
                                                     else rng.choice(sub))
                vals.append(None if mode == "somenull" and rng.random() < 0.3 else v)
        cols = {"ls": {"kind": "lstr", "values": vals}}
        if rng.random() < 0.5:
            cols["i"] = {"kind": "int", "values": [rng.randrange(0, 6) for _ in range(sum(sizes))]}
    elif flavour == "bigpart":
        kind = rng.choice(["int", "int", "uint"])
        lo, hi = (0, 2**64 - 1) if kind == "uint" else (-2**63, 2**63 - 1)
        cand = sorted({min(hi, max(lo, b + d)) for b in BIG_INTS if lo <= b <= hi for d in (-1, 0, 1)} | {0, 7})
        keys = rng.sample(cand, rng.choice([2, 3, 3]))
        qv = []
        for s_ in sizes:
            x = rng.choice(keys)
            qv += [x if rng.random() < 0.9 else rng.choice(keys) for _ in range(s_)]
        cols = {"q": {"kind": kind, "values": qv, "big": True},
                "i": {"kind": "int", "values": [rng.randrange(0, 6) for _ in range(sum(sizes))]}}
        spec.update(scheme="hive", partition_on=["q"], stats=rng.choice([True, True, False]))
    elif flavour == "tz":
        span = rng.choice([2, 3, 6, 12])
        start = rng.choice([0, 5, 18, 24 * 59 + 20])
        vals = []
        for gi, s_ in enumerate(sizes):
            mode = rng.choice(["range", "range", "const", "somenull"])
            a = start + gi * span
            for _ in range(s_):
                v = a if mode == "const" else a + rng.randrange(0, span)
                vals.append(None if mode == "somenull" and rng.random() < 0.3 else v)
        cols = {"tz": {"kind": "tstz", "values": vals, "tz": rng.choice(ZONES)},
                "i": {"kind": "int", "values": [rng.randrange(0, 6) for _ in range(sum(sizes))]}}
        if rng.random() < 0.3:
            pv = []
            for s_ in sizes:
                pv += [rng.choice(PART_STR)] * s_
            cols["p"] = {"kind": "str", "values": pv}
            spec.update(scheme="hive", partition_on=["p"])
    elif flavour == "oddpart":
        # directory names with characters that other tools escape / that look like escapes: what the filter compares a constant
        # with must be the label the rows read back, whatever the decoding of the directory text is
        pool = rng.sample(["a%20b", "%41b", "a+b", "u", "a%25b", "x%2Fy", "v w", "1%2E5"], 3)
        pv = []
        for s_ in sizes:
            x = rng.choice(pool)
            pv += [x if rng.random() < 0.9 else rng.choice(pool) for _ in range(s_)]
        cols = {"p": {"kind": "str", "values": pv, "odd": True},
                "i": {"kind": "int", "values": [rng.randrange(0, 6) for _ in range(sum(sizes))]}}
        spec.update(scheme=rng.choice(["hive", "hive", "drill"]), partition_on=["p"], stats=rng.choice([True, False]))
        if spec["scheme"] == "drill":
            cols["dir0"] = cols.pop("p")
            spec["partition_on"] = ["dir0"]
    elif flavour == "onesided":
        base = gen_dataset(rng, kinds=rng.sample(["int", "str", "float", "float", "nint", "ts", "ts"], rng.choice([2, 3])), allow_parts=rng.random() < 0.3)
        base["stats"] = True
        base["flavour"] = flavour
        offs = base["offsets"] + [base["n"]]
        if "s" in base["cols"] and base["has_nulls"] is not False:
            sv = base["cols"]["s"]["values"]
            for gi in range(len(offs) - 1):
                if rng.random() < 0.5 and sv[offs[gi]] is not None:
                    sv[offs[gi]] = ""                           # the chunk's minimum is the empty text
        edits = []
        for gi in range(len(offs) - 1):
            for name in base["cols"]:
                if name != "rid" and name not in base["partition_on"] and rng.random() < 0.6:
                    acts = ["drop_min", "drop_min", "drop_max", "drop_max", "value_fields", "drop_null_count"]
                    if base["cols"][name]["kind"] in ("float", "ts"):
                        acts += ["nan_min", "nan_max", "nan_both", "nan_both", "inf_bounds", "nan_max"]
                    edits.append([gi, name, rng.choice(acts)])
        base["footer_edit"] = edits
        return base
    else:
        raise ValueError(flavour)
    n = sum(sizes)
    offsets, a = [], 0
    for s_ in sizes:
        offsets.append(a)
        a += s_
    spec.update(n=n, offsets=offsets, cols={"rid": {"kind": "int", "values": list(range(n))}, **cols})
    return spec


def shifted_spec(spec, k):
    """a dataset of IDENTICAL shape (schema, row-group sizes, relative part names, byte layout of the fixed-width chunks) whose
    numeric / temporal values are shifted by k: what a cache keyed by layout instead of by file confuses"""
    import copy
    out = copy.deepcopy(spec)
    for name, c in out["cols"].items():
        if name == "rid" or name in out.get("partition_on", []):
            continue
        if c["kind"] in ("int", "nint", "ts", "uint", "tstz") and not c.get("big"):
            c["values"] = [None if v is None else v + k for v in c["values"]]
        elif c["kind"] == "float":
            c["values"] = [None if v is None else v + float(k) for v in c["values"]]
    out.pop("prelude", None)
    return out


def gen_twin_programs(rng, spec):
    """two DIFFERENT programs whose constants are containers that print alike (numpy array / pandas Index / tuple / list with the
    deciding values in the abbreviated middle, float arrays that differ in the 12th digit); None when no numeric data column"""
    cols = [c for c in ("i", "n", "f", "rid") if c in spec["cols"] and c not in spec["partition_on"] and c != spec.get("index")]
    if not cols:
        return None
    cname = rng.choice(cols)
    present = sorted({v for v in spec["cols"][cname]["values"] if v is not None})
    isf = spec["cols"][cname]["kind"] == "float"
    a = rng.choice(present) if present else 1
    b = rng.choice([x for x in present if x != a] or [a + 1])
    form = rng.choice(["np", "np", "index", "list", "tuple"])
    if isf and rng.random() < 0.5:
        va, vb, pad = [a, 77.0], [a + 1e-12, 77.0], 0
    else:
        va, vb, pad = [a], [b], rng.choice([0, 150, 1100, 1100])
    op = rng.choice(["in", "in", "in", "not in"])
    mk = lambda vals: {"flat": True, "groups": [[[cname, op, {"arr": {"form": form, "vals": vals, "pad": pad, "float": isf}}]]]}
    return mk(va), mk(vb)


def text_kind(k):
    return k in ("str", "cat", "lstr")


# ------------------------------------------------------------------ programs
def py_const(c):
    if isinstance(c, dict) and "ts" in c:
        return pd.Timestamp("2020-01-01") + pd.Timedelta(days=c["ts"])
    if isinstance(c, dict) and "tstz" in c:
        return (pd.Timestamp("2020-01-01", tz="UTC") + pd.Timedelta(hours=c["tstz"])).tz_convert(c["zone"])
    if isinstance(c, dict) and "long" in c:
        return expand_long(c["long"])
    if isinstance(c, dict) and "arr" in c:
        # a membership constant in container form: numpy array / pandas Index / list / tuple, optionally with the
        # interesting values hidden between three leading and three trailing fillers and `pad` irrelevant ones
        # (containers whose printed form abbreviates the middle)
        a = c["arr"]
        seq = list(a["vals"])
        if a.get("pad"):
            seq = [-1003, -1002, -1001] + seq + list(range(100000, 100000 + a["pad"])) + [900001, 900002, 900003]
        if a.get("float"):
            seq = [float(x) for x in seq]
        form = a.get("form", "np")
        if form == "np":
            return np.array(seq)
        if form == "index":
            return pd.Index(seq)
        return tuple(seq) if form == "tuple" else seq
    if isinstance(c, list):
        return [py_const(x) for x in c]
    return c


def prog_to_filters(prog):
    g = [[(n, op, py_const(c)) for n, op, c in grp] for grp in prog["groups"]]
    return g[0] if prog["flat"] else g


def _const_pool(rng, spec, name, chunks):
    """constants at / next to the bounds of a randomly chosen chunk of this column, interior, absent, other type"""
    c = spec["cols"][name]
    k = c["kind"]
    ch = rng.choice(chunks) if chunks else []
    present = [v for v in ch if v is not None]
    if k == "uint" or c.get("big"):
        # integers at representation boundaries: the value itself and its neighbours, never through a float
        lo, hi = (0, 2**64 - 1) if k == "uint" else (-2**63, 2**63 - 1)
        base = rng.choice(present) if present and rng.random() < 0.8 else rng.choice(BIG_INTS)
        return min(hi, max(lo, base + rng.choice([0, 0, 0, 1, -1, 2, -2])))
    if k in ("int", "nint", "float", "ts"):
        if present:
            lo, hi = min(present), max(present)
            cand = [lo, hi, lo - 1, hi + 1, rng.choice(present), (lo + hi) // 2 if k != "float" else (lo + hi) / 2, 100, -100]
        else:
            cand = [0, 1, 5]
        v = rng.choice(cand)
        if k == "ts":
            return {"ts": int(v)}
        r = rng.random()
        if k in ("int", "nint"):
            if r < 0.15:
                return float(v)              # other comparable type
            if r < 0.25:
                return v + 0.5
            return int(v)
        if r < 0.2 and float(v).is_integer():
            return int(v)
        return float(v)
    if k == "bool":
        return rng.choice([True, False, True, False, 1, 0])
    if k == "tstz":
        if present:
            lo, hi = min(present), max(present)
            v = rng.choice([lo, hi, lo - 1, hi + 1, rng.choice(present), lo, hi])
        else:
            v = rng.choice([0, 6, 12])
        return {"tstz": int(v), "zone": rng.choice(ZONES)}
    if k == "lstr":
        if not present:
            return {"long": ["ab", 3, ""]}
        key = lambda it: expand_long(it).encode("utf-8")
        it = rng.choice([min(present, key=key), max(present, key=key), max(present, key=key), rng.choice(present)])
        unit, L, tail = it
        r = rng.random()
        if r < 0.5:
            return {"long": [unit, L, tail]}                       # a stored value itself (often the chunk's max / min)
        if r < 0.65:
            return {"long": [unit, max(0, L - 1), ""]}             # a strict prefix: sorts below
        if r < 0.8:
            return {"long": [unit, rng.choice([63, 64, 65, 255, 256, 512, 4096]), ""]}   # the value cut at a lattice point
        if r < 0.9:
            return {"long": [unit, L + 1, tail]}
        return {"long": [unit, L, rng.choice(["0", "z", "~", ""])]}
    if k == "str" and c.get("odd"):
        from urllib.parse import unquote, unquote_plus, quote
        forms = []
        for x in present:
            forms += [x, unquote(x), unquote_plus(x), quote(x, safe="")]
        return rng.choice(forms or ["u"])
    if k in ("str", "cat"):
        pool = present + STR_POOL if k == "str" else present + ["a", "b", "c", "d", "e"]
        if present and rng.random() < 0.6:
            return rng.choice([min(present), max(present), rng.choice(present)])
        return rng.choice(pool)
    raise ValueError(k)


def gen_program(rng, spec, chunks_of, cols=None, wrong_type=0.03, ops=None, in_sizes=None, tilde=0.0):
    """chunks_of: name -> list of per-row-group value lists (as read back), used to aim constants"""
    names = cols or [c for c in spec["cols"] if c != "rid" or rng.random() < 0.1]
    shape = rng.choice(["flat1", "flat1", "flat", "flat", "dnf", "dnf", "dnf1"])
    ng = 1 if shape.startswith("flat") else (1 if shape == "dnf1" else rng.choice([2, 2, 3]))
    groups = []
    for _ in range(ng):
        nc = 1 if shape == "flat1" else rng.choice([1, 2, 2, 3])
        grp = []
        for _ in range(nc):
            name = rng.choice(names)
            op = rng.choice(ops or OPS)
            kind = spec["cols"][name]["kind"]
            if kind in ("bool", "cat") and op in ("<", "<=", ">", ">=") and not spec["cols"][name].get("ordered") \
                    and rng.random() < (0.7 if kind == "bool" else 0.95):
                op = rng.choice(["==", "!=", "in", "not in"])      # pandas refuses to order an unordered categorical
            if kind == "bool" and rng.random() < tilde:
                grp.append([name, "~", None])          # rows where the boolean column is False (row-level filtering only)
                continue
            if op in ("in", "not in"):
                k = rng.choice(in_sizes or [0, 1, 1, 2, 3])
                const = [_const_pool(rng, spec, name, chunks_of.get(name)) for _ in range(k)]
            else:
                const = _const_pool(rng, spec, name, chunks_of.get(name))
            if rng.random() < wrong_type and op not in ("in", "not in"):
                const = "a" if kind not in ("str", "cat") else 3
            grp.append([name, op, const])
        groups.append(grp)
    return {"flat": shape.startswith("flat"), "groups": groups}


# ------------------------------------------------------------------ meaning of a program on a row
def is_null(x):
    if x is None or x is pd.NaT or x is pd.NA:
        return True
    try:
        return bool(x != x)
    except Exception:      # noqa
        return False


def pyval(x):
    """a cell as a plain Python value"""
    if is_null(x):
        return None
    if isinstance(x, np.generic):
        return x.item() if not isinstance(x, np.datetime64) else pd.Timestamp(x)
    return x


def sat_cond(cell, op, const):
    """True / False / None (None: NULL/NaN cell, or the comparison raises: nothing is demanded)"""
    if cell is None:
        return None
    try:
        if op in ("==", "="):
            return bool(cell == const)
        if op == "!=":
            return bool(cell != const)
        if op == "<":
            return bool(cell < const)
        if op == "<=":
            return bool(cell <= const)
        if op == ">":
            return bool(cell > const)
        if op == ">=":
            return bool(cell >= const)
        if op == "in":
            return any(bool(cell == c) for c in const)
        if op == "not in":
            return not any(bool(cell == c) for c in const)
        if op == "~":
            return not bool(cell)
    except TypeError:
        return None
    raise ValueError(op)


def definitely(row, filters_dnf):
    """the row satisfies the OR of ANDs with every deciding cell non-null"""
    for grp in filters_dnf:
        ok = True
        for name, op, const in grp:
            if sat_cond(row[name], op, const) is not True:
                ok = False
                break
        if ok:
            return True
    return False


def frame_rows(df):
    cols = list(df.columns)
    data = {c: [pyval(x) for x in df[c].tolist()] for c in cols}
    return [{c: data[c][i] for c in cols} for i in range(len(df))]


# ------------------------------------------------------------------ into the Coq universe
SCALE = 4


class NotRepresentable(Exception):
    pass


def to_pv(x):
    """Python value -> Gallina text of type pv. numbers are scaled by 4 (all generated floats are
    multiples of 1/4), timestamps are their integer nanoseconds, bool is 0/1 (as Python compares it)."""
    if x is None:
        return "PNone"
    if isinstance(x, (bool, np.bool_)):
        return "(PInt %d)" % (SCALE * int(x))
    if isinstance(x, (int, np.integer)):
        return "(PInt (%d))" % (SCALE * int(x))
    if isinstance(x, (float, np.floating)):
        if math.isnan(x) or math.isinf(x) or not float(x * SCALE).is_integer():
            raise NotRepresentable(repr(x))
        return "(PInt (%d))" % int(x * SCALE)
    if isinstance(x, (pd.Timestamp, np.datetime64)):
        t = pd.Timestamp(x)
        if t is pd.NaT:
            raise NotRepresentable(repr(x))
        # a time-zone aware value is the instant it denotes (ns since the epoch, UTC): what the decoded statistics of a
        # tz-aware column are expressed in
        return "(PInt (%d))" % (SCALE * t.value)
    if isinstance(x, bytes):
        try:
            x = x.decode("ascii")
        except UnicodeDecodeError:
            raise NotRepresentable(repr(x))
    if isinstance(x, str):
        if len(x) > 300:
            raise NotRepresentable("text of %d characters" % len(x))
        if '"' in x or any(ord(c) < 32 or ord(c) > 126 for c in x):
            raise NotRepresentable(repr(x))
        return '(PStr "%s")' % x
    if isinstance(x, (list, tuple)):
        return "(PList [%s])" % "; ".join(to_pv(v) for v in x)
    if isinstance(x, np.ndarray) and x.ndim == 1:
        return "(PArr [%s])" % "; ".join(to_pv(v) for v in x.tolist()) if x.dtype.kind != "M" else \
            "(PArr [%s])" % "; ".join(to_pv(pd.Timestamp(v)) for v in x)
    raise NotRepresentable(repr(type(x)))


def coq_str(s):
    if '"' in s or any(ord(c) < 32 or ord(c) > 126 for c in s):
        raise NotRepresentable(repr(s))
    return '"%s"' % s


def bound_pv(x):
    """a statistics bound as the model sees it: a NaN / NaT bound (footers of other writers) bounds nothing and enters as absent -
    the reading under which "statistics are valid bounds" can hold at all; the code must treat it the same way (it does since the
    fix `a NaN / NaT statistic bounds nothing`), else the correspondences disagree"""
    try:
        if x is not None and not isinstance(x, (str, bytes, list, tuple)) and bool(x != x):
            return "PNone"
    except Exception:      # noqa
        pass
    return to_pv(x)


def scalar_of_bound(v):
    """what filter_out_stats hands to filter_val for a bound, as a Python scalar (None when absent)"""
    if v is None:
        return None
    if isinstance(v, np.ndarray) or hasattr(v, "__array__") and not isinstance(v, (str, bytes)):
        v = np.asarray(v)
        if v.dtype.kind == "M":
            return pd.Timestamp(v[0])
        v = v[0]
    if isinstance(v, np.generic):
        v = v.item()
    return v


def chunk_bounds(column, se):
    """mirror of the decoding glue in api.filter_out_stats (lines `max = s.max or s.max_value` ...):
    -> (null_count, vmin, vmax) with vmin/vmax exactly the objects filter_val receives"""
    from fastparquet import encoding, converted_types
    from fastparquet.util import ensure_bytes
    s = column.meta_data.statistics
    if s is None:
        return None
    out = []
    for raw in (s.min or s.min_value, s.max or s.max_value):
        if raw is None:
            out.append(None)
            continue
        v = encoding.read_plain(ensure_bytes(raw), column.meta_data.type, 1, stat=True)
        if se.converted_type is not None or se.logicalType is not None:
            v = converted_types.convert(v, se)
        out.append(v)
    return s.null_count, out[0], out[1]


def model_rowgroups(pf, dnf, rows=None, with_cells=None):
    """Gallina text of the abstract row groups of an opened dataset + the conv table for the
    conditions of `dnf` (list of lists of (name, op, python constant)).  Without `rows` a row group
    holds its own index as its only row (C05); with `rows` (the full read as dicts) it holds
    (rid, [(column, cell)...]) for the columns `with_cells` (C13)."""
    from fastparquet.util import ex_from_sep
    from fastparquet import api
    rgs = []
    table = []
    for i, rg in enumerate(pf.row_groups):
        cols = []
        for column in rg.columns:
            name = ".".join(column.meta_data.path_in_schema)
            b = chunk_bounds(column, pf.schema.schema_element(name))
            if b is None:
                st = "None"
            else:
                st = "(Some {| st_null_count := %s; st_min := %s; st_max := %s |})" % (
                    "None" if b[0] is None else "(Some (%d))" % b[0], bound_pv(scalar_of_bound(b[1])), bound_pv(scalar_of_bound(b[2])))
            cols.append("{| c_name := %s; c_num_values := %d; c_stats := %s |}" % (coq_str(name), column.meta_data.num_values, st))
        fp = rg.columns[0].file_path
        if fp is None:
            parts = "None"
        else:
            pairs = [(p[0], p[1]) for p in ex_from_sep("/").findall(fp)]
            parts = "(Some [%s])" % "; ".join("(%s, %s)" % (coq_str(a), coq_str(b)) for a, b in pairs)
            # the typing glue (val_to_num / partition_meta) is not modelled: its output is taken from the
            # real filter_out_cats by recording what it hands to filter_val for each single condition
            for grp in dnf:
                for name, op, val in grp:
                    if not any(name == cat for cat, _ in pairs):
                        continue
                    rec = []
                    orig = api.filter_val
                    api.filter_val = lambda op_, val_, vmin=None, vmax=None: (rec.append((val_, vmin, vmax)), False)[1]
                    try:
                        api.filter_out_cats(rg, [(name, op, val)], pf.partition_meta)
                    finally:
                        api.filter_val = orig
                    hits = [(cat, v) for cat, v in pairs if cat == name]
                    for (cat, v), (val2, v0, v1) in zip(hits, rec):
                        table.append("(%s, %s, %s, (%s, %s))" % (coq_str(cat), coq_str(v), to_pv(val), to_pv(_plain(val2)), to_pv(_plain(v0))))
        if rows is None:
            rtxt = "[%d]" % i
        else:
            a = sum(r.num_rows for r in pf.row_groups[:i])
            rtxt = "[%s]" % "; ".join(
                "(%d, [%s])" % (r["rid"], "; ".join("(%s, %s)" % (coq_str(c), to_pv(r[c])) for c in with_cells))
                for r in rows[a:a + rg.num_rows])
        rgs.append("{| rg_num_rows := %d; rg_columns := [%s]; rg_parts := %s; rg_rows := %s |}" % (
            rg.num_rows, "; ".join(cols), parts, rtxt))
    return "[%s]" % ";\n ".join(rgs), "[%s]" % "; ".join(dict.fromkeys(table))


def _plain(x):
    if isinstance(x, np.ndarray):
        return [_plain(v) for v in x.tolist()]
    if isinstance(x, (list, tuple)):
        return [_plain(v) for v in x]
    if isinstance(x, np.datetime64):
        return pd.Timestamp(x)
    if isinstance(x, np.generic):
        return x.item()
    return x


def model_filters(prog):
    gs = []
    for grp in prog["groups"]:
        gs.append("[%s]" % "; ".join("(%s, %s, %s)" % (coq_str(n), coq_str(op), to_pv(py_const(c))) for n, op, c in grp))
    if prog["flat"]:
        return "(Flat %s)" % gs[0]
    return "(Dnf [%s])" % "; ".join(gs)
