"""Shared by C05 (row-group pruning) and C13 (row-level filtering): datasets as DATA (a spec that is
stored in replays and rebuilt without generator code), filter programs over the whole grammar with
constants chosen at the chunk bounds, the brute-force meaning of a program on a row, and the
conversion of values / row-group metadata into the Coq model's universe (Base/PyVal.v).

A dataset spec: {"n", "cols": {name: {"kind", "values": [...]}}, "offsets": [...], "scheme":
"simple"|"hive", "partition_on": [...], "stats": True|False|[names], "page_size": int|None, "v2": bool,
"has_nulls": None|False}.  Column kinds: int (int64), float (float64, None -> NaN), str (object, None),
nint (Int64, None), ts (datetime64[ns] from integer days), bool, cat (categorical of str, None allowed).
A program: {"flat": bool, "groups": [[(col, op, const)...]...]}; constants are JSON values, timestamps
{"ts": days}.
"""
import math
import os

import numpy as np
import pandas as pd

OPS = ["==", "=", "!=", "<", "<=", ">", ">=", "in", "not in"]
STR_POOL = ["a", "b", "c", "d", "m", "x", "zz", "B", ""]
PART_STR = ["u", "v", "w"]


# ------------------------------------------------------------------ datasets
def build_frame(spec):
    cols = {}
    for name, c in spec["cols"].items():
        k, vals = c["kind"], c["values"]
        if k == "int":
            cols[name] = np.array(vals, dtype="int64")
        elif k == "float":
            cols[name] = np.array([np.nan if v is None else v for v in vals], dtype="float64")
        elif k == "str":
            cols[name] = pd.Series(vals, dtype=object)
        elif k == "nint":
            cols[name] = pd.array(vals, dtype="Int64")
        elif k == "ts":
            cols[name] = pd.to_datetime(np.array([np.datetime64("NaT") if v is None else np.datetime64("2020-01-01") + np.timedelta64(v, "D")
                                                  for v in vals], dtype="datetime64[ns]"))
        elif k == "bool":
            cols[name] = np.array(vals, dtype=bool)
        elif k == "cat":
            cols[name] = pd.Categorical(vals, categories=c["categories"])
        else:
            raise ValueError(k)
    return pd.DataFrame(cols)


def write_dataset(spec, root):
    """write with the real library; returns the path to open"""
    import fastparquet
    from fastparquet import writer
    df = build_frame(spec)
    if spec.get("index"):
        df = df.set_index(spec["index"])
    kw = {}
    if spec.get("has_nulls") is False:
        kw["has_nulls"] = False
    old = writer.MAX_PAGE_SIZE, writer.DATAPAGE_VERSION
    try:
        if spec.get("page_size"):
            writer.MAX_PAGE_SIZE = spec["page_size"]
        writer.DATAPAGE_VERSION = 2 if spec.get("v2") else 1
        if spec["scheme"] == "simple":
            path = os.path.join(root, "f.parquet")
            fastparquet.write(path, df, row_group_offsets=spec["offsets"], stats=spec["stats"],
                              compression=spec.get("compression"), **kw)
        else:
            path = os.path.join(root, "ds")
            fastparquet.write(path, df, file_scheme=spec["scheme"], row_group_offsets=spec["offsets"],
                              partition_on=spec.get("partition_on") or [], stats=spec["stats"],
                              compression=spec.get("compression"), **kw)
    finally:
        writer.MAX_PAGE_SIZE, writer.DATAPAGE_VERSION = old
    return path


def gen_dataset(rng, kinds=None, allow_parts=True, cat=False, sizes=None):
    """values are drawn from small ranges so that constants meet chunk bounds, min == max chunks,
    all-null chunks and chunks without statistics all occur"""
    nrg = rng.choice([1, 2, 3, 3, 4, 5])
    sizes = [rng.choice(sizes or [1, 2, 3, 4, 6]) for _ in range(nrg)]
    if rng.random() < 0.1:
        sizes[rng.randrange(nrg)] = 0
    sizes = [s for s in sizes if s > 0] or [2]
    n = sum(sizes)
    offsets, a = [], 0
    for s in sizes:
        offsets.append(a)
        a += s
    cols = {"rid": {"kind": "int", "values": list(range(n))}}
    kinds = kinds or rng.sample(["int", "float", "str", "nint", "ts", "bool"], rng.choice([2, 3, 4]))
    for k in kinds:
        name = {"int": "i", "float": "f", "str": "s", "nint": "n", "ts": "t", "bool": "b"}[k]
        vals = []
        for gi, s in enumerate(sizes):
            mode = rng.choice(["range", "const", "allnull", "somenull", "range", "wide"])
            base = rng.choice([0, 2, 4, 6])
            for _ in range(s):
                if k == "int":
                    v = base if mode == "const" else base + rng.randrange(0, 4 if mode != "wide" else 9)
                elif k == "bool":
                    v = (rng.random() < 0.5) if mode != "const" else bool(base & 2)
                elif k == "str":
                    v = None if mode == "allnull" or (mode == "somenull" and rng.random() < 0.4) else \
                        (STR_POOL[base // 2] if mode == "const" else rng.choice(STR_POOL[:-1] if rng.random() < 0.95 else STR_POOL))
                elif k == "float":
                    v = None if mode == "allnull" or (mode == "somenull" and rng.random() < 0.4) else \
                        (float(base) if mode == "const" else base + rng.randrange(0, 12) / 4.0)
                else:   # nint, ts
                    v = None if mode == "allnull" or (mode == "somenull" and rng.random() < 0.4) else \
                        (base if mode == "const" else base + rng.randrange(0, 4))
                vals.append(v)
        cols[name] = {"kind": k, "values": vals}
    scheme = rng.choice(["simple", "simple", "hive", "hive", "drill"] if allow_parts else ["simple", "hive"])
    part = []
    if scheme != "simple" and allow_parts and rng.random() < 0.8:
        # partition values constant per written row-group slice most of the time, so that partitions and
        # statistics interact; sometimes mixed (then the writer regroups the rows)
        if rng.random() < 0.7:
            pv = []
            for s in sizes:
                x = rng.choice(PART_STR)
                pv += [x if rng.random() < 0.9 else rng.choice(PART_STR) for _ in range(s)]
            pname = "p" if scheme == "hive" else "dir%d" % len(part)     # drill directories carry no names
            cols[pname] = {"kind": "str", "values": pv}
            part.append(pname)
        if rng.random() < 0.5:
            qv = []
            for s in sizes:
                x = rng.choice([1, 2, 10])
                qv += [x if rng.random() < 0.9 else rng.choice([1, 2, 10]) for _ in range(s)]
            qname = "q" if scheme == "hive" else "dir%d" % len(part)
            cols[qname] = {"kind": "int", "values": qv}
            part.append(qname)
    if cat:
        cats = rng.sample(["a", "b", "c", "d"], 4)
        pnull = rng.choice([0.0, 0.0, 0.3])
        cols["c"] = {"kind": "cat", "categories": cats, "values": [None if rng.random() < pnull else rng.choice(cats) for _ in range(n)]}
    names = [c for c in cols if c not in part]
    r = rng.random()
    stats = True if r < 0.6 else (False if r < 0.7 else [c for c in names if rng.random() < 0.6])
    spec = {"n": n, "cols": cols, "offsets": offsets, "scheme": scheme, "partition_on": part, "stats": stats,
            "page_size": None, "v2": False, "has_nulls": None, "compression": None}
    if "f" in cols and rng.random() < 0.15:
        spec["has_nulls"] = False      # NaN stored as a value instead of a NULL
        for name, c in cols.items():   # only float can hold a missing value then
            if c["kind"] in ("str", "nint", "ts"):
                c["values"] = [v if v is not None else (STR_POOL[0] if c["kind"] == "str" else 1) for v in c["values"]]
    return spec


# ------------------------------------------------------------------ programs
def py_const(c):
    if isinstance(c, dict) and "ts" in c:
        return pd.Timestamp("2020-01-01") + pd.Timedelta(days=c["ts"])
    if isinstance(c, list):
        return [py_const(x) for x in c]
    return c


def prog_to_filters(prog):
    g = [[(n, op, py_const(c)) for n, op, c in grp] for grp in prog["groups"]]
    return g[0] if prog["flat"] else g


def _const_pool(rng, spec, name, chunks):
    """constants at / next to the bounds of a randomly chosen chunk of this column, interior, absent, other type"""
    c = spec["cols"][name]
    k = c["kind"]
    ch = rng.choice(chunks) if chunks else []
    present = [v for v in ch if v is not None]
    if k in ("int", "nint", "float", "ts"):
        if present:
            lo, hi = min(present), max(present)
            cand = [lo, hi, lo - 1, hi + 1, rng.choice(present), (lo + hi) // 2 if k != "float" else (lo + hi) / 2, 100, -100]
        else:
            cand = [0, 1, 5]
        v = rng.choice(cand)
        if k == "ts":
            return {"ts": int(v)}
        r = rng.random()
        if k in ("int", "nint"):
            if r < 0.15:
                return float(v)              # other comparable type
            if r < 0.25:
                return v + 0.5
            return int(v)
        if r < 0.2 and float(v).is_integer():
            return int(v)
        return float(v)
    if k == "bool":
        return rng.choice([True, False, True, False, 1, 0])
    if k in ("str", "cat"):
        pool = present + STR_POOL if k == "str" else present + ["a", "b", "c", "d", "e"]
        if present and rng.random() < 0.6:
            return rng.choice([min(present), max(present), rng.choice(present)])
        return rng.choice(pool)
    raise ValueError(k)


def gen_program(rng, spec, chunks_of, cols=None, wrong_type=0.03):
    """chunks_of: name -> list of per-row-group value lists (as read back), used to aim constants"""
    names = cols or [c for c in spec["cols"] if c != "rid" or rng.random() < 0.1]
    shape = rng.choice(["flat1", "flat1", "flat", "flat", "dnf", "dnf", "dnf1"])
    ng = 1 if shape.startswith("flat") else (1 if shape == "dnf1" else rng.choice([2, 2, 3]))
    groups = []
    for _ in range(ng):
        nc = 1 if shape == "flat1" else rng.choice([1, 2, 2, 3])
        grp = []
        for _ in range(nc):
            name = rng.choice(names)
            op = rng.choice(OPS)
            kind = spec["cols"][name]["kind"]
            if kind in ("bool", "cat") and op in ("<", "<=", ">", ">=") and rng.random() < (0.7 if kind == "bool" else 0.95):
                op = rng.choice(["==", "!=", "in", "not in"])      # pandas refuses to order an unordered categorical
            if op in ("in", "not in"):
                k = rng.choice([0, 1, 1, 2, 3])
                const = [_const_pool(rng, spec, name, chunks_of.get(name)) for _ in range(k)]
            else:
                const = _const_pool(rng, spec, name, chunks_of.get(name))
            if rng.random() < wrong_type and op not in ("in", "not in"):
                const = "a" if kind not in ("str", "cat") else 3
            grp.append([name, op, const])
        groups.append(grp)
    return {"flat": shape.startswith("flat"), "groups": groups}


# ------------------------------------------------------------------ meaning of a program on a row
def is_null(x):
    if x is None or x is pd.NaT or x is pd.NA:
        return True
    try:
        return bool(x != x)
    except Exception:      # noqa
        return False


def pyval(x):
    """a cell as a plain Python value"""
    if is_null(x):
        return None
    if isinstance(x, np.generic):
        return x.item() if not isinstance(x, np.datetime64) else pd.Timestamp(x)
    return x


def sat_cond(cell, op, const):
    """True / False / None (None: NULL/NaN cell, or the comparison raises: nothing is demanded)"""
    if cell is None:
        return None
    try:
        if op in ("==", "="):
            return bool(cell == const)
        if op == "!=":
            return bool(cell != const)
        if op == "<":
            return bool(cell < const)
        if op == "<=":
            return bool(cell <= const)
        if op == ">":
            return bool(cell > const)
        if op == ">=":
            return bool(cell >= const)
        if op == "in":
            return any(bool(cell == c) for c in const)
        if op == "not in":
            return not any(bool(cell == c) for c in const)
    except TypeError:
        return None
    raise ValueError(op)


def definitely(row, filters_dnf):
    """the row satisfies the OR of ANDs with every deciding cell non-null"""
    for grp in filters_dnf:
        ok = True
        for name, op, const in grp:
            if sat_cond(row[name], op, const) is not True:
                ok = False
                break
        if ok:
            return True
    return False


def frame_rows(df):
    cols = list(df.columns)
    data = {c: [pyval(x) for x in df[c].tolist()] for c in cols}
    return [{c: data[c][i] for c in cols} for i in range(len(df))]


# ------------------------------------------------------------------ into the Coq universe
SCALE = 4


class NotRepresentable(Exception):
    pass


def to_pv(x):
    """Python value -> Gallina text of type pv. numbers are scaled by 4 (all generated floats are
    multiples of 1/4), timestamps are their integer nanoseconds, bool is 0/1 (as Python compares it)."""
    if x is None:
        return "PNone"
    if isinstance(x, (bool, np.bool_)):
        return "(PInt %d)" % (SCALE * int(x))
    if isinstance(x, (int, np.integer)):
        return "(PInt (%d))" % (SCALE * int(x))
    if isinstance(x, (float, np.floating)):
        if math.isnan(x) or math.isinf(x) or not float(x * SCALE).is_integer():
            raise NotRepresentable(repr(x))
        return "(PInt (%d))" % int(x * SCALE)
    if isinstance(x, (pd.Timestamp, np.datetime64)):
        t = pd.Timestamp(x)
        if t is pd.NaT or t.tz is not None:
            raise NotRepresentable(repr(x))
        return "(PInt (%d))" % (SCALE * t.value)
    if isinstance(x, bytes):
        try:
            x = x.decode("ascii")
        except UnicodeDecodeError:
            raise NotRepresentable(repr(x))
    if isinstance(x, str):
        if '"' in x or any(ord(c) < 32 or ord(c) > 126 for c in x):
            raise NotRepresentable(repr(x))
        return '(PStr "%s")' % x
    if isinstance(x, (list, tuple)):
        return "(PList [%s])" % "; ".join(to_pv(v) for v in x)
    if isinstance(x, np.ndarray) and x.ndim == 1:
        return "(PArr [%s])" % "; ".join(to_pv(v) for v in x.tolist()) if x.dtype.kind != "M" else \
            "(PArr [%s])" % "; ".join(to_pv(pd.Timestamp(v)) for v in x)
    raise NotRepresentable(repr(type(x)))


def coq_str(s):
    if '"' in s or any(ord(c) < 32 or ord(c) > 126 for c in s):
        raise NotRepresentable(repr(s))
    return '"%s"' % s


def scalar_of_bound(v):
    """what filter_out_stats hands to filter_val for a bound, as a Python scalar (None when absent)"""
    if v is None:
        return None
    if isinstance(v, np.ndarray) or hasattr(v, "__array__") and not isinstance(v, (str, bytes)):
        v = np.asarray(v)
        if v.dtype.kind == "M":
            return pd.Timestamp(v[0])
        v = v[0]
    if isinstance(v, np.generic):
        v = v.item()
    return v


def chunk_bounds(column, se):
    """mirror of the decoding glue in api.filter_out_stats (lines `max = s.max or s.max_value` ...):
    -> (null_count, vmin, vmax) with vmin/vmax exactly the objects filter_val receives"""
    from fastparquet import encoding, converted_types
    from fastparquet.util import ensure_bytes
    s = column.meta_data.statistics
    if s is None:
        return None
    out = []
    for raw in (s.min or s.min_value, s.max or s.max_value):
        if raw is None:
            out.append(None)
            continue
        v = encoding.read_plain(ensure_bytes(raw), column.meta_data.type, 1, stat=True)
        if se.converted_type is not None or se.logicalType is not None:
            v = converted_types.convert(v, se)
        out.append(v)
    return s.null_count, out[0], out[1]


def model_rowgroups(pf, dnf, rows=None, with_cells=None):
    """Gallina text of the abstract row groups of an opened dataset + the conv table for the
    conditions of `dnf` (list of lists of (name, op, python constant)).  Without `rows` a row group
    holds its own index as its only row (C05); with `rows` (the full read as dicts) it holds
    (rid, [(column, cell)...]) for the columns `with_cells` (C13)."""
    from fastparquet.util import ex_from_sep
    from fastparquet import api
    rgs = []
    table = []
    for i, rg in enumerate(pf.row_groups):
        cols = []
        for column in rg.columns:
            name = ".".join(column.meta_data.path_in_schema)
            b = chunk_bounds(column, pf.schema.schema_element(name))
            if b is None:
                st = "None"
            else:
                st = "(Some {| st_null_count := %s; st_min := %s; st_max := %s |})" % (
                    "None" if b[0] is None else "(Some (%d))" % b[0], to_pv(scalar_of_bound(b[1])), to_pv(scalar_of_bound(b[2])))
            cols.append("{| c_name := %s; c_num_values := %d; c_stats := %s |}" % (coq_str(name), column.meta_data.num_values, st))
        fp = rg.columns[0].file_path
        if fp is None:
            parts = "None"
        else:
            pairs = [(p[0], p[1]) for p in ex_from_sep("/").findall(fp)]
            parts = "(Some [%s])" % "; ".join("(%s, %s)" % (coq_str(a), coq_str(b)) for a, b in pairs)
            # the typing glue (val_to_num / partition_meta) is not modelled: its output is taken from the
            # real filter_out_cats by recording what it hands to filter_val for each single condition
            for grp in dnf:
                for name, op, val in grp:
                    if not any(name == cat for cat, _ in pairs):
                        continue
                    rec = []
                    orig = api.filter_val
                    api.filter_val = lambda op_, val_, vmin=None, vmax=None: (rec.append((val_, vmin, vmax)), False)[1]
                    try:
                        api.filter_out_cats(rg, [(name, op, val)], pf.partition_meta)
                    finally:
                        api.filter_val = orig
                    hits = [(cat, v) for cat, v in pairs if cat == name]
                    for (cat, v), (val2, v0, v1) in zip(hits, rec):
                        table.append("(%s, %s, %s, (%s, %s))" % (coq_str(cat), coq_str(v), to_pv(val), to_pv(_plain(val2)), to_pv(_plain(v0))))
        if rows is None:
            rtxt = "[%d]" % i
        else:
            a = sum(r.num_rows for r in pf.row_groups[:i])
            rtxt = "[%s]" % "; ".join(
                "(%d, [%s])" % (r["rid"], "; ".join("(%s, %s)" % (coq_str(c), to_pv(r[c])) for c in with_cells))
                for r in rows[a:a + rg.num_rows])
        rgs.append("{| rg_num_rows := %d; rg_columns := [%s]; rg_parts := %s; rg_rows := %s |}" % (
            rg.num_rows, "; ".join(cols), parts, rtxt))
    return "[%s]" % ";\n ".join(rgs), "[%s]" % "; ".join(dict.fromkeys(table))


def _plain(x):
    if isinstance(x, np.ndarray):
        return [_plain(v) for v in x.tolist()]
    if isinstance(x, (list, tuple)):
        return [_plain(v) for v in x]
    if isinstance(x, np.datetime64):
        return pd.Timestamp(x)
    if isinstance(x, np.generic):
        return x.item()
    return x


def model_filters(prog):
    gs = []
    for grp in prog["groups"]:
        gs.append("[%s]" % "; ".join("(%s, %s, %s)" % (coq_str(n), coq_str(op), to_pv(py_const(c))) for n, op, c in grp))
    if prog["flat"]:
        return "(Flat %s)" % gs[0]
    return "(Dnf [%s])" % "; ".join(gs)
