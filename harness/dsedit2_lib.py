"""Helpers of the C18 / C09 checks on top of harness/dsfs.py (which belongs to C19 and is not modified).

* PosRecorder: dsfs.Recorder whose write handles also record the POSITION of every write and every
  truncate (needed for handles opened 'rb+': a single-file append writes over the old footer).
* frames as pure data: a frame is a list of [label, dtype, values]; labels may repeat and need not be text.
"""
import os

from harness import dsfs


class _PosHandle(dsfs._Handle):
    def write(self, b):
        pos = self._f.tell()
        data = bytes(b)
        try:
            return dsfs._Handle.write(self, data)
        finally:
            # what reached the file: everything unless the injector cut it short (not used by C18/C09)
            self._rec.ptrace.setdefault(self._p, []).append(("pwrite", pos, data))

    def truncate(self, size=None):
        if size is None:
            size = self._f.tell()
        r = self._f.truncate(size)
        self._rec.ptrace.setdefault(self._p, []).append(("ptrunc", size))
        self._rec.trace.append(("write", self._p, b""))       # in the call-trace model a truncate changes the file it names
        return r


class PosRecorder(dsfs.Recorder):
    def __init__(self, root, **kw):
        dsfs.Recorder.__init__(self, root, **kw)
        self.ptrace = {}

    def open_with(self, path, mode="rb"):
        h = dsfs.Recorder.open_with(self, path, mode)
        if isinstance(h, dsfs._Handle):
            return _PosHandle(self, h._f, h._p)
        return h


def sx_fops(ops):
    return [[o[0], o[1], o[2]] if o[0] == "pwrite" else [o[0], o[1]] for o in ops]


def to_df(frame):
    """[[label, dtype, values], ...] -> DataFrame (labels may repeat / be non-text)."""
    import numpy as np
    import pandas as pd
    cols = {}
    for i, (label, dt, vals) in enumerate(frame):
        if dt == "object":
            cols[i] = pd.Series(list(vals), dtype=object)
        elif dt == "complex128":
            cols[i] = pd.Series(np.array([complex(0, v) for v in vals], dtype="complex128"))
        elif dt == "float64":
            cols[i] = pd.Series(np.array([np.nan if v is None else v for v in vals], dtype="float64"))
        else:
            cols[i] = pd.Series(np.array(vals, dtype=dt))
    df = pd.DataFrame(cols)
    df.columns = pd.Index([f[0] for f in frame], dtype=object)
    return df


def labels(frame):
    return [f[0] for f in frame]


def sx_label(l):
    """column label -> model cname: text = byte string, anything else = an integer tag."""
    if isinstance(l, str):
        return l.encode()
    return int(l) if isinstance(l, int) and l >= 0 else 999


def rel_snapshot(path):
    """snapshot of a dataset that is either one file or a directory: {relative name: bytes}; a single file is named ''."""
    if os.path.isdir(path):
        return dsfs.snapshot(path)
    if os.path.exists(path):
        return {"": open(path, "rb").read()}
    return {}
