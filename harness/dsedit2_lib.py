"""Helpers of the C18 / C09 checks on top of harness/dsfs.py (which belongs to C19 and is not modified).

* PosRecorder: dsfs.Recorder whose write handles also record the POSITION of every write and every
  truncate (needed for handles opened 'rb+': a single-file append writes over the old footer).
* frames as pure data: a frame is a list of [label, dtype, values]; labels may repeat and need not be text.
"""
import os

from harness import dsfs


class _PosHandle(dsfs._Handle):
    def write(self, b):
        pos = self._f.tell()
        data = bytes(b)
        try:
            return dsfs._Handle.write(self, data)
        finally:
            # what reached the file: everything, unless the fault injector failed the call before it had an effect ('pre': nothing)
            # or cut it short ('short': the first half) - the handle's position tells
            reached = max(0, min(len(data), self._f.tell() - pos))
            if reached or not data:
                self._rec.ptrace.setdefault(self._p, []).append(("pwrite", pos, data[:reached]))

    def truncate(self, size=None):
        if size is None:
            size = self._f.tell()
        r = self._f.truncate(size)
        self._rec.ptrace.setdefault(self._p, []).append(("ptrunc", size))
        self._rec.trace.append(("write", self._p, b""))       # in the call-trace model a truncate changes the file it names
        return r


class PosRecorder(dsfs.Recorder):
    def __init__(self, root, **kw):
        dsfs.Recorder.__init__(self, root, **kw)
        self.ptrace = {}

    def open_with(self, path, mode="rb"):
        h = dsfs.Recorder.open_with(self, path, mode)
        if isinstance(h, dsfs._Handle):
            return _PosHandle(self, h._f, h._p)
        return h


def sx_fops(ops):
    return [[o[0], o[1], o[2]] if o[0] == "pwrite" else [o[0], o[1]] for o in ops]


MASKED_DTYPES = ["Int8", "Int16", "Int32", "Int64", "UInt8", "UInt16", "UInt32", "UInt64", "boolean", "string"]


MASKED_FLOATS = ["Float32", "Float64"]
CAT_LABELS = ["x", "yy", "zzz"]


def to_df(frame):
    """[[label, dtype, values], ...] -> DataFrame (labels may repeat / be non-text)."""
    import numpy as np
    import pandas as pd
    cols = {}
    for i, (label, dt, vals) in enumerate(frame):
        if dt == "object":
            cols[i] = pd.Series(list(vals), dtype=object)
        elif dt == "category":
            cols[i] = pd.Series(pd.Categorical(list(vals), categories=CAT_LABELS))
        elif dt in MASKED_DTYPES or dt in MASKED_FLOATS:
            # pandas extension dtypes that can hold a missing value (None in the data = <NA>)
            cols[i] = pd.Series(pd.array(list(vals), dtype=dt))
        elif dt == "period":
            cols[i] = pd.Series(pd.period_range("2020-01", periods=len(vals), freq="M"))
        elif dt == "interval":
            cols[i] = pd.Series(pd.interval_range(0, len(vals)))
        elif dt == "cat_period":
            cols[i] = pd.Series(pd.period_range("2020-01", periods=len(vals), freq="M")).astype("category")
        elif dt == "cat_interval":
            cols[i] = pd.Series(pd.interval_range(0, len(vals))).astype("category")
        elif dt == "cat_complex":
            cols[i] = pd.Series(np.array([complex(0, v) for v in vals], dtype="complex128")).astype("category")
        elif dt == "mixed":
            pool = [1, "a", 2.5, (1, 2), b"x"]
            cols[i] = pd.Series([pool[j % len(pool)] for j in range(len(vals))], dtype=object)
        elif dt == "complex128":
            cols[i] = pd.Series(np.array([complex(0, v) for v in vals], dtype="complex128"))
        elif dt == "float64":
            cols[i] = pd.Series(np.array([np.nan if v is None else v for v in vals], dtype="float64"))
        else:
            cols[i] = pd.Series(np.array(vals, dtype=dt))
    df = pd.DataFrame(cols)
    df.columns = pd.Index([f[0] for f in frame], dtype=object)
    return df


def labels(frame):
    return [f[0] for f in frame]


def sx_label(l):
    """column label -> model cname: text = byte string, anything else = an integer tag."""
    if isinstance(l, str):
        return l.encode()
    return int(l) if isinstance(l, int) and l >= 0 else 999


def rel_snapshot(path):
    """snapshot of a dataset that is either one file or a directory: {relative name: bytes}; a single file is named ''."""
    if os.path.isdir(path):
        return dsfs.snapshot(path)
    if os.path.exists(path):
        return {"": open(path, "rb").read()}
    return {}


# ---------------------------------------------------------------------------------------------
# extraction-vs-kernel agreement (DESIGN 3.2): what pqref answered must be what the Coq kernel computes
# ---------------------------------------------------------------------------------------------
def coq_sx(x):
    """Python value (as sent to / parsed from pqref) -> Gallina term of type Sx.sx."""
    if isinstance(x, bool):
        return "(SZ %d%%Z)" % (1 if x else 0)
    if isinstance(x, int):
        return "(SZ (%d)%%Z)" % x
    if isinstance(x, (bytes, bytearray)):
        return "(SB [%s]%%N)" % "; ".join(str(b) for b in bytes(x))
    if isinstance(x, str):
        return "(SB [%s]%%N)" % "; ".join(str(b) for b in x.encode())
    if x is None:
        return "(SL [])"
    return "(SL [%s])" % "; ".join(coq_sx(e) for e in x)


def size_sx(x):
    if isinstance(x, (bytes, bytearray, str)):
        return len(x) + 1
    if isinstance(x, (list, tuple)):
        return 1 + sum(size_sx(e) for e in x)
    return 1


def extract_agreement(ctx, pid, cmds, outs, k=20, max_size=4000):
    """Pick k of the (command, answer) pairs of this run (smallest first above a random offset, size-capped) and have coqc check
    `Cmd.run command = answer` by vm_compute; every Example is one obligation."""
    import os
    from harness import common as C
    cand = [(i, size_sx(list(c)) + size_sx(o)) for i, (c, o) in enumerate(zip(cmds, outs))]
    cand = [i for i, sz in cand if sz <= max_size]
    ctx.rng.shuffle(cand)
    pick = sorted(cand[:k])
    path = os.path.join(ctx.gen_dir, "ExtractAgrees_%s.v" % pid)
    with open(path, "w") as f:
        f.write("(* GENERATED per run: answers of the extracted pqref re-computed by the kernel's VM. *)\n")
        f.write("From Coq Require Import NArith ZArith List.\nFrom Pq Require Import Extract.Sx Extract.Cmd.\nImport ListNotations.\n")
        for n, i in enumerate(pick):
            f.write("Example extract_agrees_%d : Cmd.run %s = %s.\nProof. vm_compute. reflexivity. Qed.\n" % (
                n, coq_sx(list(cmds[i])), coq_sx(outs[i])))
    ctx.coq_file(path)
    return len(pick)


def coqchk(ctx, modules, timeout=900):
    """thorough tier (DESIGN 4.6): re-check the compiled proofs with the independent checker; obligation = it accepts them and
    reports no axiom / type-in-type / unsafe fixpoint / assumed positivity."""
    import time
    from harness import common as C
    t = time.time()
    rc, out = C.run(["coqchk", "-silent", "-o", "-Q", os.path.join(C.COQ, "theories"), "Pq"] + list(modules), timeout=timeout, cwd=C.COQ)
    summary = out[out.find("CONTEXT SUMMARY"):] if "CONTEXT SUMMARY" in out else out[-1500:]
    clean = rc == 0 and all(("* %s: <none>" % k) in summary for k in (
        "Axioms", "Constants/Inductives relying on type-in-type", "Constants/Inductives relying on unsafe (co)fixpoints",
        "Inductives whose positivity is assumed"))
    ctx.obligation("coqchk -o %s: accepted, no axioms" % " ".join(modules), clean, summary[-1500:])
    ctx.checker_cmds.append("coqchk -silent -o -Q coq/theories Pq %s  (%.1fs)" % (" ".join(modules), time.time() - t))
    return clean
