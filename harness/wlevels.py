"""C01 page-level tie: writer.make_definitions / writer.encode_dict / core.skip_definition_bytes
against Impl/WLevels.v (extracted), plus the property-level oracle on the real bytes:
the SPEC hybrid decoder (proved, Codec/Hybrid.v) must recover the levels / codes from what the
real writer emitted, and the reader's skip shortcut must step over exactly the block."""
import os
import subprocess
import sys

from harness import common as C


class FakeIO:
    """records the cursor displacement of core.skip_definition_bytes"""

    def __init__(self):
        self.pos = 0

    def seek(self, n, whence=0):
        if whence == 1:
            self.pos += n
        elif whence == 0:
            self.pos = n
        else:
            raise ValueError("whence")
        return self.pos

    def tell(self):
        return self.pos


def translate_skip(ctx):
    """run translators/skip2coq.py on the working tree's core.py; compile output + generic proof.
    Returns 'translated' or 'fallback'."""
    src = os.path.join(C.REPO, "fastparquet", "core.py")
    p = subprocess.run([C.PY, os.path.join(C.VERIF, "translators", "skip2coq.py"), src],
                       stdout=subprocess.PIPE, stderr=subprocess.PIPE)
    if p.returncode != 0:
        ctx.notes.append("translator_fallback: skip2coq refused the source (%s); hand model skip_hand + correspondence used"
                         % p.stderr.decode()[-300:].strip())
        ctx.extra["translator_skip2coq"] = "fallback"
        return "fallback"
    gen = os.path.join(ctx.gen_dir, "GenSkip.v")
    txt = p.stdout.decode()
    if not os.path.exists(gen) or open(gen).read() != txt:
        open(gen, "w").write(txt)
    ok, out = C.coqc(gen, extra_q=[(ctx.gen_dir, "PqGen")])
    ctx.obligation("GenSkip.v (regenerated from core.skip_definition_bytes) compiles", ok, out)
    if ok:
        import shutil
        gp = os.path.join(ctx.gen_dir, "GenSkipProofs.v")
        shutil.copy(os.path.join(C.COQ, "genproofs", "GenSkipProofs.v"), gp)
        ctx.coq_file(gp, extra_q=[(ctx.gen_dir, "PqGen")])
    ctx.extra["translator_skip2coq"] = "translated"
    return "translated"


def mask_patterns(rng, n):
    """not-null masks of length n (lists of 0/1) - always at least one null unless n == 0"""
    if n == 0:
        return []
    pats = [[0] * n, [1] * (n - 1) + [0], [0] + [1] * (n - 1), [i % 2 for i in range(n)]]
    pats.append([1 if rng.random() < 0.8 else 0 for _ in range(n)])
    out = []
    for m in pats:
        if all(m):
            m = list(m)
            m[rng.randrange(n)] = 0
        if m not in out:
            out.append(m)
    return out


def lattice(ctx):
    rng = ctx.rng
    ns = list(range(0, 20)) + [31, 32, 33, 62, 63, 64, 65, 66, 127, 128, 129, 255, 256, 257, 503, 504, 505, 1023, 1024, 1025,
                               8190, 8191, 8192, 8193, 8194]
    big = [2 ** 14 - 1, 2 ** 14, 2 ** 20 - 1, 2 ** 20, 2 ** 21 + 5, 2 ** 27 - 1, 2 ** 27, 2 ** 34, 2 ** 41 - 1, 2 ** 41,
           2 ** 48 + 3, 2 ** 55, 2 ** 62 - 1]
    rnd = [rng.randrange(0, 2 ** rng.randrange(1, 63)) for _ in range(40 if ctx.quick() else 400)]
    return ns, big, rnd


def run(ctx, pq):
    """all page-level correspondences + oracles; call after C.use_shadow()."""
    import numpy as np
    import pandas as pd
    from fastparquet import writer, core
    rng = ctx.rng
    ns, big, rnd = lattice(ctx)

    # ---- skip_definition_bytes: real function vs model, and vs the real writer's block ----
    cmds, meta = [], []
    for n in ns + big + rnd:
        io = FakeIO()
        core.skip_definition_bytes(io, n)
        cmds.append(("skip_hand", n))
        meta.append((n, io.pos))
    for (n, impl), mo in zip(meta, pq.batch(cmds)):
        ctx.case({"skip_definition_bytes": n}, trivial=(n == 0))
        ctx.correspondence("skip_hand ~ core.skip_definition_bytes (cursor displacement)", {"num": n}, mo, impl)

    # ---- make_definitions ----
    cmds, meta = [], []
    sizes = [n for n in ns if n > 0] + ([2 ** 14, 2 ** 16 + 1] if not ctx.quick() else [2 ** 14])
    for dpv in (1, 2):
        for n in sizes:
            s = pd.Series(np.arange(n, dtype="int64"))
            block, out = writer.make_definitions(s, True, datapage_version=dpv)
            cmds.append(("wr_defs_nonull", dpv, n))
            meta.append(("nonull", dpv, n, None, bytes(block)))
            if n <= 2 ** 14:
                pats = mask_patterns(rng, n)
                if ctx.quick() and n > 1025:
                    # the extracted writer model is quadratic in the mask length (1 s at 8192).  For the nulls branch 8192 is no framing
                    # boundary (its header counts mask BYTES: 1 -> 2 varint bytes at 504 rows, 2 -> 3 at 65 528): quick tier = one random
                    # pattern at 8191 / 8192 / 8193; 8190, 8194, 2^14 and every pattern in the thorough tier
                    pats = pats[-1:] if n in (8191, 8192, 8193) else []
                for m in pats:
                    vals = np.arange(n, dtype="float64")
                    vals[[i for i, b in enumerate(m) if not b]] = np.nan
                    block, out = writer.make_definitions(pd.Series(vals), False, datapage_version=dpv)
                    if len(out) != sum(m):
                        ctx.fail({"component": "make_definitions", "what": "non-null values returned"},
                                 {"mask": m if n < 200 else "len %d" % n, "dpv": dpv}, "returned %d values for %d non-null cells" % (len(out), sum(m)))
                    cmds.append(("wr_defs_nulls", dpv, m))
                    meta.append(("nulls", dpv, n, m, bytes(block)))
    outs = pq.batch(cmds)
    dec_cmds, dec_meta = [], []
    for (kind, dpv, n, m, impl), mo in zip(meta, outs):
        case = {"make_definitions": kind, "dpv": dpv, "n": n, "mask": (m if m is None or n <= 64 else "pattern of length %d, %d nulls" % (n, n - sum(m)))}
        ctx.case(case)
        ctx.count("defs_kind", "%s/v%d" % (kind, dpv))
        ctx.correspondence("wr_defs_%s_v%d ~ writer.make_definitions (bytes)" % (kind, dpv), case, mo, impl)
        # oracle on the REAL bytes: the proved spec decoder recovers the levels, consuming the block exactly
        dec_cmds.append(("hyb_dec_len" if dpv == 1 else "hyb_dec", 1, 1, n, impl + b"\xAA\xBB"))
        dec_meta.append((case, m if m is not None else [1] * n, impl))
        if kind == "nonull" and dpv == 1:
            io = FakeIO()
            core.skip_definition_bytes(io, n)
            if io.pos != len(impl):
                ctx.fail({"component": "skip_definition_bytes", "n_ge_64": n >= 64},
                         case, "reader skips %d bytes, the writer's no-null definition block has %d" % (io.pos, len(impl)))
    for (case, want, impl), mo in zip(dec_meta, pq.batch(dec_cmds)):
        got = mo[0] if mo else None
        if not got or list(got[0]) != want or bytes(got[1]) != b"\xAA\xBB":
            ctx.fail({"component": "make_definitions", "what": "spec decoder disagrees"}, dict(case, block=impl.hex()[:400]),
                     "spec hybrid decoder on the written definition block: %r" % (C._short(mo, 300),))

    # ---- encode_dict ----
    cmds, meta = [], []
    for k, dt in ((1, "int8"), (2, "int16"), (4, "int32")):
        hi = {1: 127, 2: 32767, 4: 2 ** 31 - 1}[k]
        for n in [n for n in ns if 0 < n <= 1025]:
            codes = [rng.randrange(0, min(hi, 5 * n + 3) + 1) for _ in range(n)]
            if n > 2:
                codes[0] = hi
                codes[-1] = 0
            b = writer.encode_dict(pd.Series(np.array(codes, dtype=dt)), None)
            cmds.append(("wr_dict_indices", k, codes))
            meta.append((k, n, codes, bytes(b)))
    outs = pq.batch(cmds)
    dec_cmds, dec_meta = [], []
    for (k, n, codes, impl), mo in zip(meta, outs):
        case = {"encode_dict": "int%d" % (8 * k), "n": n, "codes": codes if n <= 40 else "len %d" % n}
        ctx.case(case)
        ctx.count("dict_width", 8 * k)
        ctx.correspondence("wr_dict_indices ~ writer.encode_dict (bytes)", case, mo, impl)
        if impl and impl[0] == 8 * k:
            dec_cmds.append(("hyb_dec", 0, 8 * k, n, impl[1:]))
            dec_meta.append((case, codes, impl))
        else:
            ctx.fail({"component": "encode_dict", "what": "width byte"}, case, "width byte %r" % (impl[:1],))
    for (case, want, impl), mo in zip(dec_meta, pq.batch(dec_cmds)):
        got = mo[0] if mo else None
        if not got or list(got[0]) != want:
            ctx.fail({"component": "encode_dict", "what": "spec decoder disagrees"}, dict(case, block=impl.hex()[:400]),
                     "spec hybrid decoder (lenient) on the written index block: %r" % (C._short(mo, 300),))


# ============================================================================================
# wave 3: scratch buffers of the run headers (Impl/WScratch.v) and the time-zone text (Impl/TzText.v)

def translate_scratch(ctx):
    """translators/scratch2coq.py on the working tree's writer.py -> GenScratch.v + genproofs/GenScratchProofs.v.
    Returns {root: smallest capacity} or None (fallback: the hand model with the pinned capacity 10)."""
    import shutil
    src = os.path.join(C.REPO, "fastparquet", "writer.py")
    p = subprocess.run([C.PY, os.path.join(C.VERIF, "translators", "scratch2coq.py"), src],
                       stdout=subprocess.PIPE, stderr=subprocess.PIPE)
    if p.returncode != 0:
        ctx.notes.append("translator_fallback: scratch2coq refused the source (%s); hand model (capacity 10) + fake-length "
                         "correspondence used" % p.stderr.decode()[-300:].strip())
        ctx.extra["translator_scratch2coq"] = "fallback"
        return None
    txt = p.stdout.decode()
    gen = os.path.join(ctx.gen_dir, "GenScratch.v")
    if not os.path.exists(gen) or open(gen).read() != txt:
        open(gen, "w").write(txt)
    ok, out = C.coqc(gen, extra_q=[(ctx.gen_dir, "PqGen")])
    ctx.obligation("GenScratch.v (scratch-buffer capacities regenerated from writer.make_definitions / encode_dict) compiles", ok, out)
    if ok:
        gp = os.path.join(ctx.gen_dir, "GenScratchProofs.v")
        shutil.copy(os.path.join(C.COQ, "genproofs", "GenScratchProofs.v"), gp)
        ctx.coq_file(gp, extra_q=[(ctx.gen_dir, "PqGen")])
    import re
    caps = {}
    for root, f, k in re.findall(r'\("(\w+)", "(\w+)", (\d+)\)', txt):
        caps[root] = min(caps.get(root, 10 ** 9), int(k))
    ctx.extra["translator_scratch2coq"] = "translated"
    ctx.extra["scratch_capacities"] = caps
    return caps


class _NoValues:
    """stands for the numpy array of the codes: only its item size is asked for; the bytes are never looked at"""

    def __init__(self, k):
        import numpy as np
        self.dtype = np.dtype("int%d" % (8 * k))

    def tobytes(self):
        return b""


class FakeCodes:
    """a column of n dictionary codes of k bytes each for writer.encode_dict, without the n * k bytes"""

    def __init__(self, n, k):
        self.values = _NoValues(k)
        self._n = n

    def __len__(self):
        return self._n


def header_sizes():
    """row counts at which the varint of the run header grows by a byte (1..9 bytes) and the i32 limit"""
    ns = []
    for k in range(1, 9):
        ns += [2 ** (7 * k - 1) - 1, 2 ** (7 * k - 1), 2 ** (7 * k - 1) + 1]
    return sorted(set(ns + [2 ** 31 - 1, 2 ** 31]))


def nonull_block(n, dpv):
    """the REAL make_definitions on a column of n rows without nulls (a zero-stride view: no n bytes anywhere)"""
    import numpy as np
    from fastparquet import writer
    block, out = writer.make_definitions(np.broadcast_to(np.int8(1), (n,)), True, datapage_version=dpv)
    return bytes(block)


def run_scratch(ctx, pq, caps):
    from fastparquet import writer
    cap_md = (caps or {}).get("make_definitions", 10)
    cap_ed = (caps or {}).get("encode_dict", 10)
    cmds, meta = [], []
    for n in header_sizes():
        for dpv in (1, 2):
            try:
                impl = nonull_block(n, dpv)
            except Exception as e:      # noqa: a rewrite that looks at the data: this tie is not possible, the static one remains
                ctx.notes.append("fake-length call of make_definitions not possible: %s: %s" % (type(e).__name__, str(e)[:100]))
                ctx.extra["scratch_fake_length_make_definitions"] = "not possible"
                break
            cmds.append(("wr_defs_nonull_cap", cap_md, dpv, n))
            cmds.append(("wr_defs_nonull", dpv, n))
            meta.append(("md", dpv, n, impl))
    for k in (1, 2, 4):
        for g in [2 ** (7 * j - 1) + d for j in range(1, 5) for d in (-1, 0)] + [2 ** 28 - 1]:
            n = 8 * g
            if n >= 2 ** 31:
                n = 2 ** 31 - 1
            try:
                impl = bytes(writer.encode_dict(FakeCodes(n, k), None))
            except Exception as e:      # noqa
                ctx.notes.append("fake-length call of encode_dict not possible: %s: %s" % (type(e).__name__, str(e)[:100]))
                ctx.extra["scratch_fake_length_encode_dict"] = "not possible"
                break
            cmds.append(("wr_dict_head_cap", cap_ed, k, n))
            cmds.append(("wr_dict_head_cap", 64, k, n))
            meta.append(("ed", k, n, impl))
    outs = pq.batch(cmds)
    for i, (kind, a, n, impl) in enumerate(meta):
        capped, full = bytes(outs[2 * i]), bytes(outs[2 * i + 1])
        if kind == "md":
            case = {"make_definitions": "nonull", "dpv": a, "n": n}
            ctx.case(case)
            ctx.count("header_bytes", len(impl) - (5 if a == 1 else 1))
            ctx.correspondence("wr_defs_nonull_v%d_cap (capacity from the source) ~ writer.make_definitions on a zero-stride column (bytes)" % a,
                               case, capped, impl)
            if n < 2 ** 31 and impl != full:
                ctx.fail({"component": "make_definitions", "what": "run header scratch buffer", "n_ge_2_27": n >= 2 ** 27}, case,
                         "definition block of a page of %d rows without nulls is %s; the block that decodes to %d ones "
                         "(C01_defs_nonull_v%d_roundtrip) is %s" % (n, impl.hex(), n, a, full.hex()))
        else:
            case = {"encode_dict": "int%d" % (8 * a), "n": n, "codes": "fake length"}
            ctx.case(case)
            ctx.correspondence("wr_dict_head_cap (capacity from the source) ~ head of writer.encode_dict for a column of n codes (bytes)",
                               case, capped, impl)
            if impl != full:
                ctx.fail({"component": "encode_dict", "what": "run header scratch buffer"}, case,
                         "width byte + run header for %d codes is %s, must be %s" % (n, impl.hex(), full.hex()))


def tz_seconds(ctx):
    rng = ctx.rng
    mins = [60 * m for m in range(-1439, 1440)]
    secs = [d * (b + e) for b in (0, 60, 3600, 86340) for e in (1, 30, 59) for d in (1, -1)]
    secs += [rng.randrange(-86399, 86400) for _ in range(60 if ctx.quick() else 2000)]
    return mins + sorted(set(s for s in secs if -86400 < s < 86400 and s % 60))


def tz_observe(s):
    """REAL code for the fixed offset of s seconds: (str(tz), text recorded by get_column_metadata, what tz_to_dt_tz makes of it)"""
    import datetime
    import pandas as pd
    from fastparquet import util, dataframe
    tz = datetime.timezone(datetime.timedelta(seconds=s))
    col = pd.Series(pd.DatetimeIndex([], dtype=pd.DatetimeTZDtype("ns", tz)), name="t")
    text = util.get_column_metadata(col, "t")["metadata"]["timezone"]
    try:
        z = dataframe.tz_to_dt_tz(text)
        if isinstance(z, str):
            back = [b"name", z.encode()]
        else:
            off = z.utcoffset(None)
            back = [b"fixed", off.days * 86400 + off.seconds] if not off.microseconds else [b"fixed-us", str(off)]
    except Exception as e:     # noqa
        back = [b"raises"]
    return str(tz), text, back


def run_tz(ctx, pq):
    allsecs = tz_seconds(ctx)
    obs = [tz_observe(s) for s in allsecs]
    texts = pq.batch([("tz_text", s) for s in allsecs])
    parses = pq.batch([("tz_parse", o[1].encode()) for o in obs])
    for s, (name, text, back), mt, mp in zip(allsecs, obs, texts, parses):
        case = {"tz_seconds": s}
        ctx.case(case, trivial=False)
        ctx.count("tz_offset_class", "zero" if s == 0 else ("sub-minute part" if s % 60 else ("negative below one hour" if -3600 < s < 0 else "whole minutes")))
        ctx.correspondence("py_tz_name ~ str(datetime.timezone) (external behaviour)", case, bytes(mt[0]), name.encode())
        ctx.correspondence("tz_meta_text ~ util.get_column_metadata(...)['metadata']['timezone']", case,
                           bytes(mt[1][0]) if mt[1] else None, text.encode())
        ctx.correspondence("tz_parse ~ dataframe.tz_to_dt_tz", case, mp, back)
        ok = (back == [b"fixed", s]) or (s == 0 and back == [b"name", b"UTC"])
        if not ok:
            ctx.fail({"component": "tz text", "sub_minute": bool(s % 60), "negative_below_one_hour": -3600 < s < 0}, case,
                     "zone %s is recorded as %r and read back as %r" % (name, text, back))
