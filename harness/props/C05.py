"""C05 — filtered reads never lose a qualifying row (row-group pruning is sound). DESIGN.md section 6, C05."""
import json
import os
import shutil
import sys
import tempfile
import warnings

from harness import common as C
from harness import filt as FL

TRUSTED = [
    "Coq 8.16.1 kernel + coqc; vm_compute for the closed Example/witness and for running the model in the correspondence; no native_compute",
    "translators/py2coq.py (Python ast -> Gallina) and the prelude Base/PyVal.v: that ==, !=, <, <=, >, >=, in, not in, len, sorted, "
    "np.searchsorted(left/right), x[0], x[-1], isinstance(x, np.ndarray), and/or/not on ints, str, None, lists and length-1 arrays mean what "
    "Python/numpy mean (exercised on every run by the leaf correspondence against the real api.filter_val)",
    "hypotheses of C05_prune_sound: statistics are valid bounds with exact all-null indication (C04), partition values parse back (C08)",
    "typing glue not modelled (mirrored in harness/filt.py by calling the same library functions): encoding.read_plain + converted_types.convert "
    "of the stored min/max, util.val_to_num / partition_meta for partition values, the path regex ex_from_sep",
    "numbers enter the model as integers (x4 scaling of quarter-step floats, timestamps as integer ns, bool as 0/1); NaN never enters the model",
    "Python glue: dataset/program generators, brute-force oracle (Python comparison of each non-null cell with the constant)",
]

FUNCS = ["filter_val", "filter_in", "filter_not_in", "_handle_np_array"]


def _init():
    warnings.filterwarnings("ignore")
    C.use_shadow()


# ------------------------------------------------------------------ one dataset on the real code
def run_seq(path, seq, rows, groups):
    """DIFFERENT filter programs one after the other ON ONE HANDLE (to_pandas / count / iter_row_groups / filter_row_groups), each
    compared with the brute-force meaning on the full read; -> {"bad": None | text, "step": k}"""
    from fastparquet import ParquetFile, api
    pf = ParquetFile(path)
    nrg = len(groups)
    for k, (kind, prog) in enumerate(seq):
        filters = FL.prog_to_filters(prog)
        dnf = [filters] if prog["flat"] else filters
        must = [r["rid"] for r in rows if FL.definitely(r, dnf)]
        bad = None
        try:
            if kind == "read":
                got = [int(x) for x in pf.to_pandas(filters=filters)["rid"].tolist()]
            elif kind == "iter":
                got = [int(x) for d in pf.iter_row_groups(filters=filters) for x in d["rid"].tolist()]
            elif kind == "idx":
                idx = [int(i) for i in api.filter_row_groups(pf, filters, as_idx=True)]
                got = [x for i in idx for x in groups[i]] if all(0 <= i < nrg for i in idx) else None
                if got is None:
                    bad = "filter_row_groups(as_idx=True) returned %s for %d row groups" % (idx, nrg)
            else:
                c = int(pf.count(filters=filters))
                got = None
                if c < len(must):
                    bad = "count(filters) = %d, %d rows satisfy the program" % (c, len(must))
            if got is not None:
                present = set(got)
                lost = [x for x in must if x not in present]
                expect = [x for g in groups if g and g[0] in present for x in g]
                if lost:
                    bad = "rows %s satisfy the program but are missing from %s" % (lost, got)
                elif expect != got:
                    bad = "result %s is not the in-order concatenation of whole row groups" % (got,)
        except Exception as e:      # noqa
            bad = "raised %s: %s" % (type(e).__name__, str(e)[:160])
        if bad:
            return {"step": k, "bad": "step %d of %d on one handle, %s with filters=%s: %s" % (k + 1, len(seq), kind, str(filters)[:300], bad)}
    return {"step": None, "bad": None}


def run_dataset(job):
    """write the dataset, read it fully, run every program; returns observations (all JSON-able)"""
    spec, progs, want_model = job[:3]
    seqs = job[3] if len(job) > 3 else []
    import numpy as np   # noqa
    from fastparquet import ParquetFile, api
    tmp = tempfile.mkdtemp(prefix="verif-C05w-", dir="/tmp")
    out = {"error": None, "progs": []}
    try:
        try:
            if spec.get("prelude"):
                # a dataset of identical shape but other values is filtered FIRST in this process (state kept outside the handle)
                pre = os.path.join(tmp, "pre")
                os.mkdir(pre)
                ppath = FL.write_dataset(spec["prelude"], pre)
                ppf = ParquetFile(ppath)
                for prog in progs:
                    try:
                        ppf.to_pandas(filters=FL.prog_to_filters(prog))
                    except Exception:      # noqa
                        pass
            main = os.path.join(tmp, "main")
            os.mkdir(main)
            path = FL.write_dataset(spec, main)
            pf = ParquetFile(path)
            full = pf.to_pandas()
        except Exception as e:    # noqa
            out["error"] = "%s: %s" % (type(e).__name__, e)
            return out
        rows = FL.frame_rows(full)
        sizes = [rg.num_rows for rg in pf.row_groups]
        out["sizes"] = sizes
        out["nrows"] = len(rows)
        groups, a = [], 0
        for s in sizes:
            groups.append([r["rid"] for r in rows[a:a + s]])
            a += s
        out["stats_present"] = sum(1 for rg in pf.row_groups for c in rg.columns if c.meta_data.statistics is not None
                                   and (c.meta_data.statistics.max is not None or c.meta_data.statistics.max_value is not None))
        pf_shared = ParquetFile(path)     # one handle reused by every program: the memoised converted_min/max must stay right
        for prog in progs:
            o = {}
            filters = FL.prog_to_filters(prog)
            dnf = [filters] if prog["flat"] else filters
            # ---- the property on the real code
            try:
                pf2 = ParquetFile(path)          # fresh handle: no cached converted_min/max from other programs
                got = pf2.to_pandas(filters=filters)
                got_rids = [int(x) for x in got["rid"].tolist()]
                o["got"] = got_rids
                o["count"] = int(pf2.count(filters=filters))
                it = []
                for d in pf2.iter_row_groups(filters=filters):
                    it += [int(x) for x in d["rid"].tolist()]
                o["iter"] = it
                o["idx"] = [int(i) for i in api.filter_row_groups(pf2, filters, as_idx=True)]
                o["idx_shared"] = [int(i) for i in api.filter_row_groups(pf_shared, filters, as_idx=True)]
            except Exception as e:      # noqa
                o["raised"] = type(e).__name__
                o["raised_msg"] = str(e)[:200]
            must = [r["rid"] for r in rows if FL.definitely(r, dnf)]
            o["must"] = must
            if "got" in o:
                present = set(o["got"])
                expect = [x for g in groups if g and g[0] in present for x in g]
                o["whole_groups"] = (expect == o["got"])
                o["lost"] = [x for x in must if x not in present]
            # ---- inputs of the model for the same case
            if want_model:
                try:
                    pf3 = ParquetFile(path)
                    rg_txt, tbl = FL.model_rowgroups(pf3, dnf)
                    known = "[%s]" % "; ".join(FL.coq_str(c) for c in pf3.columns + list(pf3.cats.keys()))
                    o["model"] = "kept_indices filter_val %s %s\n %s\n %s" % (tbl, known, rg_txt, FL.model_filters(prog))
                except FL.NotRepresentable as e:
                    o["model_skip"] = "not representable: %s" % e
                except Exception as e:      # noqa
                    o["model_skip"] = "glue mirror raised %s: %s" % (type(e).__name__, str(e)[:100])
            out["progs"].append(o)
        out["seqs"] = [run_seq(path, seq, rows, groups) for seq in seqs]
        return out
    finally:
        shutil.rmtree(tmp, ignore_errors=True)


def run_threads(job):
    """the FIRST filtered read on a cold handle from two threads at once: thread A is held inside its first call of
    converted_types.convert (the call is only delayed), thread B does the same read meanwhile; both results against the brute force"""
    import threading
    import time
    spec, progs = job
    from fastparquet import ParquetFile, converted_types
    tmp = tempfile.mkdtemp(prefix="verif-C05t-", dir="/tmp")
    out = {"error": None, "progs": []}
    try:
        try:
            path = FL.write_dataset(spec, tmp)
            rows = FL.frame_rows(ParquetFile(path).to_pandas())
        except Exception as e:    # noqa
            out["error"] = "%s: %s" % (type(e).__name__, e)
            return out
        for prog in progs:
            filters = FL.prog_to_filters(prog)
            dnf = [filters] if prog["flat"] else filters
            must = [r["rid"] for r in rows if FL.definitely(r, dnf)]
            pf = ParquetFile(path)                      # cold: nothing memoised on its statistics objects
            orig = converted_types.convert
            gate = {"used": False}
            started = threading.Event()
            res = {}

            def slow(*a, **k):
                if not gate["used"]:
                    gate["used"] = True
                    started.set()
                    time.sleep(0.12)
                return orig(*a, **k)

            def read(tag):
                try:
                    res[tag] = [int(x) for x in pf.to_pandas(filters=filters)["rid"].tolist()]
                except Exception as e:      # noqa
                    res[tag] = "raised %s: %s" % (type(e).__name__, str(e)[:120])
            converted_types.convert = slow
            try:
                ta = threading.Thread(target=read, args=("A",))
                ta.start()
                started.wait(1.0)
                tb = threading.Thread(target=read, args=("B",))
                tb.start()
                ta.join(30)
                tb.join(30)
            finally:
                converted_types.convert = orig
            o = {"must": must, "bad": None}
            for tag in ("A", "B"):
                got = res.get(tag)
                if isinstance(got, str) or got is None:
                    o["bad"] = "thread %s: %s" % (tag, got)
                elif [x for x in must if x not in set(got)]:
                    o["bad"] = "thread %s (%s): rows %s satisfy the program but are missing from %s" % (
                        tag, "held in its first convert()" if tag == "A" else "reading while A was held", [x for x in must if x not in set(got)], got)
                if o["bad"]:
                    break
            out["progs"].append(o)
        return out
    finally:
        shutil.rmtree(tmp, ignore_errors=True)


def gen_thread_job(rng, nprog):
    """columns whose RAW statistics order differently from the converted ones (uint64 above the signed range; timestamps)"""
    sizes = [rng.choice([2, 3, 4]) for _ in range(rng.choice([2, 3, 4]))]
    n = sum(sizes)
    offsets, a = [], 0
    for s_ in sizes:
        offsets.append(a)
        a += s_
    base = 2**63
    uv, tv = [], []
    for gi, s_ in enumerate(sizes):
        for _ in range(s_):
            uv.append(base + gi * 10 + rng.randrange(0, 8) if rng.random() < 0.85 else rng.randrange(0, 50))
            tv.append(gi * 5 + rng.randrange(0, 5))
    spec = {"n": n, "offsets": offsets, "scheme": "simple", "partition_on": [], "stats": True, "page_size": None, "v2": False, "has_nulls": None,
            "compression": None, "flavour": "two-threads-cold-handle",
            "cols": {"rid": {"kind": "int", "values": list(range(n))}, "u": {"kind": "uint", "values": uv, "big": True},
                     "t": {"kind": "ts", "values": tv}}}
    ch = chunks_of(spec)
    return spec, [FL.gen_program(rng, spec, ch, cols=["u", "u", "u", "t"], wrong_type=0, ops=["==", ">=", ">", "<=", "<", "in", ">=", ">"]) for _ in range(nprog)]


def chunks_of(spec):
    """per column, the value lists of the written row-group slices (to aim constants at chunk bounds)"""
    offs = spec["offsets"] + [spec["n"]]
    return {name: [c["values"][offs[i]:offs[i + 1]] for i in range(len(offs) - 1)] for name, c in spec["cols"].items()}


def col_kind(spec, n):
    if n in spec.get("partition_on", []):
        return "part-" + spec["cols"][n]["kind"]
    return spec["cols"][n]["kind"] if n in spec["cols"] else "?"


def classify(spec, prog, outcome):
    ops = sorted({op for g in prog["groups"] for _, op, _ in g})
    kinds = sorted({col_kind(spec, n) for g in prog["groups"] for n, _, _ in g})
    return {"component": "row-group-pruning", "outcome": outcome, "ops": ops, "coltypes": kinds,
            "shape": "flat" if prog["flat"] else "dnf", "scheme": spec["scheme"]}


# ------------------------------------------------------------------ leaf cases
def gen_leaf_cases(rng, n):
    import numpy as np
    cases = []
    for _ in range(n):
        dom = rng.choice(["int", "int", "float", "str", "mixed"])
        mismatch = rng.random() < 0.04

        def val():
            if dom == "int":
                return rng.randrange(-2, 8)
            if dom == "float":
                return rng.choice([rng.randrange(-2, 8), rng.randrange(-8, 32) / 4.0])
            if dom == "str":
                return rng.choice(FL.STR_POOL)
            return rng.choice([rng.randrange(0, 5), rng.randrange(0, 20) / 4.0, True, False])
        op = rng.choice(FL.OPS + ["~", "==="][:1 if rng.random() < 0.97 else 2])
        a, b = val(), val()
        try:
            if rng.random() < 0.85 and a > b:
                a, b = b, a
        except TypeError:
            pass
        r = rng.random()
        vmin = None if r < 0.15 else a
        r = rng.random()
        vmax = None if r < 0.15 else (vmin if (vmin is not None and rng.random() < 0.25) else b)
        if dom in ("int", "float") and rng.random() < 0.12:
            # a NaN bound (foreign footer): bounds nothing; stored as the text "nan" in the case
            if rng.random() < 0.6:
                vmin = "nan"
            if rng.random() < 0.6 or vmin != "nan":
                vmax = "nan"
        if op in ("in", "not in"):
            c = [val() for _ in range(rng.choice([0, 1, 2, 3, 5]))]
            if c and rng.random() < 0.5:
                c[rng.randrange(len(c))] = rng.choice([x for x in (vmin, vmax, a) if x is not None and x != "nan"] or [a])
        else:
            c = rng.choice([val(), vmin if vmin not in (None, "nan") else val(), vmax if vmax not in (None, "nan") else val()])
            if mismatch:          # a scalar constant of the wrong type: both sides raise TypeError (or decide without comparing)
                c = "a" if dom != "str" else 3
        wrap = [rng.random() < 0.3, rng.random() < 0.3]
        cases.append({"op": op, "val": c, "vmin": vmin, "vmax": vmax, "arr": wrap, "nanb": "nan" in (vmin, vmax) and dom != "str"})
    return cases


def leaf_impl(case):
    import numpy as np
    from fastparquet import api

    def w(x, arr):
        if x == "nan" and case.get("nanb"):
            x = float("nan")
        if x is None or not arr:
            return x
        return np.array([x]) if not isinstance(x, str) else np.array([x], dtype=object)
    try:
        r = api.filter_val(case["op"], case["val"], w(case["vmin"], case["arr"][0]), w(case["vmax"], case["arr"][1]))
        return "T" if bool(r) else "F"
    except Exception as e:     # noqa
        return "E:" + type(e).__name__


def leaf_model_expr(case):
    def w(x, arr):
        if x == "nan" and case.get("nanb"):
            return "PNone"               # a NaN bound enters the model as absent (FL.bound_pv)
        t = FL.to_pv(x)
        return "(PArr [%s])" % t if (arr and x is not None) else t
    return "show_res_bool (filter_val (PStr %s) %s %s %s)" % (
        FL.coq_str(case["op"]), FL.to_pv(case["val"]), w(case["vmin"], case["arr"][0]), w(case["vmax"], case["arr"][1]))


# ------------------------------------------------------------------ the check
def run(ctx):
    C.coq_lib()
    ctx.trusted = TRUSTED
    quick = ctx.quick()
    # -------- theorems
    ctx.coq_file(os.path.join(C.COQ, "props", "C05.v"))
    bad = C.hygiene()
    ctx.obligation("hygiene: no Admitted/Axiom/Parameter/... in coq/", not bad, "; ".join(bad))
    if not quick:
        # independent re-check of the compiled theorems and everything they depend on
        rc, o = C.run(["coqchk", "-o", "-silent", "-Q", os.path.join(C.COQ, "theories"), "Pq", "C05.vo"],
                      cwd=os.path.join(C.COQ, "props"), timeout=1200)
        ctx.obligation("coqchk -o props/C05.vo: checked, Axioms: <none>", rc == 0 and "Axioms: <none>" in o, o[-1500:])
        ctx.checker_cmds.append("coqchk -o -silent -Q coq/theories Pq coq/props/C05.vo")
    # -------- tie 1: translate api.py, re-prove the leaf theorems on the regenerated text
    sys.path.insert(0, os.path.join(C.VERIF, "translators"))
    import py2coq
    gen_ok = False
    src = os.path.join(C.REPO, "fastparquet", "api.py")
    req_model = "From Coq Require Import ZArith List String.\nFrom Pq Require Import Base.PyVal Impl.Filter.\nImport ListNotations.\nOpen Scope Z_scope.\n"
    for f in os.listdir(ctx.gen_dir):
        if f.startswith("GenFilter"):
            os.unlink(os.path.join(ctx.gen_dir, f))
    try:
        text = py2coq.translate(src, FUNCS)
        open(os.path.join(ctx.gen_dir, "GenFilter.v"), "w").write(text)
        ok, out = C.coqc(os.path.join(ctx.gen_dir, "GenFilter.v"), extra_q=[(ctx.gen_dir, "PqGen")])
        if not ok:
            raise py2coq.Unsupported("generated text does not type-check: " + out[-600:])
        committed = open(os.path.join(C.COQ, "theories", "Impl", "FilterLeaf.v")).read()
        import re
        strip = lambda t: re.sub(r"\(\* api\.py:\d+ \*\)\n", "", t)       # source line numbers move with unrelated edits
        ctx.extra["translator"] = {"status": "ok", "functions": FUNCS,
                                   "regenerated_equals_committed_copy": strip(committed).endswith(strip(text))}
        proofs = os.path.join(ctx.gen_dir, "GenFilterProofs.v")
        shutil.copy(os.path.join(C.COQ, "genproofs", "GenFilterProofs.v"), proofs)
        ctx.coq_file(proofs, extra_q=[(ctx.gen_dir, "PqGen")],
                     obligations=["gen:" + n for n in C.theorem_names(proofs)])
        gen_ok = True
        req_model += "From PqGen Require Import GenFilter.\n"
        extra_q = [(ctx.gen_dir, "PqGen")]
        # -------- tie 1b: the row-group LOOP filter_out_stats regenerated (for-loops with early return over thrift objects,
        # Base/PyObj.v) and proved to refine the hand model Impl/Filter.filter_out_stats (Impl/FilterLoop.v abstraction);
        # fail closed -> the hand model + row-group correspondence carry the tie (translator_fallback_loop)
        try:
            ltext = py2coq.translate(src, ["filter_out_stats", "filter_out_cats", "keep_rg"], loops=True, known=["filter_val"])
            open(os.path.join(ctx.gen_dir, "GenFilterLoop.v"), "w").write(ltext)
            ok, out = C.coqc(os.path.join(ctx.gen_dir, "GenFilterLoop.v"), extra_q=[(ctx.gen_dir, "PqGen")])
            if not ok:
                raise py2coq.Unsupported("generated loop text does not type-check: " + out[-400:])
            # its own small obligation: what the loop does for one column / one partition directory is independent of the state
            # earlier iterations left behind (the position of `vmax, vmin = None, None`); NOT subject to the fallback below
            bf = os.path.join(ctx.gen_dir, "GenBoundsFresh.v")
            shutil.copy(os.path.join(C.COQ, "genproofs", "GenBoundsFresh.v"), bf)
            ctx.coq_file(bf, extra_q=[(ctx.gen_dir, "PqGen")], obligations=["gen:" + n for n in C.theorem_names(bf)])
            lp = open(os.path.join(C.COQ, "genproofs", "GenFilterLoopProofs.v")).read()
            if quick:
                # the fully general refinement (memoised bounds, converted types) takes ~35 s more: thorough tier
                a, b = lp.index("(* ---- THOROUGH ONLY ---- *)"), lp.index("End Loop.")
                lp = lp[:a] + lp[b:]
            lproofs = os.path.join(ctx.gen_dir, "GenFilterLoopProofs.v")
            open(lproofs, "w").write(lp)
            # the refinement script is specific to the loop's shape: when it does not go through (a real change such as the
            # hoisted `vmax, vmin = None, None`, but also a neutral restructuring) the tie falls back, closed, to the hand model +
            # row-group correspondence + oracle, which produce the concrete inputs for a real change and stay silent otherwise
            okp, outp = C.coqc(lproofs, extra_q=[(ctx.gen_dir, "PqGen")], timeout=900)
            if not okp:
                raise py2coq.Unsupported("refinement proof does not apply to the regenerated loop (%s): %s" % (C.failing_theorem(lproofs, outp), outp[-300:]))
            for n in C.theorem_names(lproofs):
                ctx.obligation("gen:loop:" + n, True, "re-proved on the regenerated filter_out_stats")
            ctx.extra.setdefault("loop_print_assumptions", "Closed under the global context" in outp)
            ctx.extra["translator"]["loop"] = {"status": "ok", "functions": ["filter_out_stats", "filter_out_cats", "keep_rg (the any([...]) decision of filter_row_groups)"], "external_calls": sorted(set(re.findall(r'\(ext "([^"]+)"', ltext)))}
        except py2coq.Unsupported as e:
            ctx.extra["translator"]["loop"] = {"status": "translator_fallback_loop", "reason": str(e)[:500]}
            ctx.notes.append("translator_fallback_loop: " + str(e)[:300])
    except py2coq.Unsupported as e:
        # fail closed: hand model (committed copy) + correspondence carry the tie
        ctx.extra["translator"] = {"status": "translator_fallback", "reason": str(e)[:500]}
        ctx.notes.append("translator_fallback: " + str(e)[:300])
        req_model += "From Pq Require Import Impl.FilterLeaf.\n"
        extra_q = []

    # -------- inventory (regenerated from the source on every run): state that outlives one call on the filter path. The only memo the
    # model knows is the `converted_min/max` item on the chunk's OWN Statistics object; a module-level cache or a memo written onto the
    # handle / any parameter (keyed by something that need not determine the answer) is a new obligation-breaking offender.
    try:
        inv = py2coq.state_inventory(src, ["filter_row_groups", "filter_out_stats", "filter_out_cats", "filter_val"])
        ctx.extra["state_inventory"] = inv
        ctx.obligation("gen:memo_only_on_chunk (no module-level mutable state, no memo written onto a parameter, on the code reached from "
                       "filter_row_groups / filter_out_stats / filter_out_cats / filter_val)",
                       not inv["module"] and not inv["param_attr_writes"], json.dumps({k: inv[k] for k in ("module", "param_attr_writes")}))
    except SyntaxError as e:
        ctx.obligation("gen:memo_only_on_chunk", False, "api.py does not parse: %s" % e)
    # -------- inventory (regenerated from the source on every run): the three parsers of partition-directory text (labels in
    # api._path_to_cats, cells in core.read_row_group, what a filter constant is compared with in api.filter_out_cats) apply the same
    # decoding to the raw text before typing it; fail closed (nothing claimed) when a parser's text variable is not found
    try:
        dd = py2coq.dirtext_decoders(os.path.join(C.REPO, "fastparquet", "api.py"), os.path.join(C.REPO, "fastparquet", "core.py"))
        ctx.extra["directory_text_decoders"] = dd
        if all(v is not None for v in dd.values()):
            ctx.obligation("gen:directory_text_decoders_agree (labels / cells / filter apply the same decoding to a directory name)",
                           dd["labels"] == dd["cells"] == dd["filter"], json.dumps(dd))
        else:
            ctx.notes.append("directory_text_decoders: not located for %s (oracle stream `oddpart` only)" % [k for k, v in dd.items() if v is None])
    except SyntaxError as e:
        ctx.obligation("gen:directory_text_decoders_agree", False, "source does not parse: %s" % e)
    try:
        mp = py2coq.memo_publication(src, ["filter_row_groups", "filter_out_stats", "filter_out_cats", "filter_val"])
        ctx.extra["memo_publication"] = mp
        ctx.obligation("gen:memo_published_once (every memo slot obj[key] on the filter path is stored once, with its final value: no store of an "
                       "intermediate value another thread using the handle can read)", not mp["offenders"], json.dumps(mp))
    except SyntaxError as e:
        ctx.obligation("gen:memo_published_once", False, "api.py does not parse: %s" % e)
    C.use_shadow()
    warnings.filterwarnings("ignore")
    rng = ctx.rng
    ctx.rule = ("datasets: 1-5 row groups of 1-6 rows, 2-4 columns of {int64,float64+NaN,str+None,Int64+NA,datetime64,bool} with per-chunk modes "
                "{range,const(min=max),all-null,some-null,wide}, simple/hive/drill, partition columns p (str) / q (int), statistics on/off/per column, "
                "NaN-as-value; programs: flat AND lists and OR-of-AND lists up to 3x3 over the nine operators, constants at/next to the bounds of a "
                "chunk, interior, absent, int<->float, empty/1-3 element lists, ~3% wrong-typed; leaf cases: (op, constant(s), vmin, vmax) over "
                "ints/quarter floats/str/None/length-1 arrays. trivial = the read raised for a wrong-typed constant or the program selects "
                "nothing and everything was pruned with an empty must-set; distinct = distinct (dataset, program)")

    # -------- tie 2a: leaf correspondence (model text vs real api.filter_val)
    n_leaf = 1200 if quick else 8000
    cases = gen_leaf_cases(rng, n_leaf)
    exprs = [leaf_model_expr(c) for c in cases]
    res = C.vm_eval(req_model, exprs, "string", os.path.join(ctx.scratch, "leaf"), tag="leaf", shard=600, extra_q=extra_q)
    name = "filter_val (%s) ~ api.filter_val" % ("regenerated text" if gen_ok else "committed hand copy")
    for c, m in zip(cases, res):
        impl = leaf_impl(c)
        mo = C.parse_coq(m) if m is not None else None
        ctx.case({"leaf": c}, trivial=False)
        ctx.count("leaf.op", c["op"])
        ctx.count("leaf.outcome", impl)
        # error kinds: numpy raises its own error types for mixed-type searchsorted/sort; compare the fact of raising
        mo_n = "E" if (mo or "").startswith("E:") else mo
        im_n = "E" if impl.startswith("E:") else impl
        ctx.correspondence(name, c, mo_n, im_n)

    # -------- datasets
    n_ds = 110 if quick else 800
    n_prog = 30 if quick else 120
    jobs = []
    # corpus first
    cdir = os.path.join(C.VERIF, "corpus", "C05")
    if os.path.isdir(cdir):
        for f in sorted(os.listdir(cdir)):
            if f.endswith(".json"):
                d = json.load(open(os.path.join(cdir, f)))
                jobs.append((d["spec"], d["progs"], True))
    ncorpus = len(jobs)
    for _ in range(n_ds):
        spec = FL.gen_dataset(rng)
        ch = chunks_of(spec)
        progs = [FL.gen_program(rng, spec, ch) for _ in range(n_prog)]
        jobs.append((spec, progs, True))
    # categorical data columns with statistics (their bounds were in category order before C04's fix 24c37c3)
    nconf = 18 if quick else 80
    for _ in range(nconf):
        spec = FL.gen_dataset(rng, kinds=["int"], allow_parts=False, cat=True)
        # wave 7: ORDERED categoricals whose category order is not the label order (the generator shuffles the categories), with
        # statistics: the bounds must enclose the LABELS present (what a filter constant is compared with), not the extreme codes
        spec["cols"]["c"]["ordered"] = rng.random() < 0.6
        spec["stats"] = True if rng.random() < 0.7 else ["c", "i"]
        ch = chunks_of(spec)
        progs = [FL.gen_program(rng, spec, ch, cols=["c", "c", "i"], wrong_type=0) for _ in range(12)]
        jobs.append((spec, progs, True))
    # wave-3 dimensions (fixed counts per run): long text values with statistics, partition keys at integer representation
    # boundaries, tz-aware timestamps against constants in other zones, one-sided / foreign statistics
    for flavour, cnt, focus in (("long", 14 if quick else 100, ["ls", "ls", "ls", "i"]), ("bigpart", 14 if quick else 100, ["q", "q", "q", "i"]),
                                ("tz", 14 if quick else 100, ["tz", "tz", "tz", "i", "p"]), ("onesided", 26 if quick else 200, None)):
        for _ in range(cnt):
            spec = FL.gen_dataset_w3(rng, flavour)
            ch = chunks_of(spec)
            cols = [c for c in focus if c in spec["cols"]] if focus else None
            # one-sided bounds matter most for membership lists that straddle the single known bound
            kw = {"ops": FL.OPS + ["in"] * 7 + ["not in"], "in_sizes": [1, 2, 2, 3, 3, 4]} if flavour == "onesided" else {}
            progs = [FL.gen_program(rng, spec, ch, cols=cols, wrong_type=0, **kw) for _ in range(24 if quick else 60)]
            jobs.append((spec, progs, True))
    # wave 4: (a) directory names with escapes; (b) sequences of DIFFERENT programs on one handle, incl. constants that print alike;
    # (c) two datasets of identical shape but shifted values filtered one after the other in one process, both orders
    for _ in range(10 if quick else 60):
        spec = FL.gen_dataset_w3(rng, "oddpart")
        ch = chunks_of(spec)
        pcol = spec["partition_on"][0]
        jobs.append((spec, [FL.gen_program(rng, spec, ch, cols=[pcol, pcol, pcol, "i"], wrong_type=0) for _ in range(20 if quick else 50)], True))
    for ji in range(len(jobs)):
        spec, progs = jobs[ji][0], jobs[ji][1]
        if ji < ncorpus or rng.random() > (0.45 if quick else 0.6):
            continue
        seqs = []
        for _ in range(2):
            seq = []
            tw = FL.gen_twin_programs(rng, spec) if rng.random() < 0.6 else None
            if tw:
                for pr in (tw[0], tw[1], tw[0]):
                    seq.append([rng.choice(["read", "read", "count", "iter", "idx"]), pr])
            for _ in range(rng.choice([2, 3, 4])):
                okp = [p_ for p_ in progs if not _has_wrong_type(spec, p_)]
                seq.append([rng.choice(["read", "read", "count", "iter", "idx"]), rng.choice(okp) if okp and rng.random() < 0.5 else
                            FL.gen_program(rng, spec, chunks_of(spec), wrong_type=0)])
            seqs.append(seq)
        jobs[ji] = (spec, progs, jobs[ji][2], seqs)
    for _ in range(10 if quick else 60):
        a = FL.gen_dataset(rng, kinds=rng.sample(["int", "float", "nint", "ts"], 2), allow_parts=rng.random() < 0.5)
        a["stats"] = True
        b = FL.shifted_spec(a, rng.choice([3, 5, -4, 7]))
        for first, second in ((a, b), (b, a)):
            spec = dict(second, prelude=FL.shifted_spec(first, 0), flavour="twin-after-prelude")
            ch = chunks_of(spec)
            jobs.append((spec, [FL.gen_program(rng, spec, ch, wrong_type=0) for _ in range(10 if quick else 40)], False))
    results = C.pmap(run_dataset, jobs, init=_init, nproc=min(8, os.cpu_count() or 4), job_timeout=300)

    # -------- wave 6: two threads, first filtered read on a cold handle (thread A held inside converted_types.convert)
    tjobs = [gen_thread_job(rng, 5 if quick else 12) for _ in range(6 if quick else 30)]
    tres = C.pmap(run_threads, tjobs, init=_init, nproc=min(6, os.cpu_count() or 4), job_timeout=300)
    for (tspec, tprogs), tr in zip(tjobs, tres):
        if "__crashed__" in tr or tr.get("error"):
            ctx.count("threads.dataset", "crashed" if "__crashed__" in tr else "write error")
            if "__crashed__" in tr:
                ctx.fail({"component": "row-group-pruning", "outcome": "crashed", "scheme": "simple", "flavour": "two-threads-cold-handle"},
                         {"spec": tspec, "progs": tprogs, "threads": True}, "two-thread filtered reads did not complete: " + tr["__crashed__"])
            continue
        for prog, o in zip(tprogs, tr["progs"]):
            ctx.case({"spec": tspec, "prog": prog, "threads": True}, trivial=not o["must"])
            ctx.count("threads.outcome", "bad" if o["bad"] else "ok")
            if o["bad"]:
                cls = classify(tspec, prog, "two-threads-cold-handle")
                ctx.fail(cls, {"spec": tspec, "prog": prog, "threads": True}, o["bad"])
    # -------- oracle + collect model expressions
    mexprs, mmeta = [], []
    for ji, (job, res) in enumerate(zip(jobs, results)):
        spec, progs, want_model = job[:3]
        seqs = job[3] if len(job) > 3 else []
        ctx.count("dataset.scheme", spec["scheme"] + ("+parts" if spec["partition_on"] else ""))
        ctx.count("dataset.flavour", spec.get("flavour", "random"))
        ctx.count("dataset.stats", "all" if spec["stats"] is True else ("none" if spec["stats"] is False else "some"))
        if "__crashed__" in res:
            # the interpreter died or hung while filtering: never an allowed outcome
            ctx.fail({"component": "row-group-pruning", "outcome": "crashed", "scheme": spec["scheme"]},
                     {"spec": spec, "progs": progs}, "filtered reads of this dataset did not complete: " + res["__crashed__"])
            continue
        if res["error"]:
            ctx.count("dataset.write_or_full_read_raised", res["error"][:60])
            ctx.case({"spec": spec, "error": res["error"]}, trivial=True)
            continue
        ctx.count("dataset.row_groups", len(res["sizes"]))
        for seq, so in zip(seqs, res.get("seqs", [])):
            ctx.case({"spec": spec, "seq": seq}, trivial=False)
            ctx.count("sequence.length", len(seq))
            ctx.count("sequence.container constants", any(isinstance(c[2], dict) and "arr" in c[2] for _, pr in seq for g in pr["groups"] for c in g))
            if so["bad"]:
                cls = classify(spec, seq[so["step"]][1], "sequence-on-one-handle")
                cls["step_kind"] = seq[so["step"]][0]
                ctx.fail(cls, {"spec": spec, "seq": seq}, so["bad"])
        for prog, o in zip(progs, res["progs"]):
            case = {"spec": spec, "prog": prog}
            for g in prog["groups"]:
                for n_, op, _ in g:
                    ctx.count("cond.op", op)
                    ctx.count("cond.column", col_kind(spec, n_))
            ctx.count("prog.shape", ("flat" if prog["flat"] else "dnf") + "%dx%d" % (len(prog["groups"]), max(len(g) for g in prog["groups"])))
            if "raised" in o:
                ctx.count("read.raised", o["raised"])
                wrong = _has_wrong_type(spec, prog)
                ctx.case(case, trivial=True)
                if not wrong:
                    ctx.fail(classify(spec, prog, "raised:" + o["raised"]), case, "filtered read raised %s: %s" % (o["raised"], o["raised_msg"]))
            else:
                pruned = len(res["sizes"]) - len(o["idx"])
                ctx.count("read.pruned_groups", min(pruned, 3))
                ctx.count("read.must_nonempty", bool(o["must"]))
                ctx.case(case, trivial=(not o["must"] and not o["got"]))
                if o["lost"]:
                    ctx.fail(classify(spec, prog, "lost-rows"), case,
                             "rows %s satisfy the program on the full read but are missing from the filtered read %s (row groups %s kept of sizes %s)"
                             % (o["lost"], o["got"], o["idx"], res["sizes"]))
                elif not o["whole_groups"]:
                    ctx.fail(classify(spec, prog, "not-whole-groups"), case,
                             "filtered read %s is not the in-order concatenation of whole row groups (sizes %s)" % (o["got"], res["sizes"]))
                elif o["idx_shared"] != o["idx"]:
                    ctx.fail(classify(spec, prog, "handle-reuse-differs"), case,
                             "a handle already used for other programs keeps row groups %s, a fresh handle %s (memoised converted bounds)" % (o["idx_shared"], o["idx"]))
                elif o["count"] != len(o["got"]) or o["iter"] != o["got"]:
                    ctx.fail(classify(spec, prog, "count-or-iter-differs"), case,
                             "count(filters)=%s, iter_row_groups -> %s, to_pandas -> %s" % (o["count"], o["iter"], o["got"]))
            if "model" in o:
                mexprs.append(o["model"])
                mmeta.append((case, ("Err", o["raised"]) if "raised" in o else ("Ok", o["idx"])))
            elif "model_skip" in o:
                ctx.count("model.skipped", o["model_skip"][:40])

    # -------- tie 2b: row-group level correspondence (Impl/Filter.v over the regenerated leaf vs api.filter_row_groups)
    lim = 1500 if quick else 12000
    if len(mexprs) > lim:
        keep = sorted(rng.sample(range(len(mexprs)), lim))
        mexprs = [mexprs[i] for i in keep]
        mmeta = [mmeta[i] for i in keep]
    res = C.vm_eval(req_model, mexprs, "res (list Z)", os.path.join(ctx.scratch, "rg"), tag="rg", shard=250, extra_q=extra_q)
    for (case, impl), m in zip(mmeta, res):
        mo = C.parse_coq(m) if m is not None else None
        if isinstance(mo, tuple) and mo[0] == "Ok":
            mo_n = ["Ok", list(mo[1])]
        elif isinstance(mo, tuple) and mo[0] == "Err":
            mo_n = ["Err"]
        else:
            mo_n = ["?", repr(mo)[:100]]
        im_n = ["Ok", impl[1]] if impl[0] == "Ok" else ["Err"]
        ctx.correspondence("filter_row_groups model ~ api.filter_row_groups (kept row-group indices)", case, mo_n, im_n)
    ctx.extra["corpus_cases"] = ncorpus


def _has_wrong_type(spec, prog):
    for g in prog["groups"]:
        for n, op, c in g:
            k = spec["cols"][n]["kind"]
            cs = c if isinstance(c, list) else [c]
            for x in cs:
                if FL.text_kind(k) and not isinstance(x, (str, dict)):
                    return True
                if not FL.text_kind(k) and isinstance(x, str):
                    return True
    return False


def replay(rep):
    """re-run the recorded (dataset, program) on the real code"""
    if rep.get("kind") == "no-failing-input-found" or "case" not in rep or "spec" not in rep["case"]:
        print(json.dumps(rep, indent=1)[:6000])
        return 1
    _init()
    if rep["case"].get("threads"):
        progs = [rep["case"]["prog"]] if "prog" in rep["case"] else rep["case"]["progs"]
        tr = run_threads((rep["case"]["spec"], progs))
        bad = [o["bad"] for o in tr.get("progs", []) if o["bad"]]
        print("filters:", [FL.prog_to_filters(p_) for p_ in progs])
        print("PROPERTY FAILS: " + bad[0] if bad else "property holds on this case (%s)" % (tr.get("error") or "both threads returned every qualifying row"))
        return 1 if bad else 0
    if "seq" in rep["case"]:
        res = run_dataset((rep["case"]["spec"], [], False, [rep["case"]["seq"]]))
        if res["error"]:
            print("dataset could not be written/read:", res["error"])
            return 1
        print("row-group sizes:", res["sizes"])
        for k, (kind, prog) in enumerate(rep["case"]["seq"]):
            print("  step %d: %s filters=%s" % (k + 1, kind, str(FL.prog_to_filters(prog))[:300]))
        so = res["seqs"][0]
        print("PROPERTY FAILS: " + so["bad"] if so["bad"] else "property holds on this case")
        return 1 if so["bad"] else 0
    spec, prog = rep["case"]["spec"], rep["case"]["prog"]
    res = run_dataset((spec, [prog], False))
    if res["error"]:
        print("dataset could not be written/read:", res["error"])
        return 1
    o = res["progs"][0]
    print("row-group sizes:", res["sizes"])
    print("filters:", FL.prog_to_filters(prog))
    if "raised" in o:
        print("filtered read raised", o["raised"], o["raised_msg"])
        return 1
    print("rows (rid) that satisfy the program on the full read:", o["must"])
    print("filtered read returned rids:", o["got"], " kept row groups:", o["idx"])
    badc = o["count"] != len(o["got"]) or o["iter"] != o["got"] or o["idx_shared"] != o["idx"]
    if o["lost"] or not o["whole_groups"] or badc:
        print("PROPERTY FAILS: lost rows %s; whole groups in order: %s; count %s / iter %s" % (o["lost"], o["whole_groups"], o["count"], o["iter"]))
        return 1
    print("property holds on this case")
    return 0
