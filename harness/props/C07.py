"""C07 — append adds rows at the end and leaves existing data untouched (DESIGN.md section 6, C07).

Ties:
  * single file: the write calls of the REAL append are recorded through a wrapper passed as open_with; the extracted model
    (`append_seq` = footer_loc + seq_write of Dataset/Append.v) applied to the bytes before and the recorded chunks must give
    exactly the bytes the real append left (so: footer found where the model says, in-place overwrite semantics, nothing else
    touched, no stale tail);
  * multi file: validated relation of C19 - the extracted, proved sound+complete `check_safe_trace refs trace` is evaluated on the
    call trace recorded from the real append (wrappers passed as open_with / mkdirs + audit hook).
Oracle (the property's own text) after EVERY step of every history: rows = rows of the original write followed by the rows of each
append in order, every value intact; bytes below the old footer start unchanged and every old column chunk inside them (single
file); every pre-existing data file present and byte-identical, none opened for writing / renamed / removed (multi file).
"""
import json
import os
import shutil
import tempfile
import traceback

from harness import common as C
from harness import dsfs
from harness import frames as F

TRUSTED = [
    "Coq 8.16.1 kernel + coqc; no native_compute",
    "extraction: ExtrOcamlBasic only, no Extract Constant; ocaml/driver.ml s-expression I/O",
    "OS file semantics as modelled by os_write/seq_write (Impl/KV.v, Dataset/Append.v: a write at the cursor overwrites in place, extends the "
    "file past its end, advances the cursor; 'rb+' does not truncate) and by Dataset/FS.v for the multi-file traces",
    "section hypotheses of C07_rows_simple: the footer serialisation round-trips (parse_footer (enc_footer l) = Some l: C10), stays below 2^32 "
    "bytes, and does not get shorter when row groups are added (checked on every step: the footer length is non-decreasing); "
    "dec_rg (page decoding, C01/C03) is an arbitrary function of the row group's bytes",
    "the recording: wrappers passed as open_with/mkdirs + interpreter audit events below the dataset root",
    "expected rows of a batch = what fastparquet reads back from that batch written alone with the same options (so write/read round-trip "
    "defects, C01/C08, cancel out and only the effect of appending is judged)",
    "Python glue: history generator, frame construction (harness/frames.py), cell canonicalisation, byte comparisons",
]

NPROC = 12
READ_TIMEOUT = 60.0
KINDS = ["bool", "float32", "float64", "int8", "int32", "int64", "uint16", "uint64", "Int16", "Int64", "UInt32", "boolean",
         "str", "string", "bytes", "json", "dt_ms", "dt_us", "dt_ns", "dttz_us", "dttz_ns", "td_us", "td_ns",
         "cat_str", "cat_int",
         # object columns of python ints / bools (None = missing) stored as INT64 / BOOLEAN through object_encoding: the dtype they are
         # read back with is derived from the null statistics of EVERY row group (api._dtypes), so a later batch changes it
         "obj_int", "obj_bool"]
OBJENC_KINDS = {"obj_int": "int", "obj_bool": "bool"}
CAT_KINDS = ["cat_str", "cat_int"]
OBJ_KINDS = ["str", "string", "bytes", "json"]
SIZES = [0, 1, 2, 5, 20, 64, 200]
CODECS = [None, None, "SNAPPY", "GZIP", "ZSTD", "LZ4"]


# ---------------------------------------------------------------------------------------------
# histories (pure data, so that a replay does not depend on generator code)
# ---------------------------------------------------------------------------------------------
def gen_labels(rng, kind, k):
    if kind == "cat_str":
        pool = ["lab%02d" % i for i in range(40)]
    else:
        pool = list(range(-20, 20))
    return rng.sample(pool, k)


def gen_history(rng, hid, confirm=False):
    scheme = rng.choice(["simple", "simple", "simple", "hive", "hive", "hive_part", "hive_part", "drill"])
    ncols = rng.choice([1, 2, 3, 4])
    kinds = [rng.choice(KINDS) for _ in range(ncols)]
    if confirm and not any(k in CAT_KINDS for k in kinds):
        kinds[0] = rng.choice(CAT_KINDS)
    if not confirm and rng.random() < 0.6:
        kinds = [k if k not in CAT_KINDS else rng.choice(["int64", "str"]) for k in kinds]
    if not confirm and rng.random() < 0.3:          # several numeric columns of different types next to each other (a column landing on another's slot shows)
        kinds = (rng.sample(["int64", "float64", "int32", "bool", "float32", "uint16"], rng.choice([2, 3])) + kinds)[:max(ncols, 2)]
    cols = [{"name": "c%d_%s" % (i, k), "kind": k} for i, k in enumerate(kinds)]
    for c in cols:
        if c["kind"].startswith("dttz"):
            c["tz"] = rng.choice(F.TZS)
    h = {"id": hid, "scheme": scheme, "cols": cols, "partition_on": [], "index": None, "batches": [], "confirm": confirm}
    if scheme == "hive_part":
        h["partition_on"] = rng.choice([["pk"], ["ps"], ["pk", "ps"], ["ps", "pk"]])
    if rng.random() < 0.2:
        h["index"] = {"name": "idx", "kind": rng.choice(["int64", "str", "dt_ns"])}
    nb = 1 + rng.choice([1, 1, 2, 3, 4])
    base_labels = {c["name"]: gen_labels(rng, c["kind"], rng.choice([1, 2, 5])) for c in cols if c["kind"] in CAT_KINDS}
    for b in range(nb):
        n = rng.choice(SIZES)
        if b == 0:
            n = max(n, 2)
        if h["partition_on"] and b == 0:
            n = max(n, 5)
        bc = {}
        for c in cols:
            pat = rng.choice(F.NULL_PATTERNS)
            if b == 0 and c["kind"] in OBJ_KINDS and pat in ("all", "some"):
                pat = "first"           # the first write infers the object encoding from non-null values
            e = {"seed": rng.randrange(1 << 30), "nulls": pat}
            if c["kind"] in CAT_KINDS:
                lab = list(base_labels[c["name"]])
                if confirm and b > 0:
                    how = rng.choice(["superset", "reordered", "disjoint", "superset"])
                    if how == "superset":
                        lab = lab + [x for x in gen_labels(rng, c["kind"], 3) if x not in lab]
                    elif how == "reordered" and len(lab) > 1:
                        lab = lab[1:] + lab[:1]
                    else:
                        lab = [x for x in gen_labels(rng, c["kind"], 6) if x not in lab][:3] or lab
                e["labels"] = lab
            bc[c["name"]] = e
        r = rng.random()
        if r < 0.4 or n == 0:
            rgo = None
        elif r < 0.7:
            rgo = rng.choice([1, 2, 7, max(1, n // 2), n, n + 5])
        else:
            k = rng.randint(1, min(3, n))
            rgo = ([0] + sorted(rng.sample(range(1, n), k - 1))) if n > 1 else [0]
        h["batches"].append({"n": n, "cols": bc, "row_group_offsets": rgo, "compression": rng.choice(CODECS),
                             "pseed": rng.randrange(1 << 30), "iseed": rng.randrange(1 << 30),
                             # an appended frame may list the same columns in another order (schema-compatible; accepted by the library)
                             "permute": (b > 0 and rng.random() < 0.5),
                             # the other documented entry point of an append: ParquetFile.write_row_groups
                             "via": ("write_row_groups" if (b > 0 and not h["index"] and rng.random() < 0.3) else "write")})
    if not confirm and rng.random() < 0.35:
        # the dataset is created under another has_nulls mode: columns are REQUIRED (no definition levels); floats and times keep NaN / NaT
        # as sentinel VALUES there, and the FIRST missing value of such a column arrives in a LATER append - every row, old and new, must
        # read back (columns that cannot hold a sentinel get no missing values: refusing those is C18's subject)
        mode = rng.choice([False, "infer", "list", "list"])
        names = [c["name"] for c in cols]
        h["has_nulls"] = mode if mode != "list" else rng.sample(names, rng.randrange(0, len(names)))
        for c in cols:
            required = (mode is False) or (mode == "infer" and c["kind"] not in ("str", "bytes", "json", "obj_int", "obj_bool")) or \
                       (mode == "list" and c["name"] not in h["has_nulls"])
            if not required:
                continue
            sentinel = c["kind"] in SENTINEL_KINDS
            for bi, b in enumerate(h["batches"]):
                e = b["cols"][c["name"]]
                e["nulls"] = "none" if (not sentinel or bi == 0) else rng.choice(["some", "first", "last", "all", "some", "none"])
    dtcols = [c for c in cols if c["kind"] in ("dt_ms", "dt_us", "dt_ns", "dttz_us", "dttz_ns")]
    if dtcols and not confirm and rng.random() < 0.5:
        # the same column in ANOTHER datetime unit in one appended batch: the library may refuse it (another dtype), but if it ACCEPTS
        # the append the rows must read back intact (whole microseconds are generated for ns data half of the time)
        b = rng.choice(h["batches"][1:])
        b["dt_unit"] = {c["name"]: rng.choice([u for u in ("ms", "us", "ns") if u != c["kind"].split("_")[1]]) for c in dtcols}
        b["dt_whole_us"] = rng.random() < 0.5
        b["dt_limits"] = rng.choice([None, "inside", "inside", "beyond"])
    if not h["index"] and not confirm and rng.random() < 0.3:
        # from this step on EVERY append of the history goes through ONE long-lived ParquetFile handle (pf.write_row_groups), which is
        # also read after each of them: state the handle keeps about the dataset has to follow what it wrote itself
        h["handle_from"] = rng.randrange(1, nb)
        for b in h["batches"][h["handle_from"]:]:
            # a FAILED operation through the handle first (its data source raises after `after` row groups / its k-th file call
            # fails), then the append proper: nothing of the failed one may show up, now or after later appends
            r = rng.random()
            if r < 0.25:
                b["failed_first"] = {"mode": "source", "after": rng.choice([0, 1, 1, 2])}
            elif r < 0.4 and (b["n"] > 0 or scheme == "simple"):
                # (with rows to write the first three file calls of a multi-file append belong to its first part file; an append of
                # no rows goes straight to the summary files, whose rewrite is outside the property)
                b["failed_first"] = {"mode": "io", "k": rng.choice([1, 2, 3])}
    if scheme == "simple" and h.get("handle_from") is not None and rng.random() < 0.6:
        # while the long-lived handle stays alive, ANOTHER code path rewrites the footer of the file (update_file_custom_metadata on the
        # PATH removes a key the first write stored: the footer gets shorter and moves); the handle's next append must still leave every
        # existing row group's bytes alone
        h["kv_rewrite_step"] = rng.randrange(h["handle_from"], nb)
    if scheme != "simple" and not confirm and h.get("handle_from") is None and rng.random() < 0.2:
        # the append target has NO summary file (datasets of other tools, e.g. dask's default; summary files lost while copying): before
        # one of the appends _metadata (and / or _common_metadata) is deleted; such a directory is a legal dataset (opened by listing)
        h["drop_summary"] = {"step": rng.randrange(1, nb), "what": rng.choice(["_metadata", "both", "both", "_common_metadata"])}
        for b in h["batches"]:
            b["row_group_offsets"] = None if b["row_group_offsets"] is None or isinstance(b["row_group_offsets"], int) else b["row_group_offsets"][:2]
    if scheme == "simple" and not confirm and rng.random() < FAULT_SHARE:
        # I/O fault injection at EVERY call (open, read of the old footer, every write incl. the new footer, close) of one append
        h["fault_step"] = rng.randrange(1, nb)
    return h


SENTINEL_KINDS = ("float32", "float64", "dt_ms", "dt_us", "dt_ns", "dttz_us", "dttz_ns", "td_us", "td_ns")
FAULT_SHARE = 0.12
FAULT_CAP = 60
FAULT_VARIANTS = {"open": ["pre", "post"], "write": ["pre", "short", "post"], "close": ["post"], "mkdir": ["pre"], "ropen": ["pre"], "read": ["pre", "post"]}


def build_batch(h, i):
    import random
    import numpy as np
    import pandas as pd
    b = h["batches"][i]
    n = b["n"]
    data = {}
    for c in h["cols"]:
        e = b["cols"][c["name"]]
        if c["kind"] in OBJENC_KINDS:
            rng = random.Random(e["seed"])
            m = F.null_mask(e["nulls"], n, rng)
            if c["kind"] == "obj_int":
                vals = [None if m[k] else rng.choice([0, 1, -1, 2 ** 62, -2 ** 63, rng.randint(-10 ** 6, 10 ** 6)]) for k in range(n)]
            else:
                vals = [None if m[k] else (rng.random() < 0.5) for k in range(n)]
            data[c["name"]] = pd.Series(vals, dtype=object, name=c["name"])
        elif c["kind"] in CAT_KINDS:
            rng = random.Random(e["seed"])
            lab = e["labels"]
            m = F.null_mask(e["nulls"], n, rng)
            codes = np.array([rng.randrange(len(lab)) for _ in range(n)], dtype="int64")
            codes[m] = -1
            data[c["name"]] = pd.Series(pd.Categorical.from_codes(codes, categories=lab), name=c["name"])
        else:
            cs = dict(c, seed=e["seed"], nulls=e["nulls"])
            if c["name"] in (b.get("dt_unit") or {}):
                cs["kind"] = c["kind"].split("_")[0] + "_" + b["dt_unit"][c["name"]]
            col = F.col_values(cs, n)
            if c["name"] in (b.get("dt_unit") or {}) and b.get("dt_whole_us") and cs["kind"].endswith("_ns"):
                col = col.dt.floor("us")
            if c["name"] in (b.get("dt_unit") or {}) and b.get("dt_limits") and cs["kind"].startswith("dt_") and n >= 2:
                # the limits of the nanosecond range in this unit and (coarser units) dates beyond it: accepted => intact, else refused
                u = cs["kind"].split("_")[1]
                arr = col.values.copy()
                lim = ["2262-04-11T23:47:16", "1677-09-21T00:12:44"] if b["dt_limits"] == "inside" else ["9999-12-31T00:00:00", "1000-01-01T00:00:00"]
                if u == "ns" and b["dt_limits"] != "inside":
                    lim = ["2262-04-11T23:47:16", "1677-09-21T00:12:44"]
                arr[0], arr[n - 1] = np.datetime64(lim[0], u), np.datetime64(lim[1], u)
                col = pd.Series(arr, name=c["name"])
            data[c["name"]] = col
    prng = random.Random(b["pseed"])
    if "pk" in h["partition_on"]:
        data["pk"] = pd.Series(np.array([prng.choice([0, 1, 2]) for _ in range(n)], dtype="int64"))
    if "ps" in h["partition_on"]:
        data["ps"] = pd.Series([prng.choice(["a", "b"]) for _ in range(n)], dtype=object)
    df = pd.DataFrame(data)
    if b.get("permute") and len(df.columns) > 1:
        order = list(df.columns)
        while order == list(df.columns):
            prng.shuffle(order)
        df = df[order]
    if h["index"]:
        ix = F.col_values({"name": h["index"]["name"], "kind": h["index"]["kind"], "nulls": "none", "seed": b["iseed"]}, n)
        df.index = pd.Index(ix, name=h["index"]["name"])
    return df


def write_kw(h, i):
    b = h["batches"][i]
    kw = {"file_scheme": "simple" if h["scheme"] == "simple" else ("drill" if h["scheme"] == "drill" else "hive"),
          "compression": b["compression"]}
    if h["partition_on"]:
        kw["partition_on"] = list(h["partition_on"])
    if b["row_group_offsets"] is not None:
        kw["row_group_offsets"] = b["row_group_offsets"]
    if h["index"]:
        kw["write_index"] = True
    if "has_nulls" in h:
        kw["has_nulls"] = h["has_nulls"]
    if h.get("kv_rewrite_step") is not None and i == 0:
        kw["custom_metadata"] = {"verif_pad": "x" * 300, "verif_keep": "1"}
    oe = {c["name"]: OBJENC_KINDS[c["kind"]] for c in h["cols"] if c["kind"] in OBJENC_KINDS}
    if oe:
        kw["object_encoding"] = dict({c["name"]: "infer" for c in h["cols"]}, **oe)
        for c in h["partition_on"]:
            kw["object_encoding"][c] = "infer"
        if h["index"]:
            kw["object_encoding"][h["index"]["name"]] = "infer"
    return kw


def col_cells(s):
    import pandas as pd
    if isinstance(s.dtype, pd.CategoricalDtype):
        cats = list(s.cat.categories)
        # (a frame read back can hold codes beyond its label list: report those cells instead of failing in the harness)
        return [None if c < 0 else (cats[c] if c < len(cats) else "<code %d beyond the %d labels>" % (c, len(cats))) for c in s.cat.codes]
    return F.cells(s)


def dtype_name(s):
    import pandas as pd
    return "category" if isinstance(s.dtype, pd.CategoricalDtype) else str(s.dtype)


def frame_dtypes(df):
    return {str(c): dtype_name(df[c]) for c in df.columns}


def frame_cells(df, with_index):
    out = [[str(c), col_cells(df[c])] for c in df.columns]
    if with_index:
        import pandas as pd
        out.append(["<index>", F.cells(pd.Series(df.index))])
    return out


def _jsonable(x):
    if isinstance(x, bytes):
        return "b:" + x.hex()
    if isinstance(x, tuple):
        return list(x)
    if isinstance(x, (dict, list)):
        return json.loads(json.dumps(x, default=str))
    return x if isinstance(x, (int, str, bool, float, type(None))) else repr(x)


def cat_observation(pf, whole, names):
    """for every categorical column: per row group (dictionary or None, codes) as read from that row group ALONE,
    and labels+codes of the whole-dataset read -> input/output of the model Dataset/CatRead.v"""
    import pandas as pd
    out = {}
    if len(pf.row_groups) > 12:
        return out
    for name in names:
        chunks = []
        for i, rg in enumerate(pf.row_groups):
            col = [c for c in rg.columns if ".".join(c.meta_data.path_in_schema) == name]
            has_dict = bool(col) and col[0].meta_data.dictionary_page_offset is not None
            one = pf[i].to_pandas(columns=[name])[name]
            if not isinstance(one.dtype, pd.CategoricalDtype):
                chunks = None
                break
            chunks.append([[_jsonable(x) for x in one.cat.categories] if has_dict else None, [int(c) for c in one.cat.codes]])
        w = whole[name]
        if chunks is None or not isinstance(w.dtype, pd.CategoricalDtype):
            continue
        out[name] = {"chunks": chunks, "labels": [_jsonable(x) for x in w.cat.categories], "codes": [int(c) for c in w.cat.codes]}
    return out


def cat_model_io(obs):
    """-> (pqref arguments, real cells in the model's output form) with labels numbered"""
    ids = {}

    def lid(x):
        k = json.dumps(x, sort_keys=True)
        return ids.setdefault(k, len(ids))
    chunks = [[[] if d is None else [[lid(x) for x in d]], codes] for d, codes in obs["chunks"]]
    labs = [lid(x) for x in obs["labels"]]
    real = [[] if c < 0 else ([labs[c]] if c < len(labs) else [b"bad", c]) for c in obs["codes"]]
    return chunks, real


def old_chunk_ranges(pf):
    out = []
    for rg in pf.row_groups:
        for col in rg.columns:
            md = col.meta_data
            start = md.data_page_offset
            if md.dictionary_page_offset is not None and md.dictionary_page_offset > 0:
                start = min(start, md.dictionary_page_offset)
            out.append((start, start + md.total_compressed_size))
    return out


def failed_operation(handle, ff, df, akw, root, target, expected, with_index):
    """an operation through the long-lived handle that FAILS (data source raising after some row groups / k-th file call failing);
    afterwards a fresh open must read the previous content"""
    from fastparquet import ParquetFile
    out = {"mode": ff["mode"], "raised": None}
    rec = dsfs.Recorder(root, fail_at=ff.get("k"), variant="pre")

    def source():
        n = len(df)
        cut = max(1, n // 2)
        for j, part in enumerate([df.iloc[:cut], df.iloc[cut:], df]):
            if j >= ff["after"]:
                raise OSError("the data source of this append failed after %d row groups" % j)
            yield part
    with rec:
        try:
            if ff["mode"] == "source":
                handle.write_row_groups(source(), compression=akw["compression"], open_with=rec.open_with, mkdirs=rec.mkdirs)
            else:
                handle.write_row_groups(df, row_group_offsets=akw.get("row_group_offsets"), compression=akw["compression"],
                                        open_with=rec.open_with, mkdirs=rec.mkdirs)
        except BaseException as e:      # noqa
            out["raised"] = "%s: %s" % (type(e).__name__, str(e)[:100])
    if out["raised"] is None:
        out["problem"] = ["failing-operation-returned-normally", "an append whose %s fails returned normally" % (
            "data source" if ff["mode"] == "source" else "file call number %s" % ff.get("k"))]
        return out
    def fresh_state():
        fr = ParquetFile(target)
        return [[rg.columns[0].file_path for rg in fr.fmd.row_groups], int(fr.fmd.num_rows), len(fr.row_groups), int(fr.count())]
    s2_, fst = dsfs.guarded(fresh_state, READ_TIMEOUT)
    try:
        mine = [[rg.columns[0].file_path for rg in handle.fmd.row_groups], int(handle.fmd.num_rows), len(handle.row_groups), int(handle.count())]
    except BaseException as e:      # noqa
        mine = "%s: %s" % (type(e).__name__, str(e)[:100])
    if s2_ == "ok" and mine != fst:
        # DsHandle.v: after a failed operation the handle's state is the state before it = a fresh open's
        out["problem"] = ["handle-metadata-differs-after-failed-operation",
                          "after the failed operation (%s) the handle has [row-group paths, fmd.num_rows, len(row_groups), count()] = %s, a fresh open %s" % (
                              out["raised"], str(mine)[:200], str(fst)[:200])]
        return out
    s_, val = dsfs.guarded(lambda: frame_cells(ParquetFile(target).to_pandas(), with_index), READ_TIMEOUT)
    if s_ != "ok" or val != expected:
        out["problem"] = ["failed-append-through-handle-changed-content",
                          "after an append through the handle failed (%s) a fresh open %s" % (out["raised"], "reads other content" if s_ == "ok" else "fails: %s" % (val,))]
    return out


# ---------------------------------------------------------------------------------------------
# I/O faults at every call of a single-file append
# ---------------------------------------------------------------------------------------------
def fault_runs(h, i, base, before, loc, df, akw, rec0, expected_before):
    """The append of step i again, on a copy of the file as it was before, once for every call the fault-free append issued
    (write side: open, write, close; read side: reads of the old footer) x variant, that call failing.  Judged: the append reports the
    failure; the bytes below the old footer start (all existing row groups) are unchanged; a fresh open reads the previous content."""
    from fastparquet import write, ParquetFile
    ft = os.path.join(base, "fault", "ds.parquet")
    os.makedirs(os.path.dirname(ft), exist_ok=True)
    plan = [("w", k + 1, v) for k, kind in enumerate(rec0.kinds) for v in FAULT_VARIANTS[kind]] + \
           [("r", k + 1, v) for k, kind in enumerate(rec0.rkinds) for v in FAULT_VARIANTS[kind]]
    out = {"runs": 0, "problems": [], "kinds": {}, "outcomes": {}, "calls": [len(rec0.kinds), len(rec0.rkinds)]}
    if len(plan) > FAULT_CAP:
        # a long append (many row groups): the first calls, the LAST ones (new footer: thrift bytes, length, magic; close), every read-side
        # call, and an evenly spaced selection of the rest
        nw = len(rec0.kinds)
        keep = set(range(1, 7)) | set(range(max(1, nw - 7), nw + 1))
        rest = [k for k in range(1, nw + 1) if k not in keep]
        step = max(1, len(rest) // 12)
        keep |= set(rest[(h["id"] + i) % step::step])
        plan = [p_ for p_ in plan if p_[0] == "r" or p_[1] in keep]
    via = h["batches"][i].get("via")
    for side, k, v in plan:
        with open(ft, "wb") as f:
            f.write(before)
        rec = dsfs.Recorder(os.path.dirname(ft), fail_at=k if side == "w" else None, fail_read_at=k if side == "r" else None, variant=v)
        raised = None
        with rec:
            try:
                if via == "write_row_groups" or h.get("handle_from") is not None:
                    ParquetFile(ft, open_with=rec.open_with).write_row_groups(
                        df, row_group_offsets=akw.get("row_group_offsets"), compression=akw["compression"], open_with=rec.open_with, mkdirs=rec.mkdirs)
                else:
                    write(ft, df, append=True, open_with=rec.open_with, mkdirs=rec.mkdirs, **akw)
            except BaseException as e:      # noqa
                raised = "%s: %s" % (type(e).__name__, str(e)[:120])
        out["runs"] += 1
        kind = rec.fired[1] if rec.fired else "not-reached"
        out["kinds"]["%s/%s" % (kind, v)] = out["kinds"].get("%s/%s" % (kind, v), 0) + 1
        after = open(ft, "rb").read()
        what = "call %d (%s %s, variant %s) of the append failing" % (k, "read-side" if side == "r" else "write-side", kind, v)
        tag = {"fault": [side, k, v, kind]}
        if rec.fired is None:
            continue            # (the read-side numbering differs between entry points; a call that is not reached fails nothing)
        s_, val = dsfs.guarded(lambda: frame_cells(ParquetFile(ft).to_pandas(), bool(h["index"])), READ_TIMEOUT)
        content = "unreadable" if s_ != "ok" else ("old" if val == expected_before else "other")
        oc = "%s/%s" % ("raised" if raised else "returned", content)
        out["outcomes"][oc] = out["outcomes"].get(oc, 0) + 1
        if raised is None:
            # the failure was swallowed: then the append has to be complete (judged by the main oracle on the fault-free run); only a
            # damaged file is reported here
            if content == "unreadable":
                out["problems"].append(("fault-swallowed-file-unreadable", "%s: the append returned normally and the file cannot be read (%s)" % (what, val), tag))
            continue
        if after[:loc] != before[:loc]:
            out["problems"].append(("failed-append-changed-old-row-groups", "%s: bytes below the old footer start %d changed" % (what, loc), tag))
        if kind == "close":
            continue            # everything was written when close failed: old or new content, both complete
        if content == "unreadable":
            out["problems"].append(("failed-append-file-unreadable", "%s (raised %s): the file can no longer be read (%s)" % (what, raised, val), tag))
        elif content != "old":
            out["problems"].append(("failed-append-content-changed", "%s (raised %s): a fresh open no longer reads the previous content" % (what, raised), tag))
    out["problems"] = [(a, b) for a, b, _ in out["problems"]]
    return out


# ---------------------------------------------------------------------------------------------
# foreign files (another writer's) as append targets
# ---------------------------------------------------------------------------------------------
# (physical type, converted type, logical, tag) of harness/fmtgen.py that a pandas frame of the matching dtype is accepted for
FOREIGN_TYPES = [(0, None, None, "bool"), (1, None, None, "int32"), (2, None, None, "int64"), (4, None, None, "float"),
                 (5, None, None, "double"), (6, 0, None, "utf8")]
FOREIGN_DTYPE = {"bool": "bool", "int32": "int32", "int64": "int64", "float": "float32", "double": "float64", "utf8": "object"}


def gen_foreign(rng, hid, shape=None):
    """a file laid out by the spec-level encoder (every page layout of C03's quantifier: dictionary pages with RLE / bit-packed / mixed
    index runs of any width, definition levels in any run shape with or without statistics, v1/v2 pages, several pages per chunk,
    codecs) + 1..3 appends of frames with the same columns"""
    from harness import fmtgen
    knobs = {"created_by": rng.choice(["parquet-mr version 1.12.3 (build abc)", "spec-encoder", "parquet-cpp-arrow version 14.0.1"]),
             "ncols": rng.choice([1, 2, 3]), "nrgs": rng.choice([1, 1, 2])}
    lf = None
    if shape == "big-dictionary":
        # more than 128 dictionary entries, index pages made of several RLE and bit-packed runs
        knobs.update(ncols=1, nrgs=1, rows=200, encs=["dict"], optional=False, coltype=FOREIGN_TYPES[2], split="one", codec=0)
    elif shape == "levels-without-nulls":
        # OPTIONAL column, no NULL in it, statistics say null_count = 0, definition levels present in several runs
        knobs.update(ncols=1, nrgs=1, rows=65, encs=["plain"], optional=True, coltype=FOREIGN_TYPES[4], split="one", codec=0)
    for _ in range(200):
        k = dict(knobs)
        if "coltype" not in k:
            # one type for the whole file keeps gen_lfile's interface; columns of one file share the type, files differ
            k["coltype"] = rng.choice(FOREIGN_TYPES)
        if "encs" not in k:
            k["encs"] = rng.choice([["plain"], ["dict"], ["plain", "dict"], ["dict", "dict", "plain"], ["rlebool", "plain"]])
        lf, table = fmtgen.gen_lfile(rng, k)
        if shape == "big-dictionary":
            vals = list(range(1000, 1200))
            rng.shuffle(vals)
            ix = list(range(200))
            lf["rgs"][0][0]["items"] = [{"dict": 0, "vals": vals},
                                        {"v2": False, "n": 200, "def": [], "iscomp": None, "trail": "",
                                         "store": ["dictidx", 2, 8, [["b", ix[:64]], ["r", 1, 64]] + [["b", ix[65:65 + 128]], ["r", 1, 193]] + [["b", ix[194:200]]]]}]
            lf["rgs"][0][0]["stats"] = False
        if shape == "levels-without-nulls":
            c = lf["rgs"][0][0]
            vals = [v for it in c["items"] if "store" in it for v in it["store"][1]]
            if len(vals) != 65:
                continue
            c["items"] = [{"v2": False, "n": 65, "def": [["b", [1] * 8], ["r", 49, 1], ["b", [1] * 8]], "iscomp": None, "trail": "", "store": ["plain", vals]}]
            c["stats"] = True
        break
    cols = [{"name": l["name"], "kind": "foreign_" + l["tag"], "optional": bool(l["optional"])} for l in lf["leaves"]]
    h = {"id": hid, "scheme": "simple", "cols": cols, "partition_on": [], "index": None, "confirm": False, "foreign": {"lfile": lf, "shape": shape},
         "batches": [{"n": 0, "via": "foreign-writer"}]}
    for b in range(rng.choice([1, 1, 2, 3])):
        n = rng.choice([1, 2, 5, 20, 64])
        h["batches"].append({"n": n, "seed": rng.randrange(1 << 30), "row_group_offsets": rng.choice([None, None, 2, [0]]),
                             "compression": rng.choice(CODECS), "permute": False,
                             "via": rng.choice(["write", "write", "write_row_groups"])})
    if rng.random() < 0.3:
        h["handle_from"] = 1
    return h


def foreign_bytes(h):
    from harness import fmtlib
    pq = C.Pqref()
    try:
        return bytes(fmtlib.encode_file(pq, h["foreign"]["lfile"])[0])
    finally:
        pq.close()


def build_foreign_batch(h, i):
    import random
    import numpy as np
    import pandas as pd
    b = h["batches"][i]
    rng = random.Random(b["seed"])
    n = b["n"]
    data = {}
    for c in h["cols"]:
        tag = c["kind"][len("foreign_"):]
        if tag == "bool":
            v = np.array([rng.random() < 0.5 for _ in range(n)], dtype=bool)
        elif tag in ("int32", "int64"):
            v = np.array([rng.randint(-1000, 1000) for _ in range(n)], dtype=tag)
        elif tag in ("float", "double"):
            v = np.array([rng.choice([0.5, -1.25, 3.0, 1e10]) for _ in range(n)], dtype=FOREIGN_DTYPE[tag])
            if c["optional"] and n and rng.random() < 0.5:
                v[rng.randrange(n)] = np.nan
        else:
            v = pd.Series([rng.choice(["", "a", "bb", "é", "s%d" % rng.randrange(50)]) for _ in range(n)], dtype=object)
            if c["optional"] and n and rng.random() < 0.5:
                v[rng.randrange(n)] = None
        data[c["name"]] = v
    return pd.DataFrame(data)


# ---------------------------------------------------------------------------------------------
def run_history(arg):
    """Worker: everything that touches the real code for one history.  Returns plain data."""
    h, scratch = arg
    import time
    t0 = time.time()
    out = {"id": h["id"], "steps": [], "error": None, "outcome": "ok"}
    base = os.path.join(scratch, "h%d" % h["id"])
    try:
        from fastparquet import write, ParquetFile
        os.makedirs(base)
        simple = h["scheme"] == "simple"
        target = os.path.join(base, "ds.parquet" if simple else "ds")
        root = base if simple else target
        expected = None
        handle = None                   # the long-lived ParquetFile of a history with "handle_from"
        had_failed = False              # a failed operation may have left unreferenced part files behind
        foreign = h.get("foreign")
        for i in range(len(h["batches"])):
            if foreign and i == 0:
                # the target of the appends was written by ANOTHER writer (spec-level encoder, harness/fmtgen.py + pqref fmt_encode):
                # its rows are whatever fastparquet reads from it before the first append
                st = {"step": 0, "n": 0, "problems": []}
                with open(target, "wb") as f:
                    f.write(foreign_bytes(h))
                s0, val0 = dsfs.guarded(lambda: (lambda d: (frame_cells(d, False), frame_dtypes(d)))(ParquetFile(target).to_pandas()), READ_TIMEOUT)
                if s0 != "ok":
                    out["outcome"] = "foreign-target-unreadable-before-any-append"      # C03's subject
                    st["raised"] = str(val0)[:200]
                    out["steps"].append(st)
                    break
                expected, dtypes0 = val0
                st["n"] = len(expected[0][1]) if expected else 0
                st["cols"] = [c for c, _ in expected]
                out["steps"].append(st)
                continue
            df = build_foreign_batch(h, i) if foreign else build_batch(h, i)
            kw = write_kw(h, i)
            st = {"step": i, "n": len(df), "problems": []}
            # what this batch reads back as when written alone
            alone = os.path.join(base, "alone%d%s" % (i, ".parquet" if simple else ""))
            try:
                write(alone, df, **kw)
                a_df = ParquetFile(alone).to_pandas()
            except Exception as e:          # noqa: a frame fastparquet cannot write/read at all is not C07's business
                out["outcome"] = "alone-write-or-read-raised"
                st["raised"] = "%s: %s" % (type(e).__name__, str(e)[:200])
                out["steps"].append(st)
                break
            a_cells = frame_cells(a_df, bool(h["index"]))
            if i == 0:
                write(target, df, **kw)
                expected = a_cells
                dtypes0 = frame_dtypes(a_df)
                st["cols"] = [c for c, _ in a_cells]
            else:
                if len(a_df) == 0 and sorted(c for c, _ in a_cells) != sorted(c for c, _ in expected):
                    a_cells = [[c, []] for c, _ in expected]       # an empty batch contributes no rows, whatever its alone-read looks like
                if simple and h.get("kv_rewrite_step") == i:
                    from fastparquet.writer import update_file_custom_metadata
                    if handle is None and h.get("handle_from") is not None and i >= h["handle_from"]:
                        handle = ParquetFile(target)          # the handle is older than the rewrite
                    update_file_custom_metadata(target, {"verif_pad": None})
                    st["kv_rewrite"] = True
                if simple:
                    before = open(target, "rb").read()
                    pf_b = ParquetFile(target)
                    ranges = old_chunk_ranges(pf_b)
                    refs_b = []
                else:
                    ds_ = h.get("drop_summary")
                    if ds_ and ds_["step"] == i:
                        for nm in ([dsfs.MD, dsfs.CMD] if ds_["what"] == "both" else [ds_["what"]]):
                            if os.path.exists(os.path.join(target, nm)):
                                os.remove(os.path.join(target, nm))
                        st["dropped_summary"] = ds_["what"]
                        if ds_["what"] != dsfs.CMD:
                            # without _metadata the row groups come in file-listing order: what the dataset holds NOW is the baseline
                            s0_, v0_ = dsfs.guarded(lambda: frame_cells(ParquetFile(target).to_pandas(), bool(h["index"])), READ_TIMEOUT)
                            if s0_ != "ok":
                                st["problems"].append(("unreadable", "the directory without %s cannot be opened / read: %s" % (ds_["what"], v0_)))
                                out["steps"].append(st)
                                break
                            if sorted(map(repr, zip(*[v for _, v in v0_]))) != sorted(map(repr, zip(*[v for _, v in expected]))):
                                st["problems"].append(("values-differ", "the directory without %s does not hold the rows written so far" % ds_["what"]))
                            expected = v0_
                            expected_before = expected
                    snap_b = dsfs.snapshot(target)
                    pf_b = ParquetFile(target)
                    refs_b = dsfs.refs_of(pf_b)
                rec = dsfs.Recorder(root, keep_data=simple)
                raised = None
                expected_before = expected
                use_handle = h.get("handle_from") is not None and i >= h["handle_from"]
                with rec:
                    try:
                        akw = dict(kw)
                        akw.pop("write_index", None)
                        akw.pop("object_encoding", None)        # the stored schema decides on append
                        akw.pop("has_nulls", None)
                        akw.pop("custom_metadata", None)
                        if use_handle:
                            if handle is None:
                                handle = ParquetFile(target)      # opened once; every later append and read-in-between uses it
                            ff = h["batches"][i].get("failed_first")
                            if ff:
                                had_failed = True
                                st["failed_first"] = failed_operation(handle, ff, df, akw, root, target, expected, bool(h["index"]))
                                if st["failed_first"].get("problem"):
                                    st["problems"].append(tuple(st["failed_first"]["problem"]))
                            handle.write_row_groups(df, row_group_offsets=akw.get("row_group_offsets"), compression=akw["compression"],
                                                    open_with=rec.open_with, mkdirs=rec.mkdirs)
                        elif st.get("dropped_summary"):
                            # (opening a directory by listing needs a file system object: open_with = the bound open of one)
                            fso = dsfs.rec_fs(rec).open
                            if h["batches"][i].get("via") == "write_row_groups":
                                ParquetFile(target, open_with=fso).write_row_groups(
                                    df, row_group_offsets=akw.get("row_group_offsets"), compression=akw["compression"], open_with=fso, mkdirs=rec.mkdirs)
                            else:
                                write(target, df, append=True, open_with=fso, mkdirs=rec.mkdirs, **akw)
                        elif h["batches"][i].get("via") == "write_row_groups":
                            ParquetFile(target, open_with=rec.open_with).write_row_groups(
                                df, row_group_offsets=akw.get("row_group_offsets"), compression=akw["compression"],
                                open_with=rec.open_with, mkdirs=rec.mkdirs)
                        else:
                            write(target, df, append=True, open_with=rec.open_with, mkdirs=rec.mkdirs, **akw)
                    except Exception as e:      # noqa
                        raised = "%s: %s" % (type(e).__name__, str(e)[:200])
                        st["tb"] = traceback.format_exc()[-800:]
                st["trace"] = rec.trace if not simple else [c if c[0] != "write" else ("write", c[1], b"") for c in rec.trace]
                st["refs_before"] = refs_b
                if raised and h["batches"][i].get("dt_unit"):
                    # a column in another datetime unit is another dtype: refusing the append is legitimate (the history ends here)
                    st["raised"] = raised
                    st["mixed_unit"] = "refused"
                    out["outcome"] = "mixed-unit-append-refused"
                    out["steps"].append(st)
                    break
                if raised:
                    # every generated batch has the columns and dtypes of the first write: the append has to be accepted
                    # (what a refused append leaves behind is C18's subject); the history ends here
                    st["raised"] = raised
                    st["problems"].append(("append-raised", "append of a schema-compatible frame raised %s" % raised))
                    out["outcome"] = "append-raised"
                    out["steps"].append(st)
                    break
                if simple:
                    after = open(target, "rb").read()
                    size = int.from_bytes(before[-8:-4], "little")
                    loc = len(before) - 8 - size
                    st["loc"] = loc
                    st["before"], st["after"] = before, after
                    st["chunks"] = [c[2] for c in rec.trace if c[0] == "write"]
                    st["footer_len"] = [size, int.from_bytes(after[-8:-4], "little")]
                    if after[:loc] != before[:loc]:
                        j = next(k for k in range(loc) if k >= len(after) or after[k] != before[k])
                        st["problems"].append(("prefix-bytes-changed", "byte %d below the old footer start %d changed" % (j, loc)))
                    bad = [r for r in ranges if not (4 <= r[0] <= r[1] <= loc)]
                    if bad:
                        st["problems"].append(("old-chunk-not-below-footer", "column chunk byte range %s not inside [4, %d)" % (bad[0], loc)))
                    if after[-4:] != b"PAR1":
                        st["problems"].append(("no-trailing-magic", "file does not end with PAR1"))
                    if h.get("fault_step") == i:
                        st["faults"] = fault_runs(h, i, base, before, loc, df, akw, rec, expected_before)
                        st["problems"] += st["faults"]["problems"][:3]
                else:
                    snap_a = dsfs.snapshot(target)
                    # (the data files OF THE DATASET: what the summary references; a part file left behind by a failed operation is not)
                    old_files = [p for p in snap_b if p not in (dsfs.MD, dsfs.CMD) and (p in refs_b or not had_failed)]
                    changed = [p for p in old_files if snap_a.get(p) != snap_b[p]]
                    if changed:
                        st["problems"].append(("existing-data-file-changed", "pre-existing data file(s) %s %s" % (
                            changed[:3], "missing" if changed[0] not in snap_a else "changed")))
                    opened = [c[1] for c in rec.trace if c[0] == "openw" and c[1] in old_files]
                    if opened:
                        st["problems"].append(("opened-existing-data-file", "existing data file(s) opened for writing: %s" % opened[:3]))
                    moved = [c for c in rec.trace if c[0] in ("rename", "remove") and any(p in old_files for p in c[1:])]
                    if moved:
                        st["problems"].append(("renamed-or-removed-existing-data-file", "%s" % moved[:3]))
                    st["new_files"] = sorted(set(snap_a) - set(snap_b))
                    st["had_failed"] = had_failed
                    st["nfiles_before"] = len(snap_b)
                a_map = dict((c, v) for c, v in a_cells)        # by column NAME: the appended frame may order its columns differently
                if sorted(a_map) != sorted(c for c, _ in expected):
                    raise RuntimeError("harness: batch %d read alone has columns %s, first write %s" % (i, sorted(a_map), [c for c, _ in expected]))
                expected = [[c, va + a_map[c]] for c, va in expected]
            # fresh read in a killable child
            def reader():
                pf = ParquetFile(target)
                whole = pf.to_pandas()
                hread = None
                if handle is not None:
                    # the SAME handle that made the appends, read in between: it must see what it wrote
                    try:
                        hw = handle.to_pandas()
                        hread = [frame_cells(hw, False), [handle.fmd.num_rows, sum(rg.num_rows for rg in handle.row_groups), handle.count()]]
                    except Exception as e:      # noqa
                        hread = "%s: %s" % (type(e).__name__, str(e)[:200])
                return (frame_cells(whole, bool(h["index"])), frame_dtypes(whole), dsfs.refs_of(pf) if not simple else [], len(pf.row_groups),
                        cat_observation(pf, whole, [c["name"] for c in h["cols"] if c["kind"] in CAT_KINDS]),
                        old_chunk_ranges(pf) if simple else [], [pf.fmd.num_rows, sum(rg.num_rows for rg in pf.row_groups), pf.count()], hread)
            s, val = dsfs.guarded(reader, READ_TIMEOUT)
            if s != "ok":
                st["problems"].append(("unreadable", "fresh open/read after step %d: %s %s" % (i, s, val)))
            else:
                got, got_dtypes, refs_a, nrg, st["cat"], ranges_a, counts, hread = val
                if hread is not None:
                    st["via_handle"] = True
                    want_rows = len(expected[0][1]) if expected else 0
                    if isinstance(hread, str):
                        st["problems"].append(("handle-read-raised", "reading through the handle that made the append(s) raised %s" % hread))
                    elif sorted(hread[0]) != sorted(expected):
                        hm = dict((c, v) for c, v in hread[0])
                        badc = [c for c, ev in expected if hm.get(c) != ev]
                        st["problems"].append(("handle-read-differs", "the handle that made the append(s) reads %s rows, %d were written; first differing column %s" % (
                            len(hread[0][0][1]) if hread[0] else 0, want_rows, badc[:1])))
                    elif any(c != want_rows for c in hread[1]):
                        st["problems"].append(("handle-row-count", "handle: num_rows %s, sum of row groups %s, count() %s; %d rows were written" % (
                            hread[1][0], hread[1][1], hread[1][2], want_rows)))
                # (object-encoded int/bool columns and another writer's columns get their dtype from the null statistics of all row groups)
                loose = set(c["name"] for c in h["cols"] if c["kind"] in OBJENC_KINDS or foreign)
                bad_dt = sorted(c for c in dtypes0 if c in got_dtypes and got_dtypes[c] != dtypes0[c] and c not in loose)
                if bad_dt and i > 0:
                    st["problems"].append(("dtype-differs", "column %s: dtype %s after the append, %s when the first write is read alone" % (
                        bad_dt[0], got_dtypes[bad_dt[0]], dtypes0[bad_dt[0]])))
                    st["bad_column"] = bad_dt[0]
                st["nrg"] = nrg
                want_rows = len(expected[0][1]) if expected else 0
                if expected and any(c != want_rows for c in counts):
                    st["problems"].append(("row-count-metadata", "FileMetaData.num_rows %d, sum of row-group num_rows %d, count() %d; %d rows were written" % (
                        counts[0], counts[1], counts[2], want_rows)))
                if simple and i > 0:
                    # the new footer lists the old column chunks first and unchanged, then the new ones, which lie
                    # between the old footer start and the new footer start, in order (model: descs ++ place loc rgs)
                    loc_a = len(after) - 8 - int.from_bytes(after[-8:-4], "little")
                    if ranges_a[:len(ranges)] != ranges:
                        st["problems"].append(("old-row-group-metadata-changed", "byte ranges of the old column chunks %s -> %s" % (
                            ranges[:3], ranges_a[:3])))
                    new_r = ranges_a[len(ranges):]
                    if any(not (loc <= a <= b <= loc_a) for a, b in new_r) or any(x[1] > y[0] for x, y in zip(new_r, new_r[1:])):
                        st["problems"].append(("new-row-groups-misplaced", "new column chunks %s not in order inside [%d, %d)" % (new_r[:4], loc, loc_a)))
                if not simple and i > 0:
                    if refs_a[:len(refs_b)] != refs_b:
                        st["problems"].append(("old-row-groups-reordered", "references before %s, after %s" % (refs_b[:4], refs_a[:4])))
                    st["refs_after"] = refs_a
                if [c for c, _ in got] != [c for c, _ in expected]:
                    st["problems"].append(("columns-differ", "columns %s, expected %s" % ([c for c, _ in got], [c for c, _ in expected])))
                else:
                    for (c, gv), (_, ev) in zip(got, expected):
                        if len(gv) != len(ev):
                            st["problems"].append(("row-count", "column %s: %d rows read, %d expected" % (c, len(gv), len(ev))))
                            break
                        d = [k for k in range(len(ev)) if gv[k] != ev[k]]
                        if d:
                            nold = len(ev) - len(a_cells[0][1]) if i > 0 else 0
                            st["problems"].append(("values-differ", "column %s row %d (of %d; %d rows predate this step): read %r, expected %r; %d rows differ" % (
                                c, d[0], len(ev), nold, _jsonable(gv[d[0]]), _jsonable(ev[d[0]]), len(d))))
                            st["bad_column"] = c
                            st["bad_in_old_rows"] = d[0] < nold
                            break
            out["steps"].append(st)
            if st["problems"]:
                break
    except BaseException:                         # noqa
        out["error"] = traceback.format_exc()[-3000:]
    finally:
        shutil.rmtree(base, ignore_errors=True)
    out["wall"] = time.time() - t0
    return out


def col_kind(h, name):
    for c in h["cols"]:
        if c["name"] == name:
            return c["kind"]
    if name in ("pk", "ps"):
        return "partition_" + name
    return "index" if name in ("<index>", "idx") else None


def labels_vary(h, name):
    labs = [b["cols"][name].get("labels") for b in h["batches"] if name in b["cols"]]
    return any(l != labs[0] for l in labs)


def classify(h, st, sym):
    cls = {"component": "append", "scheme": h["scheme"], "symptom": sym, "kind": None, "new_labels": False,
           "partitioned": bool(h["partition_on"]), "index": bool(h["index"])}
    c = st.get("bad_column")
    if c is not None:
        cls["kind"] = col_kind(h, c)
        cls["new_labels"] = bool(cls["kind"] in CAT_KINDS and labels_vary(h, c))
    return cls


def run(ctx):
    C.coq_lib()
    ctx.trusted = TRUSTED
    ctx.coq_file(os.path.join(C.COQ, "props", "C07.v"))
    bad = C.hygiene()
    ctx.obligation("hygiene: no Admitted/Axiom/Parameter/... in coq/", not bad, "; ".join(bad))
    dsfs.partnames_translator(ctx)
    chk = dsfs.coqchk_start(C.COQ, "C07") if not ctx.quick() else None
    C.use_shadow()
    C.pqref()
    rng = ctx.rng
    nh, nconf = (300, 20) if ctx.quick() else (3000, 100)
    ctx.rule = ("history = first write + 1..4 appends of frames with the same columns and dtypes (%d kinds incl. nullable, strings, bytes, json, "
                "timestamps, categoricals; nulls none/some/all/first/last; 0..200 rows), row_group_offsets None/int/list and codec varied per "
                "step; in half of the appends the frame lists its columns in another order; schemes simple / hive / hive with 1-2 partition columns / drill(flat); written index in 20%%; main stream keeps the category "
                "list of a categorical column fixed, a small confirmation stream varies it (superset / reordered / disjoint); after EVERY step: "
                "bytes, listing, trace, fresh read; a case is one step of a history; the first write of a history is the trivial case" % len(KINDS))
    hs = [gen_history(rng, i, False) for i in range(nh)] + [gen_history(rng, nh + i, True) for i in range(nconf)]
    nfor = 40 if ctx.quick() else 400
    hs += [gen_foreign(rng, 50000, "big-dictionary"), gen_foreign(rng, 50001, "levels-without-nulls")]
    hs += [gen_foreign(rng, 50002 + i) for i in range(nfor)]
    cdir = os.path.join(C.VERIF, "corpus", "C07")
    if os.path.isdir(cdir):
        for i, f in enumerate(sorted(os.listdir(cdir))):
            h = json.load(open(os.path.join(cdir, f)))["history"]
            h["id"] = 100000 + i
            hs.insert(0, h)
    # crash-proof parallel map: a history whose worker dies or hangs is a reported failure, not a hung check
    results = C.pmap(run_history, [(h, ctx.scratch) for h in hs], nproc=NPROC, job_timeout=600 if ctx.quick() else 1200)
    for h, res in zip(hs, list(results)):
        if isinstance(res, dict) and "__crashed__" in res:
            ctx.case({"h": h, "step": "crashed"})
            ctx.fail({"component": "append", "scheme": h["scheme"], "symptom": "process-crashed-or-hung", "kind": None, "new_labels": False,
                      "partitioned": bool(h["partition_on"]), "index": bool(h["index"])},
                     {"history": h, "failing_step": None, "observed": res["__crashed__"]},
                     "the process running this history on the real code %s" % res["__crashed__"])
    results = [r for r in results if not (isinstance(r, dict) and "__crashed__" in r)]
    by_id = {h["id"]: h for h in hs}
    tw = sorted(((r.get("wall", 0), r["id"]) for r in results), reverse=True)
    ctx.extra["worker_seconds"] = {"total": round(sum(t for t, _ in tw), 1), "slowest": [[round(t, 1), i, ("foreign" if by_id[i].get("foreign") else "fault" if by_id[i].get("fault_step") else "plain")] for t, i in tw[:6]],
                                   "foreign": round(sum(t for t, i in tw if by_id[i].get("foreign")), 1),
                                   "fault": round(sum(t for t, i in tw if by_id[i].get("fault_step")), 1)}
    cmds, meta = [], []
    deferred, cat_match = [], {}
    mono_seen, mono_bad = [0], []
    for res in results:
        h = by_id[res["id"]]
        if res["error"]:
            raise RuntimeError("history %d failed in the harness:\n%s" % (res["id"], res["error"]))
        ctx.count("scheme", h["scheme"] + ("+index" if h["index"] else "") + ("(target written by another writer)" if h.get("foreign") else ""))
        if h.get("handle_from") is not None:
            ctx.count("appends_through_one_reused_handle", sum(1 for st in res["steps"] if st.get("via_handle")))
        ctx.count("appends", len(h["batches"]) - 1)
        ctx.count("has_nulls_mode", "list" if isinstance(h.get("has_nulls"), list) else str(h.get("has_nulls", True)))
        ctx.count("history_outcome", res["outcome"] + ("(confirmation stream)" if h["confirm"] else ""))
        for c in h["cols"]:
            ctx.count("kind", c["kind"])
        for st in res["steps"]:
            i = st["step"]
            ctx.case({"h": h, "step": i}, trivial=(i == 0))
            ctx.count("rows_in_step", st["n"])
            if i > 0:
                ctx.count("entry_point", h["batches"][i].get("via", "write") + ("+permuted columns" if h["batches"][i].get("permute") else ""))
            short = {"history": h["id"], "scheme": h["scheme"], "step": i}
            if i > 0 and h["batches"][i].get("dt_unit"):
                ctx.count("datetime_column_appended_in_another_unit", "%s: %s" % (
                    ",".join(sorted(set(h["batches"][i]["dt_unit"].values()))), "refused" if st.get("mixed_unit") else "accepted"))
            if st.get("dropped_summary"):
                ctx.count("append_target_without_summary_file", "%s deleted before the append (%s)" % (st["dropped_summary"], h["scheme"]))
            if "raised" in st:
                ctx.count("refused", st["raised"][:60])
            if st.get("failed_first"):
                ctx.count("failed_operation_before_append_on_reused_handle", "%s/%s" % (st["failed_first"]["mode"], h["scheme"]))
            if st.get("faults"):
                ctx.count("fault_injected_appends", 1)
                for key_, dd in (("fault_kind", st["faults"]["kinds"]), ("fault_outcome", st["faults"]["outcomes"])):
                    d_ = ctx.dist.setdefault(key_, {})
                    for k_, n_ in dd.items():
                        d_[k_] = d_.get(k_, 0) + n_
                ctx.extra["fault_runs"] = ctx.extra.get("fault_runs", 0) + st["faults"]["runs"]
            for sym, text in st["problems"]:
                cls = classify(h, st, sym)
                case_ = {"history": h, "failing_step": i, "observed": text, "trace": dsfs.trace_json(st.get("trace", []), 120)}
                if sym == "values-differ" and cls["kind"] in CAT_KINDS and cls["new_labels"]:
                    # a categorical column whose batches carry different label lists: whether this is the KNOWN wrong behaviour (every row
                    # group's codes read with the LAST dictionary: Dataset/CatRead.v read_cat) or another one is decided once the model has
                    # answered - only the former is covered by the open finding
                    deferred.append((cls, case_, text, (h["id"], i, st.get("bad_column"))))
                else:
                    ctx.fail(cls, case_, text)
            for name, obs in (st.get("cat") or {}).items():
                if any(d is not None for d, _ in obs["chunks"]):
                    chunks, real = cat_model_io(obs)
                    cmds.append(("read_cat", [], chunks))
                    meta.append(("cat", dict(short, column=name, row_groups=len(chunks),
                                             dictionaries_differ=len(set(json.dumps(d) for d, _ in obs["chunks"] if d is not None)) > 1), real))
            if i == 0 or "raised" in st:
                continue
            if h["scheme"] == "simple":
                if "before" in st:
                    cmds.append(("append_rel", st["before"], st["after"]))
                    meta.append(("rel", short, st))
                    cmds.append(("append_seq", st["before"], st["chunks"]))
                    meta.append(("seq", short, st))
                    if st.get("kv_rewrite"):
                        ctx.count("footer_rewritten_by_another_code_path_before_a_handle_append", 1)
                    if h.get("foreign") or any(s_.get("kv_rewrite") for s_ in res["steps"][:i + 1]):
                        # another writer's footer may hold fields fastparquet does not write back (C07_simple_shorter_tail_refuted): the
                        # hypothesis is about footers fastparquet serialised itself; the relation check above and the oracle still apply
                        ctx.count("foreign_footer", "shorter" if st["footer_len"][1] < st["footer_len"][0] else "not shorter")
                        continue
                    mono_seen[0] += 1
                    if st["footer_len"][1] < st["footer_len"][0]:
                        mono_bad.append("history %d step %d: footer %d -> %d bytes" % (h["id"], i, st["footer_len"][0], st["footer_len"][1]))
            else:
                cmds.append(("safe_trace_sym", [p.encode() for p in st["refs_before"]], dsfs.sx_trace(st["trace"])))
                meta.append(("safe", short, st))
                cmds.append(("safe_trace", [p.encode() for p in st["refs_before"]], dsfs.sx_trace(st["trace"])))
                meta.append(("strict", short, st))
                cmds.append(("safe_trace_gen", [p.encode() for p in st["refs_before"]], dsfs.sx_trace(st["trace"])))
                meta.append(("gen", short, st))
                # information (DESIGN 4.2): is the deterministic model trace (Dataset/Ops.v) exactly what the code did?
                from harness.props.C19 import blocks_of
                pt, rgs, mdc, cmdc, norm = blocks_of([(c[0], c[1], b"") if c[0] == "write" else c for c in st["trace"]])
                cmds.append(("append_trace", [p.encode() for p in st["refs_before"]], 1 if pt else 0, rgs, mdc, cmdc))
                meta.append(("model", short, norm))
                # fresh names: every new file is referenced, every new reference is a new file
                if "refs_after" in st and not st.get("had_failed"):      # (a failed operation leaves unreferenced part files, which later appends may replace)
                    newrefs = st["refs_after"][len(st["refs_before"]):]
                    ctx.correspondence("new references = new files (fresh names)", short, sorted(set(newrefs)),
                                       sorted(p for p in st["new_files"] if p not in (dsfs.MD, dsfs.CMD)))
    ctx.obligation("hypothesis enc_mono (the rewritten footer is never shorter than the one it replaces) on all %d single-file appends" % mono_seen[0],
                   not mono_bad, "; ".join(mono_bad[:5]))
    pq = C.Pqref()
    outs = pq.batch(cmds)
    pq.close()
    if len(outs) != len(cmds):
        raise RuntimeError("pqref answered %d of %d commands" % (len(outs), len(cmds)))
    model_trace = {"equal": 0, "different": 0, "examples": []}
    seq_model = {"equal": 0, "different": 0, "examples": []}
    strict = {"true": 0, "false": 0}
    sym_info = {"true": 0, "false": 0}
    for (kind, short, st), o in zip(meta, outs):
        if kind == "model":
            mt = [[bytes(x) if isinstance(x, (bytes, bytearray)) else x for x in c] for c in o[0]] if isinstance(o, list) and o else o
            same = mt == [[x.encode() if isinstance(x, str) else x for x in c] for c in st]
            model_trace["equal" if same else "different"] += 1
            if not same and len(model_trace["examples"]) < 3:
                model_trace["examples"].append({"case": short, "model": str(mt)[:500], "recorded": str(st)[:500]})
            continue
        if kind == "cat":
            ctx.count("categorical_reads", "dictionaries differ" if short["dictionaries_differ"] else "one dictionary")
            mo_ = [list(x) for x in o] if isinstance(o, list) else o
            cat_match[(short["history"], short["step"], short["column"])] = (mo_ == st)
            if (short["history"], short["step"], short["column"]) not in [d_[3] for d_ in deferred]:
                ctx.correspondence("CatRead.read_cat(per-row-group dictionaries and codes) = categorical column of the whole read", short, mo_, st)
            else:
                ctx.count("categorical_failures", "output = the relabelling model" if mo_ == st else "output differs from the relabelling model, too")
            continue
        if kind == "strict":
            # information: the stricter relation `safe_trace` (_metadata before _common_metadata), which the code implements today
            strict["true" if o == 1 else "false"] += 1
            continue
        if kind == "gen":
            # the general commit-point relation (Dataset/CrashGen.v; theorem C07_multi_existing_untouched_general)
            ok = ctx.correspondence("check_safe_gen(recorded trace of the real append) = true", short, 1, o)
            if not ok and ctx.broken and "trace" not in ctx.broken[-1]:
                ctx.broken[-1]["trace"] = dsfs.trace_json(st["trace"], 200)
            continue
        if kind == "safe":
            sym_info["true" if o == 1 else "false"] += 1        # information: the stricter relation today's code is also inside
            continue
        if kind == "safe_old":
            ok = ctx.correspondence("check_safe_trace_sym(recorded trace of the real append) = true", short, 1, o)
            if not ok and ctx.broken and "trace" not in ctx.broken[-1]:
                ctx.broken[-1]["trace"] = dsfs.trace_json(st["trace"], 200)
        elif kind == "rel":
            ctx.correspondence("check_append_rel(bytes before, bytes left by the real append) = true", short, 1, o)
        else:
            # information (DESIGN 4.2): is the deterministic model (footer_loc + seq_write of the recorded chunks) byte-exactly what the code left?
            model = [o[0], len(o[1]), C.sha(bytes(o[1]))[:20]] if isinstance(o, list) and len(o) == 2 else o
            same = model == [st["loc"], len(st["after"]), C.sha(st["after"])[:20]]
            seq_model["equal" if same else "different"] += 1
            if not same and len(seq_model["examples"]) < 3:
                seq_model["examples"].append({"case": short, "model": str(model)[:200], "real": [st["loc"], len(st["after"])]})
    for cls, case_, text, key in deferred:
        cls["as_relabel_model"] = bool(cat_match.get(key, True))      # (no model answer - more than 12 row groups: counted as the known behaviour)
        if not cls["as_relabel_model"]:
            text += " [the values are NOT what reading every row group with the last dictionary gives either: not the known relabelling]"
        ctx.fail(cls, case_, text)
    ctx.extra["strict_safe_trace_on_recorded_traces"] = strict
    ctx.extra["safe_trace_sym_on_recorded_traces"] = sym_info
    ctx.extra["append_seq_model_vs_real_bytes"] = seq_model
    ctx.notes.append("Append.append_simple (footer_loc + seq_write of the recorded write chunks) gives byte-exactly the file the real append left in %d of %d "
                     "single-file appends (information, not an obligation)" % (seq_model["equal"], seq_model["equal"] + seq_model["different"]))
    ctx.extra["model_trace_vs_recorded_trace"] = model_trace
    ctx.notes.append("Ops.append_trace equals the recorded call trace (kinds, paths, order; write data ignored) in %d of %d multi-file appends "
                     "(information, not an obligation)" % (model_trace["equal"], model_trace["equal"] + model_trace["different"]))

    if chk is not None:
        dsfs.coqchk_finish(ctx, chk, "C07")


def replay(rep):
    """Re-execute a recorded history on the real code and report what the property observes."""
    if rep.get("kind") == "no-failing-input-found":
        print(json.dumps(rep, indent=1)[:6000])
        return 1
    C.use_shadow()
    h = rep["case"]["history"]
    tmp = tempfile.mkdtemp(prefix="verif-C07-replay-", dir="/tmp")
    try:
        res = run_history((h, tmp))
        if res["error"]:
            print(res["error"])
            return 1
        print("history %s: scheme %s, partition_on %s, index %s, columns %s" % (
            h["id"], h["scheme"], h["partition_on"], h["index"], [c["name"] for c in h["cols"]]))
        bad = 0
        for st in res["steps"]:
            what = "first write" if st["step"] == 0 else "append"
            print("step %d (%s of %d rows): %s" % (st["step"], what, st["n"],
                                                   "raised " + st["raised"] if "raised" in st else "%s row groups" % st.get("nrg")))
            for sym, text in st["problems"]:
                print("  PROPERTY FAILS: %s: %s" % (sym, text))
                bad = 1
        return bad
    finally:
        shutil.rmtree(tmp, ignore_errors=True)
