"""C09 — dataset edits follow a simple model; metadata and directory agree (DESIGN.md section 6, C09).

Tie: histories (initial write + 0..5 further operations over {append, append='overwrite', remove_row_groups(subset,
sort_pnames), write_row_groups(sort_key, sort_pnames)}) with generated frames, 0..2 partition columns, varying row-group
sizes, RE-OPENING FROM DISK between steps, run on the real code; after every step the directory listing (path -> ids of the
rows the file holds), the summary's row-group list (path -> ids read through the summary), the num_rows field and
accepted/refused are compared with the extracted Coq model (Dataset/Edit.v, `edit_hist`), both exactly and up to file names.
Oracle (the property's text, on the real code): full read = the plain model's prediction (spec_step, also from the extracted
model); every referenced file exists and holds the stated number of rows; no unreferenced part file; num_rows = rows read;
every part file's schema = the summary's.
"""
import json
import os
import shutil
import tempfile
import traceback

from harness import common as C

TRUSTED = [
    "Coq 8.16.1 kernel + coqc; vm_compute for closed Examples and refutation witnesses; no native_compute",
    "extraction: ExtrOcamlBasic only, no Extract Constant; ocaml/driver.ml s-expression I/O",
    "OS semantics: rename replaces an existing destination and moves exactly one file, unlink removes exactly one file, open 'wb' creates/truncates "
    "(Dataset/FS.v set_file, Edit.v rename_file/drop_files); compared with the real directory after every step",
    "a file's content is abstracted to the ids of the rows it holds (unique id column written by the harness); page/thrift encoding is C01/C10's subject",
    "pandas groupby order and str() of partition values: the harness cuts new data into row groups and (partition directory, rows) groups (glue) "
    "- the model receives them already cut; the comparison of directory names with the real ones checks this glue on every step",
    "Python glue: history generator, resolution of row-group selections against the current number of row groups, observation of the real state",
]

# 1 = the repaired _sort_part_names (what $VERIF_REPO holds); 0 = the model of the pinned one (used once, by hand, to validate
# Edit.sort_pnames_old against the pinned code before the fix; see notes/C09.md)
MODEL_MODE = 0 if os.environ.get("VERIF_C09_PINNED_MODEL") else 1
KVALS = [0, 1, 2]
JVALS = ["a", "b"]
SORT_KEYS = ["none", "part", "rows"]
SCHEMA_ID = 1         # abstract id of the schema of the history's frames (x int64, y float64); any other observed schema is 2
MAX_FAILING = 25      # failing histories processed per run (the witnesses come first); the rest is only counted


# ---------------------------------------------------------------------------------------------
# histories (pure data)
# ---------------------------------------------------------------------------------------------
# partition value pools; the second and third hold values whose TEXT is a proper prefix of another value's text
# (k=1 / k=10 / k=11, j=a / j=ab / j=abc): directory names of different partitions then share a prefix
KPOOLS = [[0, 1, 2], [1, 10, 11, 2, 21], [1, 10]]
JPOOLS = [["a", "b"], ["a", "ab", "abc", "b"], ["a", "ab"]]
# every KIND of value the writer can put into a directory name (util.path_string): overwrite matches partitions on these texts.
# (kind, pool); timestamps are kept as ISO texts in the history and turned into pd.Timestamp when the frame is built
KIND_POOLS = {
    "k": [("int", p) for p in KPOOLS] + [("float", [1.0, 2.0, 2.5, -0.0, 1e16]), ("float", [2.0, 20.0]), ("bool", [True, False]),
                                         ("ts", ["2020-01-01T00:00:00", "2020-01-02T03:04:05", "2020-01-01T00:00:01"]),
                                         ("bigint", [2 ** 53 + 1, 2 ** 53 + 3, 7]),
                                         # neighbours around 2**53 (float64 cannot tell them apart), the int64 extremes, uint64 beyond int64
                                         ("bigint", [2 ** 53, 2 ** 53 + 1, 2 ** 53 + 2, 2 ** 53 - 1]),
                                         ("bigint", [2 ** 63 - 1, 2 ** 63 - 2, -2 ** 63, -2 ** 63 + 1, 0]),
                                         ("uint64", [2 ** 64 - 1, 2 ** 64 - 2, 2 ** 63, 2 ** 53 + 1, 1])],
    "j": [("str", p) for p in JPOOLS] + [("str", ["a b", "\u00e9", "x"]),
                                         # NAMES ARE DATA: values holding glob / regex / fsspec metacharacters; a pattern reading of one
                                         # of them matches ANOTHER value of the pool ('run[1]' ~ 'run1', 'a*' ~ 'ab', 'a?b' ~ 'axb')
                                         ("str", ["run[1]", "run1", "run[12]", "run2"]), ("str", ["a*", "ab", "a?b", "axb", "*"]),
                                         ("str", ["{x,y}", "x", "y", "a{1}"]), ("str", ["a+b", "a.b", "a^b$", "(a|b)", "a%20b", "a#b", "a&b"]), ("float", [1.0, 10.0, 2.5]),
                                         ("ts", ["2021-03-04T00:00:00", "2021-03-04T05:06:07"])],
}
DEFAULT_PTYPES = {"k": "int", "j": "str"}


def dir_text(kind, v):
    """the text the writer puts into a directory name for a partition value: the library's OWN util.path_string on the value as
    pandas' groupby yields it (glue; a change of the formatting alone is not this property's business, a writer/overwrite
    disagreement about it is - the model then predicts a replacement that does not happen)"""
    import numpy as np
    import pandas as pd
    from fastparquet.util import path_string
    if kind == "ts":
        return path_string(pd.Timestamp(v))
    cast = {"float": np.float64, "bool": np.bool_, "int": np.int64, "bigint": np.int64, "uint64": np.uint64}.get(kind)
    return path_string(cast(v) if cast else v)


def gen_frame(rng, pcols, n, next_id, kvals=None, jvals=None, null_cols=(), may_drop_all=False):
    kv = kvals or KVALS
    jv = jvals or JVALS
    rows = []
    for i in range(n):
        rows.append({"x": next_id + i, "y": rng.choice([0.5, 1.5, -2.0]), "k": rng.choice(kv), "j": rng.choice(jv)})
    if null_cols and rng.random() < 0.6:
        # rows whose partition key is MISSING (NaN / None / NaT): partition_on drops them ("as with pandas, null values will be
        # dropped"), so the plain model never sees them; placed first / last / anywhere, next to one or several distinct keys
        how = rng.choice(["first", "last", "some", "some", "all"])
        for c in null_cols:
            if rng.random() < 0.7:
                for i, r in enumerate(rows):
                    if (how == "first" and i == 0) or (how == "last" and i == n - 1) or (how == "some" and rng.random() < 0.35) or how == "all":
                        r[c] = None
        if not may_drop_all and all(any(r[c] is None for c in null_cols) for r in rows):
            # a first write / overwrite / write_row_groups call keeps at least one complete row: the model reads "is this frame partitioned" off
            # its (directory, rows) groups (an append / overwrite of only dropped rows is modelled as an edit that adds nothing)
            r = rng.choice(rows)
            for c in null_cols:
                if r[c] is None:
                    r[c] = rng.choice(kv if c == "k" else jv)
    return rows


NULLABLE_KEY_KINDS = ("str", "float", "ts")      # key kinds whose column can hold a missing value without changing dtype


def sub_pool(rng, pool):
    """the values a new frame draws from: the whole pool, one value only (the shorter or the longer of a prefix pair), or a random subset"""
    r = rng.random()
    if r < 0.35:
        return list(pool)
    if r < 0.7:
        return [rng.choice(pool)]
    return rng.sample(pool, rng.randrange(1, len(pool) + 1))


def offsets(rng, n):
    parts = rng.choice([1, 1, 2, 3, 4])
    parts = max(1, min(parts, n))
    return sorted(set(i * n // parts for i in range(parts)))


def gen_history(rng, hid, maxlen=6):
    npc = rng.choice([0, 1, 1, 2, 2])
    pcols = [[], ["k"], ["k", "j"]][npc]
    if npc == 2 and rng.random() < 0.3:
        pcols = ["j", "k"]
    if npc == 1 and rng.random() < 0.35:
        pcols = ["j"]
    nid = 0
    n = rng.choice([1, 2, 4, 6, 8])
    kkind, kpool = rng.choice(KIND_POOLS["k"][:3] * 2 + KIND_POOLS["k"][3:])
    jkind, jpool = rng.choice(KIND_POOLS["j"][:3] * 2 + KIND_POOLS["j"][3:] + KIND_POOLS["j"][4:8])
    null_cols = ()
    if pcols and rng.random() < 0.35:
        null_cols = tuple(c for c in pcols if {"k": kkind, "j": jkind}[c] in NULLABLE_KEY_KINDS)
    ops = [{"op": "write", "frame": gen_frame(rng, pcols, n, nid, kpool, jpool, null_cols), "offsets": None}]
    ops[0]["offsets"] = offsets(rng, n)
    nid += n
    one_handle = rng.random() < 0.15
    for _ in range(rng.randrange(0, maxlen)):
        kinds = ["append"] * 3 + ["remove"] * 2 + ["writergs"] * 3 + (["overwrite"] * 4 if pcols else [])
        if one_handle:
            # every operation after the first write goes through ONE long-lived ParquetFile (write_row_groups / remove_row_groups are
            # its methods; write(append=...) would open another handle): Dataset/DsHandle.v, theorem C09_handle_refines
            kinds = ["remove"] * 2 + ["writergs"] * 3 + ["failed_writergs"] * 2
        kind = rng.choice(kinds)
        if kind == "remove":
            ops.append({"op": "remove", "sel_spec": [rng.randrange(0, 12) for _ in range(rng.choice([0, 1, 1, 2, 3]))],
                        "all": rng.random() < 0.06, "sort_pnames": rng.random() < 0.5})
            continue
        n = rng.choice([1, 2, 3, 5, 6])
        o = {"op": kind, "frame": gen_frame(rng, pcols, n, nid, sub_pool(rng, kpool), sub_pool(rng, jpool), null_cols, kind == "append"), "offsets": offsets(rng, n)}
        nid += n
        if rng.random() < 0.4:
            o["perm"] = rng.randrange(1 << 30)       # append / overwrite / write_row_groups frames with permuted columns (mixed dtypes: int64, float64, keys)
        if rng.random() < 0.2:
            o["y_int"] = True      # the new frame's y column is int64: the part files must still carry the summary's schema (y: double)
        if kind == "writergs":
            o["sort_key"] = rng.choice(SORT_KEYS)
            o["sort_pnames"] = rng.random() < 0.5
        if kind == "failed_writergs":
            # write_row_groups through the handle whose data source raises after `after` row groups (DsHandle.v fail_op): the
            # operation reports the failure; summary, content and the HANDLE must be as before (unreferenced part files may stay)
            o["after"] = rng.randrange(0, len(o["offsets"]) + 1)
            o["sort_key"], o["sort_pnames"] = "none", False
        ops.append(o)
    h = {"id": hid, "pcols": pcols, "ptypes": {"k": kkind, "j": jkind}, "ops": ops}
    if one_handle:
        h["one_handle"] = True
    if rng.random() < 0.15:
        h["user_open"] = True      # every call gets a plain user function as open_with: the ParquetFile then has no .fs
    return h


def kind_witnesses():
    """one value kind each: overwrite one partition of a dataset partitioned on a float / bool / timestamp / big-int column"""
    out = []
    for n, (kind, vals) in enumerate([("float", [1.0, 2.0, 2.5, 2.0]), ("float", [-0.0, 1e16, 2.5, 1e16]), ("bool", [True, False, True]),
                                      ("ts", ["2020-01-01T00:00:00", "2020-01-02T03:04:05", "2020-01-01T00:00:00"]),
                                      ("bigint", [2 ** 53 + 1, 2 ** 53 + 3, 2 ** 53 + 1])]):
        fr0 = [{"x": i, "y": 0.5, "k": v, "j": "a"} for i, v in enumerate(vals)]
        fr1 = [{"x": 100, "y": 0.5, "k": vals[1], "j": "a"}]
        fr2 = [{"x": 101, "y": 0.5, "k": vals[0], "j": "a"}, {"x": 102, "y": 0.5, "k": vals[0], "j": "a"}]
        out.append({"id": 900021 + n, "pcols": ["k"], "ptypes": {"k": kind, "j": "str"}, "ops": [
            {"op": "write", "frame": fr0, "offsets": [0, 2]}, {"op": "overwrite", "frame": fr1, "offsets": [0]},
            {"op": "overwrite", "frame": fr2, "offsets": [0, 1]}]})
    return out


def null_key_witnesses():
    """rows with a missing partition key next to exactly ONE distinct key in the written chunk (and next to two): they are dropped,
    on the first write, on append and on overwrite"""
    def fr(vals, start):
        return [{"x": start + i, "y": 0.5, "k": k, "j": j} for i, (k, j) in enumerate(vals)]
    out = []
    for n, (ptypes, pcols, a, b) in enumerate([({"k": "int", "j": "str"}, ["j"], "a", "b"), ({"k": "float", "j": "str"}, ["k"], 1.0, 2.5),
                                              ({"k": "int", "j": "str"}, ["k", "j"], "a", "b")]):
        def kv(v, kk=1):
            return (v, "a") if pcols == ["k"] else (kk, v)
        out.append({"id": 900041 + n, "pcols": pcols, "ptypes": ptypes, "ops": [
            {"op": "write", "frame": fr([kv(a), kv(None), kv(b), kv(a)], 0), "offsets": [0, 2]},
            {"op": "append", "frame": fr([kv(a), kv(None), kv(a)], 4), "offsets": [0]},
            {"op": "append", "frame": fr([kv(None), kv(b)], 7), "offsets": [0]},
            {"op": "overwrite", "frame": fr([kv(b), kv(None), kv(None)], 9), "offsets": [0]},
            {"op": "writergs", "frame": fr([kv(None), kv(a), kv(b), kv(None)], 12), "offsets": [0, 2], "sort_key": "part", "sort_pnames": True}]})
    return out


def name_witnesses():
    """partition values that are patterns for a glob / regular expression: removing ONE of two row groups of 'j=run[1]' (pattern: run1),
    of 'j=a*', of 'j={x,y}' must leave the other one in place; then overwrite and renumber"""
    def fr(js, start):
        return [{"x": start + i, "y": 0.5, "k": 1, "j": j} for i, j in enumerate(js)]
    out = []
    for n, (v, other) in enumerate([("run[1]", "run2"), ("a*", "b"), ("{x,y}", "z"), ("a?b", "c")]):
        out.append({"id": 900051 + n, "pcols": ["j"], "ptypes": {"k": "int", "j": "str"}, "ops": [
            {"op": "write", "frame": fr([v, other, v, v], 0), "offsets": [0, 2, 3]},
            {"op": "remove", "sel_spec": [0], "all": False, "sort_pnames": False},
            {"op": "append", "frame": fr([v, other], 4), "offsets": [0]},
            {"op": "remove", "sel_spec": [1], "all": False, "sort_pnames": True},
            {"op": "overwrite", "frame": fr([other], 6), "offsets": [0]},
            {"op": "writergs", "frame": fr([v], 7), "offsets": [0], "sort_key": "part", "sort_pnames": True}]})
    return out


def design_witness():
    """DESIGN section 6 C09: write k=[0,1,0,0] in groups of 3, append k=[1,0] in groups of 2, overwrite with k=[1,0,0,1,1] in groups of 2."""
    def fr(ks, start):
        return [{"x": start + i, "y": 0.5, "k": k, "j": "a"} for i, k in enumerate(ks)]
    return {"id": 900001, "pcols": ["k"], "ops": [
        {"op": "write", "frame": fr([0, 1, 0, 0], 0), "offsets": [0, 3]},
        {"op": "append", "frame": fr([1, 0], 4), "offsets": [0]},
        {"op": "overwrite", "frame": fr([1, 0, 0, 1, 1], 6), "offsets": [0, 2, 4]}]}


def prefix_witnesses():
    """partition values in a prefix relation: overwriting the shorter value must leave the longer ones alone, and vice versa"""
    def fr(vals, start):
        return [{"x": start + i, "y": 0.5, "k": k, "j": j} for i, (k, j) in enumerate(vals)]
    return [
        {"id": 900011, "pcols": ["k"], "ops": [
            {"op": "write", "frame": fr([(1, "a"), (10, "a"), (11, "a"), (1, "a"), (2, "a")], 0), "offsets": [0, 3]},
            {"op": "overwrite", "frame": fr([(1, "a")], 5), "offsets": [0]},
            {"op": "overwrite", "frame": fr([(10, "a")], 6), "offsets": [0]}]},
        {"id": 900012, "pcols": ["k", "j"], "ops": [
            {"op": "write", "frame": fr([(1, "a"), (1, "ab"), (1, "abc"), (10, "a"), (1, "b")], 0), "offsets": [0, 2]},
            {"op": "overwrite", "frame": fr([(1, "a")], 5), "offsets": [0]},
            {"op": "overwrite", "frame": fr([(1, "abc")], 6), "offsets": [0]}]},
        {"id": 900013, "pcols": ["j", "k"], "ops": [
            {"op": "write", "frame": fr([(1, "a"), (10, "a"), (1, "ab"), (11, "a")], 0), "offsets": [0, 2]},
            {"op": "overwrite", "frame": fr([(1, "a")], 4), "offsets": [0]}]},
    ]


def user_open_witness():
    h = design_witness()
    h["id"] = 900031
    h["user_open"] = True
    return h


def emptied_history(pcols, hid):
    def fr(ks, start):
        return [{"x": start + i, "y": 0.5, "k": k, "j": "a"} for i, k in enumerate(ks)]
    return {"id": hid, "pcols": pcols, "ops": [
        {"op": "write", "frame": fr([0, 1, 0], 0), "offsets": [0, 2]},
        {"op": "remove", "sel_spec": [], "all": True, "sort_pnames": False},
        {"op": "append", "frame": fr([1, 0], 3), "offsets": [0]},
        {"op": "append", "frame": fr([0, 1, 1], 5), "offsets": [0, 2]}] + (
        [{"op": "remove", "sel_spec": [], "all": True, "sort_pnames": True},
         {"op": "overwrite", "frame": fr([1, 1], 8), "offsets": [0]},
         {"op": "overwrite", "frame": fr([1, 0], 10), "offsets": [0]}] if pcols else [])}


# ---------------------------------------------------------------------------------------------
# glue: new data cut the way write_multi cuts it
# ---------------------------------------------------------------------------------------------
def cut(frame, offs, pcols, ptypes=None):
    """[[(dir, [ids])...] per row group]; directories in the order of pandas' sorted groupby keys."""
    pt = ptypes or DEFAULT_PTYPES
    n = len(frame)
    out = []
    for i, start in enumerate(offs):
        end = offs[i + 1] if i + 1 < len(offs) else n
        sub = frame[start:end]
        if pcols:
            sub = [r for r in sub if all(r[c] is not None for c in pcols)]       # rows with a missing key are dropped by the writer's groupby
            keys = sorted(set(tuple(r[c] for c in pcols) for r in sub))
            g = []
            for key in keys:
                d = "/".join("%s=%s" % (c, dir_text(pt[c], v)) for c, v in zip(pcols, key))
                g.append([d, [r["x"] for r in sub if tuple(r[c] for c in pcols) == key]])
            out.append(g)
        else:
            out.append([["", [r["x"] for r in sub]]])
    return out


def sx_rgs(rgs):
    return [[[d.encode(), list(ids)] for d, ids in g] for g in rgs]


def model_ops(h, resolved):
    """history -> argument of `edit_hist` (selections as resolved against the real row-group count)."""
    out = []
    for o, sel in zip(h["ops"], resolved):
        if o["op"] == "remove":
            out.append(["remove", list(sel if sel is not None else []), 1 if o["sort_pnames"] else 0])
            continue
        if o["op"] == "failed_writergs":
            out.append(["remove", [], 0])          # C09_failed_op_state_unchanged: summary and content as before
            continue
        rgs = sx_rgs(cut(o["frame"], o["offsets"], h["pcols"], h.get("ptypes")))
        if h["pcols"] and o["op"] == "append" and not any(g for g in rgs):
            # every row of the frame has a missing partition key and is dropped: the append adds nothing - in the model: the
            # removal of no row group (an overwrite / write_row_groups call of such a frame still re-sorts: not generated)
            out.append(["remove", [], 0])
            continue
        if o["op"] == "writergs":
            out.append(["writergs", rgs, o["sort_key"], 1 if o["sort_pnames"] else 0])
        else:
            out.append(["write", SCHEMA_ID, rgs] if o["op"] == "write" else [o["op"], rgs])
    return out


# ---------------------------------------------------------------------------------------------
# the real code (worker process)
# ---------------------------------------------------------------------------------------------
def to_df(frame, pcols, ptypes=None, y_int=False, perm=None):
    import numpy as np
    import pandas as pd
    pt = ptypes or DEFAULT_PTYPES
    d = {"x": np.array([r["x"] for r in frame], dtype="int64"),
         "y": np.array([int(r["y"] * 2) for r in frame], dtype="int64") if y_int else np.array([r["y"] for r in frame], dtype="float64")}
    for c in pcols:
        vals = [r[c] for r in frame]
        kind = pt[c]
        if kind in ("int", "bigint"):
            d[c] = np.array(vals, dtype="int64")
        elif kind == "uint64":
            d[c] = np.array(vals, dtype="uint64")
        elif kind == "float":
            d[c] = np.array([np.nan if v is None else v for v in vals], dtype="float64")
        elif kind == "bool":
            d[c] = np.array(vals, dtype="bool")
        elif kind == "ts":
            d[c] = pd.Series([pd.NaT if v is None else pd.Timestamp(v) for v in vals])
        else:
            d[c] = pd.Series(vals, dtype=object)
    df = pd.DataFrame(d)
    if perm is not None and len(df.columns) > 1:
        # the same columns listed in ANOTHER order (schema-compatible: columns are matched by name)
        import random
        order = list(df.columns)
        r_ = random.Random(perm)
        while order == list(df.columns):
            r_.shuffle(order)
        df = df[order]
    return df


def sort_key_fn(name):
    from fastparquet.api import partitions
    if name == "none":
        return None
    if name == "part":
        return lambda rg: partitions(rg) or ""
    return lambda rg: rg.num_rows


def plain_open(path, mode="rb"):
    """a user-supplied open_with that is not a method of a file system object"""
    return open(path, mode)


EXACT_KEY_KINDS = ("int", "bigint", "uint64", "str", "bool")     # key kinds whose value is compared cell by cell after the read


def norm_key(kind, v):
    if v is None or v != v:
        return None
    if kind in ("int", "bigint", "uint64"):
        return int(v)
    if kind == "bool":
        return bool(v)
    return str(v)


def observe(root, key_cols=()):
    """what the property looks at, from a FRESH open."""
    from fastparquet import ParquetFile
    obs = {}
    files = {}
    other = []
    for dp, _, fs in os.walk(root):
        for f in fs:
            rel = os.path.relpath(os.path.join(dp, f), root).replace(os.sep, "/")
            if rel in ("_metadata", "_common_metadata"):
                continue
            if f.endswith(".parquet"):
                try:
                    pfile = ParquetFile(os.path.join(dp, f))
                    files[rel] = {"ids": [int(v) for v in pfile.to_pandas(columns=["x"])["x"].tolist()],
                                  "schema": [(c, str(t)) for c, t in pfile.dtypes.items()]}
                except BaseException as e:       # noqa
                    files[rel] = {"ids": None, "error": "%s: %s" % (type(e).__name__, str(e)[:100])}
            else:
                other.append(rel)
    obs["files"] = files
    obs["other"] = sorted(other)
    try:
        pf = ParquetFile(root)
        obs["num_rows"] = int(pf.fmd.num_rows)
        obs["count"] = int(pf.count())
        obs["schema"] = [(c, str(t)) for c, t in pf.dtypes.items() if c not in pf.cats]
        summ = []
        for i, rg in enumerate(pf.row_groups):
            p = rg.columns[0].file_path
            try:
                ids = [int(v) for v in pf[i].to_pandas(columns=["x"])["x"].tolist()]
            except BaseException as e:           # noqa
                ids = None
            summ.append([p, int(rg.num_rows), ids])
        obs["summary"] = summ
        try:
            if key_cols and pf.row_groups:
                # the partition VALUES every row is read back with (the plain model predicts content per key)
                kdf = pf.to_pandas(columns=["x"] + [c for c, _ in key_cols])
                obs["keys"] = {c: [norm_key(k, v) for v in kdf[c].astype(object).tolist()] for c, k in key_cols}
                obs["key_ids"] = [int(v) for v in kdf["x"].tolist()]
            obs["read"] = [int(v) for v in pf.to_pandas(columns=["x"])["x"].tolist()] if pf.row_groups else []
            if pf.row_groups:
                ydf = pf.to_pandas(columns=["x", "y"])
                obs["y"] = [[int(a), float(b)] for a, b in zip(ydf["x"].tolist(), ydf["y"].tolist())]
        except BaseException as e:               # noqa
            obs["read"] = None
            obs["read_error"] = "%s: %s" % (type(e).__name__, str(e)[:120])
    except BaseException as e:                   # noqa
        obs["open_error"] = "%s: %s" % (type(e).__name__, str(e)[:160])
    return obs


def run_history(arg):
    h, scratch = arg
    out = {"id": h["id"], "steps": [], "resolved": [], "error": None}
    root = os.path.join(scratch, "h%d" % h["id"])
    try:
        from fastparquet import ParquetFile, write
        pcols = h["pcols"]
        okw = {"open_with": plain_open} if h.get("user_open") else {}
        handle = None
        for o in h["ops"]:
            raised = None
            sel = None
            try:
                if o["op"] == "write":
                    write(root, to_df(o["frame"], pcols, h.get("ptypes"), o.get("y_int", False), o.get("perm")), file_scheme="hive", partition_on=list(pcols), row_group_offsets=list(o["offsets"]), **okw)
                elif o["op"] == "append":
                    write(root, to_df(o["frame"], pcols, h.get("ptypes"), o.get("y_int", False), o.get("perm")), file_scheme="hive", partition_on=list(pcols), row_group_offsets=list(o["offsets"]), append=True, **okw)
                elif o["op"] == "overwrite":
                    write(root, to_df(o["frame"], pcols, h.get("ptypes"), o.get("y_int", False), o.get("perm")), file_scheme="hive", partition_on=list(pcols), row_group_offsets=list(o["offsets"]),
                          append="overwrite", **okw)
                elif o["op"] == "remove":
                    if h.get("one_handle") and handle is None:
                        handle = ParquetFile(root, **okw)
                        if handle.row_groups:
                            handle.to_pandas(columns=["x"])        # the handle has READ the dataset before it edits it
                    pf = handle or ParquetFile(root, **okw)
                    n = len(pf.row_groups)
                    sel = list(range(n)) if o.get("all") else (sorted(set(i % n for i in o["sel_spec"])) if n else [])
                    pf.remove_row_groups([pf.row_groups[i] for i in sel], sort_pnames=o["sort_pnames"], **okw)
                elif o["op"] == "failed_writergs":
                    if handle is None:
                        handle = ParquetFile(root, **okw)
                        if handle.row_groups:
                            handle.to_pandas(columns=["x"])
                    dff = to_df(o["frame"], pcols, h.get("ptypes"))
                    offs = list(o["offsets"]) + [len(dff)]

                    def source():
                        for j in range(len(offs) - 1):
                            if j >= o["after"]:
                                break
                            yield dff.iloc[offs[j]:offs[j + 1]]
                        raise OSError("the data source of this write_row_groups failed after %d row groups" % o["after"])
                    handle.write_row_groups(source(), **okw)
                elif o["op"] == "writergs":
                    if h.get("one_handle") and handle is None:
                        handle = ParquetFile(root, **okw)
                        if handle.row_groups:
                            handle.to_pandas(columns=["x"])
                    pf = handle or ParquetFile(root, **okw)
                    pf.write_row_groups(to_df(o["frame"], pcols, h.get("ptypes"), o.get("y_int", False), o.get("perm")), list(o["offsets"]), sort_key=sort_key_fn(o["sort_key"]),
                                        sort_pnames=o["sort_pnames"], **okw)
            except BaseException as e:           # noqa
                raised = "%s: %s" % (type(e).__name__, str(e)[:160].replace("\n", " "))
            out["resolved"].append(sel)
            pt_ = h.get("ptypes") or DEFAULT_PTYPES
            obs = observe(root, [(c, pt_[c]) for c in pcols if pt_[c] in EXACT_KEY_KINDS])
            obs["raised"] = raised
            if handle is not None:
                try:
                    obs["handle"] = [[rg.columns[0].file_path for rg in handle.row_groups], int(handle.fmd.num_rows),
                                     [int(v) for v in handle.to_pandas(columns=["x"])["x"].tolist()] if handle.row_groups else []]
                except BaseException as e:      # noqa
                    obs["handle"] = "%s: %s" % (type(e).__name__, str(e)[:120])
            out["steps"].append(obs)
    except BaseException:                         # noqa
        out["error"] = traceback.format_exc()[-3000:]
    finally:
        shutil.rmtree(root, ignore_errors=True)
    return out


# ---------------------------------------------------------------------------------------------
def dir_of(p):
    return p.rsplit("/", 1)[0] if "/" in p else ""


def oracle(obs, spec, orphans_ok=False):
    """the property's text on the real state after one step; spec = [(dir, ids)] predicted by the plain model (or None)."""
    problems = []
    if "open_error" in obs:
        return [("dataset-unreadable", "a fresh open fails: %s" % obs["open_error"])]
    if spec is not None:
        want = [i for _, ids in spec for i in ids]
        if obs["read"] is None:
            problems.append(("read-fails", "full read fails: %s" % obs.get("read_error")))
        elif obs["read"] != want:
            problems.append(("content-differs-from-plain-model", "read %d rows %s..., plain model predicts %d rows %s..." % (
                len(obs["read"]), obs["read"][:12], len(want), want[:12])))
    refd = [p for p, _, _ in obs["summary"]]
    for p, n, ids in obs["summary"]:
        f = obs["files"].get(p)
        if f is None:
            problems.append(("referenced-file-missing", "%s is referenced but does not exist" % p))
        elif f["ids"] is None or len(f["ids"]) != n:
            problems.append(("row-count-mismatch", "%s is stated to hold %d rows, holds %s" % (p, n, None if f["ids"] is None else len(f["ids"]))))
        elif ids is None or ids != f["ids"]:
            problems.append(("row-group-unreadable-through-summary", "%s: read through the summary %s, the file holds %s" % (p, ids, f["ids"][:8])))
    if len(set(refd)) != len(refd):
        problems.append(("file-referenced-twice", "%s" % sorted(p for p in set(refd) if refd.count(p) > 1)))
    unref = sorted(set(obs["files"]) - set(refd))
    if unref and not orphans_ok:       # (a FAILED operation earlier in the history may leave unreferenced part files behind)
        problems.append(("unreferenced-part-file", "%s" % unref[:4]))
    if obs["other"]:
        problems.append(("stray-file", "%s" % obs["other"][:4]))
    tot = sum(n for _, n, _ in obs["summary"])
    if obs["num_rows"] != tot or (obs["read"] is not None and obs["num_rows"] != len(obs["read"])):
        problems.append(("num_rows-wrong", "summary num_rows %d, row groups state %d, read %s" % (obs["num_rows"], tot, None if obs["read"] is None else len(obs["read"]))))
    for p, f in obs["files"].items():
        if f.get("schema") is not None and f["schema"] != obs["schema"]:
            problems.append(("schema-mismatch", "%s: %s vs summary %s" % (p, f["schema"], obs["schema"])))
            break
    return problems


def oracle_more(h, si, obs):
    """the reused handle against a fresh open; the partition values every row is read back with"""
    problems = []
    if "handle" in obs and "open_error" not in obs:
        # the long-lived handle that made the operation(s) must read what a fresh open reads (content, row groups, num_rows)
        hv = obs["handle"]
        fresh = [[p_ for p_, _, _ in obs["summary"]], obs["num_rows"], obs["read"]]
        if isinstance(hv, str):
            problems.append(("handle-read-fails", "reading through the handle that made the operations fails: %s" % hv))
        elif obs["read"] is not None and hv != fresh:
            what = "row-group paths" if hv[0] != fresh[0] else ("num_rows" if hv[1] != fresh[1] else "rows read")
            problems.append(("handle-differs-from-fresh-open", "%s: the handle that made the operations has %s, a fresh open %s" % (
                what, str(hv[{"row-group paths": 0, "num_rows": 1, "rows read": 2}[what]])[:120], str(fresh[{"row-group paths": 0, "num_rows": 1, "rows read": 2}[what]])[:120])))
    if obs.get("keys"):
        pt_ = h.get("ptypes") or DEFAULT_PTYPES
        written = {r["x"]: r for oo in h["ops"][:si + 1] for r in oo.get("frame", [])}
        for c, got in obs["keys"].items():
            bad = [(i, g, norm_key(pt_[c], written[i][c])) for i, g in zip(obs["key_ids"], got) if i in written and g != norm_key(pt_[c], written[i][c])]
            if bad:
                problems.append(("partition-value-differs", "row x=%d was written with %s=%r and is read back with %r (%d such rows)" % (
                    bad[0][0], c, bad[0][2], bad[0][1], len(bad))))
                break
    if obs.get("y"):
        # content per COLUMN: the value column of every row as it was written (an int64 y frame is stored in the summary's double column)
        wy = {}
        for oo in h["ops"][:si + 1]:
            for r in oo.get("frame", []):
                wy[r["x"]] = float(int(r["y"] * 2)) if oo.get("y_int") else float(r["y"])
        bad = [(i, g, wy[i]) for i, g in obs["y"] if i in wy and g != wy[i]]
        if bad:
            problems.append(("column-value-differs", "row x=%d was written with y=%r and is read back with y=%r (%d such rows)" % (bad[0][0], bad[0][2], bad[0][1], len(bad))))
    return problems


def files_sx(l):
    return [[bytes(p).decode(), [int(x) for x in ids]] for p, ids in l]


def sortnames_translator(ctx):
    """translators/sortnames2coq.py: ParquetFile._sort_part_names regenerated as Gallina and proved equal to Edit.sort_pnames_fixed
    (coq/genproofs/GenSortNamesProofs.v: C09_sort_part_names on the regenerated text); fail closed -> translator_fallback note"""
    import sys
    sys.path.insert(0, C.VERIF)
    from translators import sortnames2coq
    r = sortnames2coq.run(C.REPO, ctx.gen_dir)
    ctx.extra.setdefault("translator", {})["GenSortNames"] = {k: v for k, v in r.items() if k not in ("file", "text")}
    if r["status"] != "translated":
        ctx.notes.append("translator_fallback: GenSortNames: %s" % r["reason"])
        return False
    ok, out = C.coqc(r["file"], extra_q=[(ctx.gen_dir, "PqGen")])
    if not ok:
        ctx.notes.append("translator_fallback: GenSortNames: generated file rejected by coqc: %s" % out[-300:])
        ctx.extra["translator"]["GenSortNames"]["status"] = "translator_fallback"
        return False
    ctx.coq_file(os.path.join(C.COQ, "genproofs", "GenSortNamesProofs.v"), extra_q=[(ctx.gen_dir, "PqGen")])
    return True


def run(ctx):
    C.coq_lib()
    ctx.trusted = TRUSTED
    ctx.coq_file(os.path.join(C.COQ, "props", "C09.v"))
    bad = C.hygiene()
    ctx.obligation("hygiene: no Admitted/Axiom/Parameter/... in coq/", not bad, "; ".join(bad))
    from harness import dsfs
    dsfs.partnames_translator(ctx)
    sortnames_translator(ctx)
    if not ctx.quick():
        from harness import dsedit2_lib as _L
        _L.coqchk(ctx, ["Pq.Proofs.EditHistory"])
    C.use_shadow()
    C.pqref()
    rng = ctx.rng
    nh = 300 if ctx.quick() else 3000
    ctx.rule = ("history = initial hive write (0..2 partition columns, 1..8 rows, 1..4 row groups) + 0..5 operations over {append, append='overwrite', "
                "remove_row_groups(subset, sort_pnames), write_row_groups(sort_key in none/partition/num_rows, sort_pnames)} with generated frames; a fresh "
                "ParquetFile is opened for every step and for every observation; a case is (history, step); the initial write of a history is the only trivial one; "
                "partition values are drawn per history from pools of which two hold prefix-related texts (k in 1/10/11/2/21, j in a/ab/abc/b) and every new frame "
                "from the whole pool, one value only, or a random subset; plus the DESIGN witness history, 3 prefix-value and 5 value-kind witness histories and 2 "
                "histories that empty the dataset and append again (finding fixed by 05c32a7)")
    hs = [design_witness(), emptied_history(["k"], 900002), emptied_history([], 900003)] + prefix_witnesses() + kind_witnesses() + null_key_witnesses() + name_witnesses() + [user_open_witness()] + [gen_history(rng, i) for i in range(nh)]
    cdir = os.path.join(C.VERIF, "corpus", "C09")
    if os.path.isdir(cdir):
        for i, f in enumerate(sorted(os.listdir(cdir))):
            h = json.load(open(os.path.join(cdir, f)))["history"]
            h["id"] = 100000 + i
            hs.insert(0, h)
    results = C.pmap(run_history, [(h, ctx.scratch) for h in hs], nproc=8 if ctx.quick() else 12, job_timeout=30)
    by_id = {h["id"]: h for h in hs}
    # a history whose worker process crashed (segfault / abort in native code) or hung: find the shortest crashing prefix and
    # report it as a failing input - the dataset cannot be read back at all
    crashed = [(h, r) for h, r in zip(hs, results) if isinstance(r, dict) and "__crashed__" in r]
    for h, r in crashed[:5]:
        pre = [{"id": h["id"] * 10 + n, "pcols": h["pcols"], "ptypes": h.get("ptypes"), "user_open": h.get("user_open"), "one_handle": h.get("one_handle"), "ops": h["ops"][:n]} for n in range(1, len(h["ops"]) + 1)]
        rr = C.pmap(run_history, [(x, ctx.scratch) for x in pre], nproc=4, job_timeout=30)
        bad = [x for x, y in zip(pre, rr) if isinstance(y, dict) and "__crashed__" in y]
        hh = bad[0] if bad else h
        o = hh["ops"][-1]
        ctx.fail({"component": "dataset-edit", "symptom": "process-crashed-or-hung", "op": o["op"], "partitioned": bool(h["pcols"]),
                  "emptied_before": False, "sort_pnames": bool(o.get("sort_pnames") or o["op"] == "overwrite")},
                 {"history": {"id": h["id"], "pcols": h["pcols"], "ptypes": h.get("ptypes"), "user_open": h.get("user_open"), "one_handle": h.get("one_handle"), "ops": hh["ops"]}, "step": len(hh["ops"]) - 1, "observed": r["__crashed__"]},
                 "running / observing this history kills or hangs the process: %s" % r["__crashed__"])
    if len(crashed) > 5:
        ctx.notes.append("%d histories crashed the worker process; 5 reported" % len(crashed))
    keep = [i for i, r in enumerate(results) if not (isinstance(r, dict) and "__crashed__" in r)]
    hs = [hs[i] for i in keep]
    results = [results[i] for i in keep]
    cmds = []
    for res in results:
        if res["error"]:
            raise RuntimeError("history %d failed in the harness:\n%s" % (res["id"], res["error"]))
        cmds.append(("edit_hist", MODEL_MODE, model_ops(by_id[res["id"]], res["resolved"])))
    pq = C.Pqref()
    outs = pq.batch(cmds)
    pq.close()
    if len(outs) != len(cmds):
        raise RuntimeError("pqref answered %d of %d commands" % (len(outs), len(cmds)))
    from harness import dsedit2_lib as L
    ctx.extra["extraction_vs_kernel_examples"] = L.extract_agreement(ctx, "C09", cmds, outs)
    nfailing = 0
    for res, mo in zip(results, outs):
        h = by_id[res["id"]]
        if nfailing >= MAX_FAILING:          # enough failing histories reported: keep the wall time bounded on a broken tree
            ctx.count("skipped_after_failure_cap", 1)
            continue
        ctx.count("partition_columns", len(h["pcols"]))
        ctx.count("history_length", len(h["ops"]))
        ctx.count("open_with", "user function" if h.get("user_open") else "default")
        ctx.count("handle", "one long-lived handle for every operation after the first write" if h.get("one_handle") else "fresh handle per operation")
        ctx.count("frames_with_missing_partition_keys", sum(1 for o in h["ops"] if any(r[c] is None for r in o.get("frame", []) for c in h["pcols"])))
        ctx.count("partition_value_kinds", "/".join((h.get("ptypes") or DEFAULT_PTYPES)[c] for c in h["pcols"]) or "-")
        if not isinstance(mo, list) or len(mo) != len(h["ops"]):
            ctx.correspondence("edit_hist answers one record per step", {"history": h["id"]}, len(h["ops"]), mo)
            continue
        diverged = False       # names / summary left the model but the property still held: later steps are judged by the oracle only
        for si, (o, obs, m) in enumerate(zip(h["ops"], res["steps"], mo)):
            acc, mdir, msum, mnum, minv, mread, mabs, mspec, msch, mpart = m
            ref_schema = res["steps"][0].get("schema")

            def sid(x):
                return SCHEMA_ID if (x is not None and x == ref_schema) else 2
            short = {"history": h["id"], "step": si, "op": o["op"], "pcols": h["pcols"], "sort_pnames": o.get("sort_pnames"), "sort_key": o.get("sort_key")}
            case = {"history": {"id": h["id"], "pcols": h["pcols"], "ptypes": h.get("ptypes"), "user_open": h.get("user_open"), "one_handle": h.get("one_handle"), "ops": h["ops"][:si + 1]}, "step": si}
            ctx.case({"h": h["ops"][:si + 1], "p": h["pcols"]}, trivial=si == 0)
            ctx.count("op", o["op"] + ("/sort_pnames" if o.get("sort_pnames") else ""))
            ctx.count("row_groups_after", min(len(msum), 12))
            spec = files_sx(mspec[0]) if mspec else None
            # oracle first (the real state against the property's text and the plain model)
            orphans_ok = any(oo["op"] == "failed_writergs" for oo in h["ops"][:si + 1])
            problems = oracle(obs, spec, orphans_ok)
            problems += oracle_more(h, si, obs)
            refused = bool(obs["raised"])
            if o["op"] == "failed_writergs":
                if not refused:
                    problems.insert(0, ("failing-operation-returned-normally", "write_row_groups whose data source raises returned normally"))
                refused = False          # the model's step for it is the edit that changes nothing
            if refused and spec is not None and o["op"] != "write":
                problems.insert(0, ("operation-refused", "%s raised %s" % (o["op"], obs["raised"])))
            emptied = si > 0 and not res["steps"][si - 1].get("summary")
            newfail = False
            for sym, text in problems:
                newfail |= ctx.fail({"component": "dataset-edit", "symptom": sym, "op": o["op"], "partitioned": bool(h["pcols"]),
                          "emptied_before": bool(emptied), "sort_pnames": bool(o.get("sort_pnames") or o["op"] == "overwrite")},
                         {**case, "observed": {"raised": obs["raised"], "summary": obs.get("summary"), "files": {k: v.get("ids") for k, v in obs["files"].items()},
                                               "num_rows": obs.get("num_rows"), "read": obs.get("read")}}, text)
            if diverged:
                if problems:
                    nfailing += 1 if newfail else 0
                    break
                continue
            # the model's own claims
            if not minv:
                ctx.correspondence("check_inv(model state) = true after every step", short, 1, minv)
            else:
                ctx.correspondence("check_inv(model state) = true after every step", short, 1, 1)
            # correspondences
            ok = ctx.correspondence("accepted/refused: model step = real call", short, "accepted" if acc else "refused", "refused" if refused else "accepted")
            if "open_error" in obs:
                ctx.correspondence("summary row-group list (path, rows read through the summary): model = real", short, files_sx(msum), obs["open_error"])
                break
            rsum = [[p, ids] for p, _, ids in obs["summary"]]
            rdir = sorted([p, f["ids"]] for p, f in obs["files"].items() if not orphans_ok or p in [q for q, _, _ in obs["summary"]])
            mfiles = files_sx(mdir)                     # model content of a file = schema id :: row ids
            ctx.correspondence("schema ids (summary, every data file): model = real", short,
                               [msch, sorted([p, c[0] if c else None] for p, c in mfiles)],
                               [sid(obs.get("schema")),
                                sorted([p, sid(f.get("schema"))] for p, f in obs["files"].items() if not orphans_ok or p in [q for q, _, _ in obs["summary"]])])
            mdir = [[p.encode(), c[1:]] for p, c in mfiles]
            ok &= ctx.correspondence("summary row-group list (path, rows read through the summary): model = real", short, files_sx(msum), rsum)
            ok &= ctx.correspondence("directory listing (path -> rows held): model = real", short, sorted(files_sx(mdir)), rdir)
            ctx.correspondence("summary up to file names (partition directory, rows): model = real", short,
                               [[dir_of(p), ids] for p, ids in files_sx(msum)], [[dir_of(p), ids] for p, ids in rsum])
            ctx.correspondence("directory up to file names (multiset of (partition directory, rows)): model = real", short,
                               sorted([dir_of(p), ids] for p, ids in files_sx(mdir)), sorted([dir_of(p), ids] for p, ids in rdir))
            ctx.correspondence("num_rows field: model = real", short, mnum, obs["num_rows"])
            if "handle" in obs:
                # Handle.v `coherent`: the long-lived handle that made the operation equals a fresh open of the result
                ctx.correspondence("the reused handle's row-group list, num_rows and read = the model's summary (C09_handle_refines)", short,
                                   [[p for p, _ in files_sx(msum)], mnum, [i for _, ids in files_sx(msum) for i in ids]], obs["handle"])
            if spec is not None and acc:
                ctx.correspondence("abs(model state) = spec_step (plain model) on this history", short, files_sx(mabs), spec)
            if problems:
                nfailing += 1 if newfail else 0                   # reproductions of an open finding do not use up the cap
                break            # the real state has left the plain model: later steps of this history say nothing new
            if not ok:
                nfailing += 1
                diverged = True


def replay(rep):
    if rep.get("kind") == "no-failing-input-found":
        print(json.dumps(rep, indent=1)[:6000])
        return 1
    C.use_shadow()
    h = rep["case"]["history"]
    tmp = tempfile.mkdtemp(prefix="verif-C09-replay-", dir="/tmp")
    try:
        res = C.pmap(run_history, [(h, tmp)], nproc=1, job_timeout=300)[0]       # in a child: a crash is an observation
        if "__crashed__" in res:
            print("history: %s" % [{k: v for k, v in o.items() if k != "frame"} for o in h["ops"]])
            print("PROPERTY FAILS: process-crashed-or-hung: %s" % res["__crashed__"])
            return 1
        if res["error"]:
            print(res["error"])
            return 1
        pq = C.Pqref()
        mo = pq.call("edit_hist", 1, model_ops(h, res["resolved"]))
        pq.close()
        bad = 0
        for si, (o, obs, m) in enumerate(zip(h["ops"], res["steps"], mo)):
            spec = files_sx(m[7][0]) if m[7] else None
            desc = {k: v for k, v in o.items() if k != "frame"}
            if "frame" in o:
                desc["rows"] = [(r["x"], r["k"], r["j"]) for r in o["frame"]]
            print("step %d: %s" % (si, desc))
            print("   raised: %s" % obs["raised"])
            print("   summary: %s  num_rows=%s" % (obs.get("summary"), obs.get("num_rows")))
            print("   files:   %s" % {k: v.get("ids") for k, v in obs["files"].items()})
            print("   read:    %s" % obs.get("read"))
            print("   plain model predicts: %s" % spec)
            problems = oracle(obs, spec, any(oo["op"] == "failed_writergs" for oo in h["ops"][:si + 1])) + oracle_more(h, si, obs)
            if o["op"] == "failed_writergs" and not obs["raised"]:
                problems.insert(0, ("failing-operation-returned-normally", "write_row_groups whose data source raises returned normally"))
            if obs["raised"] and spec is not None and o["op"] not in ("write", "failed_writergs"):
                problems.insert(0, ("operation-refused", obs["raised"]))
            for sym, text in problems:
                print("   PROPERTY FAILS: %s: %s" % (sym, text))
                bad = 1
            if problems:
                break
        return bad
    finally:
        shutil.rmtree(tmp, ignore_errors=True)
