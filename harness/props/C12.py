"""C12 — native code stays inside its buffers and the process never crashes (DESIGN.md section 6, C12). LEVEL: partial.

 1. coqc props/C12.v: inside the limits no impl model returns OOB/UB and decoders write at most the capacity
    (corollaries of the C11 theorems); computed witnesses outside the limits.
 2. the C11 case lattice (thinned to the boundary points, inputs and outputs in exactly-sized heap allocations) is run
    against a second build of cencoding.c / speedups.c with -fsanitize=address,undefined in subprocesses under
    LD_PRELOAD=libasan; correspondence: impl-model verdict Ok <=> no sanitizer report, exit status 0, and the same
    bytes/cursors as the model; model verdict OOB/UB => must be a listed finding.
"""
import json
import os

from harness import common as C
from harness import codec_lib as L
from harness import codec_cases as K

TRUSTED = [
    "Coq 8.16.1 kernel + coqc; vm_compute for the computed witnesses; no native_compute",
    "extraction: ExtrOcamlBasic only; ocaml/driver.ml",
    "LIMIT: a theorem about the Gallina impl models is not memory safety of compiled C; the models are tied to the binary only by "
    "this run: the ASan+UBSan build agreed with the model's verdict (and bytes) on every case of the lattice",
    "gcc 12 -O1 -g -fsanitize=address,undefined -fno-sanitize=shift-base -fwrapv build of the .c files; libasan/libubsan runtimes; "
    "what the sanitizers can see: heap red zones around exactly-sized numpy allocations, shifts >= width, not intra-buffer mistakes",
    "impl models hand-transcribed from cencoding.c / speedups.c (C11 trusted base)",
    "Python glue: case generators, exact-size buffers, report classification (AddressSanitizer / runtime error / signal)",
    "covered: the codec routines (C11 lattice). The thrift serialiser (C10) and the list assembler (C15) are checked by their own properties",
]


def run(ctx):
    C.coq_lib()
    ctx.trusted = TRUSTED
    ctx.coq_file(os.path.join(C.COQ, "props", "C12.v"))
    bad = C.hygiene()
    ctx.obligation("hygiene: no Admitted/Axiom/Parameter/... in coq/", not bad, "; ".join(bad))
    diffs = C.pyx_vs_c()
    ctx.obligation("compiled code corresponds to the .pyx source (DESIGN 4.5)", not diffs,
                   "source and compiled code differ; the property is shown for the compiled code only: %r" % (diffs[:5],))
    C.shadow(sanitize=True)
    ctx.rule = ("the C11 lattice thinned to the boundary points (widths {0,1,3,8,9,16,23,24,25,26,31,32}, delta widths "
                "{0,1,8,24,28,29,32,33,56,57,63,64}, patterns ones/random, capacities 0 / count-1 / count / count+1 items), every input "
                "and output buffer an exactly-sized heap allocation, no byte behind the encoded run; trivial = nothing to decode; "
                "known-unsafe regions form the 'confirm' stream")
    cases = K.generate(ctx.rng, ctx.quick(), c12=True)
    ctx.extra["lattice"] = K.lattice_summary(cases)
    K.check_cases(ctx, "C12", cases, os.path.join(ctx.scratch, "real"), sanitize=True, memory_only=True)
    ctx.assume = ["level partial: the claim is 'the model's bounds arithmetic is proved and the sanitised binary agreed with the model "
                  "on every input of this run'"]


def replay(rep):
    if rep.get("kind") == "no-failing-input-found":
        print(json.dumps(rep, indent=1)[:6000])
        return 1
    return K.replay_case(rep["case"], sanitize=True, memory_only=True)
