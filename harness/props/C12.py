"""C12 — native code stays inside its buffers and the process never crashes (DESIGN.md section 6, C12). LEVEL: partial.

 1. coqc props/C12.v: inside the limits no impl model returns OOB/UB and decoders write at most the capacity
    (corollaries of the C11 theorems); computed witnesses outside the limits.
 2. the C11 case lattice (thinned to the boundary points, inputs and outputs in exactly-sized heap allocations) is run
    against a second build of cencoding.c / speedups.c with -fsanitize=address,undefined in subprocesses under
    LD_PRELOAD=libasan; correspondence: impl-model verdict Ok <=> no sanitizer report, exit status 0, and the same
    bytes/cursors as the model; model verdict OOB/UB => must be a listed finding.
"""
import json
import os

from harness import common as C
from harness import codec_lib as L
from harness import codec_cases as K

TRUSTED = [
    "Coq 8.16.1 kernel + coqc; vm_compute for the computed witnesses; no native_compute",
    "extraction: ExtrOcamlBasic only; ocaml/driver.ml",
    "LIMIT: a theorem about the Gallina impl models is not memory safety of compiled C; the models are tied to the binary only by "
    "this run: the ASan+UBSan build agreed with the model's verdict (and bytes) on every case of the lattice",
    "gcc 12 -O1 -g -fsanitize=address,undefined -fno-sanitize=shift-base -fwrapv build of the .c files; libasan/libubsan runtimes; "
    "what the sanitizers can see: heap red zones around exactly-sized numpy allocations, shifts >= width, not intra-buffer mistakes",
    "impl models hand-transcribed from cencoding.c / speedups.c (C11 trusted base)",
    "Python glue: case generators, exact-size buffers, report classification (AddressSanitizer / runtime error / signal)",
    "covered: the codec routines (C11 lattice). The thrift serialiser (C10) and the list assembler (C15) are checked by their own properties",
]


def run(ctx):
    C.coq_lib()
    ctx.trusted = TRUSTED
    # coqc of the theorem file (~30 s: 30 Print Assumptions) runs while the real code is exercised
    import threading
    coq_thread = threading.Thread(target=ctx.coq_file, args=(os.path.join(C.COQ, "props", "C12.v"),))
    coq_thread.start()
    try:
        bad = C.hygiene()
        ctx.obligation("hygiene: no Admitted/Axiom/Parameter/... in coq/", not bad, "; ".join(bad))
        diffs = C.pyx_vs_c()
        ctx.obligation("compiled code corresponds to the .pyx source (DESIGN 4.5)", not diffs,
                       "source and compiled code differ; the property is shown for the compiled code only: %r" % (diffs[:5],))
        C.shadow(sanitize=True)
        ctx.rule = ("the C11 lattice thinned to the boundary points (widths {0,1,3,8,9,16,23,24,25,26,31,32}, delta widths "
                    "{0,1,8,24,28,29,32,33,56,57,63,64}, patterns ones/random, capacities 0 / count-1 / count / count+1 items), every input "
                    "and output buffer an exactly-sized heap allocation, no byte behind the encoded run; trivial = nothing to decode; "
                    "known-unsafe regions form the 'confirm' stream")
        cases = K.generate(ctx.rng, ctx.quick(), c12=True)
        ctx.extra["lattice"] = K.lattice_summary(cases)
        K.check_cases(ctx, "C12", cases, os.path.join(ctx.scratch, "real"), sanitize=True, memory_only=True)
        files_stream(ctx)
        ctx.assume = ["level partial: the claim is 'the model's bounds arithmetic is proved and the sanitised binary agreed with the model "
                      "on every input of this run'"]
    finally:
        coq_thread.join()


def files_stream(ctx):
    """Valid files (the repository's test-data: foreign writers, nested, v2 pages, dictionaries, byte arrays, thrift of
    every shape) read end to end under the sanitised build: no model here - the oracle is the property itself
    (no sanitizer report, no signal; a Python exception is allowed)."""
    import subprocess
    from concurrent.futures import ThreadPoolExecutor
    root = C.shadow(sanitize=True)
    td = os.path.join(C.REPO, "test-data")
    paths = []
    for e in sorted(os.listdir(td)):
        p = os.path.join(td, e)
        if e.endswith((".parquet", ".parq")) or (os.path.isdir(p) and (os.path.exists(os.path.join(p, "_metadata"))
                                                                       or any(x.endswith((".parquet", ".parq")) for x in os.listdir(p)))):
            paths.append(p)
    modes = ["default"] if ctx.quick() else ["default", "nonulls", "rowgroups"]
    jobs = [(p, m) for p in paths for m in modes]
    env = dict(os.environ)
    env.update({"LD_PRELOAD": L.ASAN_LIB, "PYTHONDONTWRITEBYTECODE": "1", "OMP_NUM_THREADS": "1",
                "ASAN_OPTIONS": "detect_leaks=0:abort_on_error=0:exitcode=77:allocator_may_return_null=1",
                "UBSAN_OPTIONS": "halt_on_error=0:print_stacktrace=0"})
    worker = os.path.join(os.path.dirname(os.path.abspath(L.__file__)), "codec_files_worker.py")

    def job(pm):
        p, m = pm
        try:
            r = subprocess.run([C.PY, worker, root, p, m], env=env, stdout=subprocess.PIPE, stderr=subprocess.PIPE, timeout=300)
            return pm, r.returncode, r.stdout.decode("utf-8", "replace"), r.stderr.decode("utf-8", "replace")
        except subprocess.TimeoutExpired:
            return pm, -999, "", "TIMEOUT"
    with ThreadPoolExecutor(6 if ctx.quick() else 8) as ex:
        results = list(ex.map(job, jobs))
    for (p, m), rc, out, err in results:
        rel = os.path.relpath(p, C.REPO)
        case = {"stream": "files", "path": rel, "mode": m}
        ctx.case(case)
        ctx.count("files stream", "read")
        res = None
        for line in out.split("\n"):
            if line.startswith("@@RESULT "):
                res = json.loads(line[9:])
        report = None
        for line in err.split("\n"):
            if "AddressSanitizer" in line or "runtime error" in line:
                report = line.strip()[:300]
                break
        frames = []
        for line in err.split("\n"):
            mm = __import__("re").search(r"#\d+ 0x[0-9a-f]+ in __pyx_[a-z]+_\d+fastparquet_\d+(?:cencoding|speedups)_(?:\d+)?(\w+)", line)
            if mm and mm.group(1) not in frames:
                frames.append(mm.group(1))
        where = "<".join(frames[:2])
        ctx.count("files stream outcome", (res or {}).get("status", "died") if not report else "sanitizer-report")
        if report or rc != 0 or res is None:
            kind = "asan" if (report and "AddressSanitizer" in report) else ("ubsan" if report else "crash")
            ctx.fail({"component": "file-read", "stream": "files", "file": os.path.basename(rel), "mode": m, "kind": kind,
                      "where": where},
                     dict(case, replay="LD_PRELOAD=%s python harness/codec_files_worker.py <C.shadow(sanitize=True)> %s %s" % (L.ASAN_LIB, rel, m)),
                     "reading a valid file under the sanitised build: exit status %r, %s" % (rc, report or err.strip()[-300:]))


def replay(rep):
    if rep.get("kind") == "no-failing-input-found":
        print(json.dumps(rep, indent=1)[:6000])
        return 1
    if rep["case"].get("stream") == "files":
        return replay_file(rep["case"])
    return K.replay_case(rep["case"], sanitize=True, memory_only=True)


def replay_file(case):
    import subprocess
    root = C.shadow(sanitize=True)
    env = dict(os.environ)
    env.update({"LD_PRELOAD": L.ASAN_LIB, "ASAN_OPTIONS": "detect_leaks=0:exitcode=77:allocator_may_return_null=1",
                "UBSAN_OPTIONS": "halt_on_error=0:print_stacktrace=1"})
    worker = os.path.join(os.path.dirname(os.path.abspath(L.__file__)), "codec_files_worker.py")
    r = subprocess.run([C.PY, worker, root, os.path.join(C.REPO, case["path"]), case["mode"]], env=env,
                       stdout=subprocess.PIPE, stderr=subprocess.PIPE, timeout=600)
    print(r.stdout.decode("utf-8", "replace")[-800:])
    err = r.stderr.decode("utf-8", "replace")
    print(err[:3000])
    bad = r.returncode != 0 or "AddressSanitizer" in err or "runtime error" in err
    print("=> exit status %d: property %s on this file" % (r.returncode, "FAILS" if bad else "holds"))
    return 1 if bad else 0
