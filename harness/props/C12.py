"""C12 — native code stays inside its buffers and the process never crashes (DESIGN.md section 6, C12). LEVEL: partial.

 1. coqc props/C12.v: inside the limits no impl model returns OOB/UB and decoders write at most the capacity
    (corollaries of the C11 theorems); computed witnesses outside the limits.
 2. the C11 case lattice (thinned to the boundary points, inputs and outputs in exactly-sized heap allocations) is run
    against a second build of cencoding.c / speedups.c with -fsanitize=address,undefined in subprocesses under
    LD_PRELOAD=libasan; correspondence: impl-model verdict Ok <=> no sanitizer report, exit status 0, and the same
    bytes/cursors as the model; model verdict OOB/UB => must be a listed finding.
"""
import json
import os

from harness import common as C
from harness import codec_lib as L
from harness import codec_cases as K

TRUSTED = [
    "Coq 8.16.1 kernel + coqc; vm_compute for the computed witnesses; no native_compute",
    "extraction: ExtrOcamlBasic only; ocaml/driver.ml",
    "LIMIT: a theorem about the Gallina impl models is not memory safety of compiled C; the models are tied to the binary only by "
    "this run: the ASan+UBSan build agreed with the model's verdict (and bytes) on every case of the lattice",
    "gcc 12 -O1 -g -fsanitize=address,undefined -fno-sanitize=shift-base -fwrapv build of the .c files; libasan/libubsan runtimes; "
    "what the sanitizers can see: heap red zones around exactly-sized numpy allocations, shifts >= width, not intra-buffer mistakes",
    "impl models hand-transcribed from cencoding.c / speedups.c (C11 trusted base)",
    "Python glue: case generators, exact-size buffers, report classification (AddressSanitizer / runtime error / signal)",
    "covered: the codec routines (C11 lattice). The thrift serialiser (C10) and the list assembler (C15) are checked by their own properties",
    "translators/dispatch2coq.py + Impl/Dispatch.v (C11 trusted base): the callers' allocation (np.empty(n, dtype)) and the itemsize they pass are "
    "read off the source by call shape; the observed-call correspondence and the page readers run under ASan are the tie",
]


def run(ctx):
    C.coq_lib()
    ctx.trusted = TRUSTED
    # coqc of the theorem file (~30 s: 30 Print Assumptions) runs while the real code is exercised
    import threading
    coq_thread = threading.Thread(target=K.coq_obligations, args=(ctx, "C12"))
    coq_thread.start()
    try:
        bad = C.hygiene()
        ctx.obligation("hygiene: no Admitted/Axiom/Parameter/... in coq/", not bad, "; ".join(bad))
        diffs = C.pyx_vs_c()
        ctx.obligation("compiled code corresponds to the .pyx source (DESIGN 4.5)", not diffs,
                       "source and compiled code differ; the property is shown for the compiled code only: %r" % (diffs[:5],))
        C.shadow(sanitize=True)
        # the callers: the (bit width, selfmade) chains of the page readers regenerated as Gallina; re-proved on it: the generic
        # decoder is entered only inside the region where its model is proved safe (never width 0, item sizes 1/4, own pages take
        # the array view).  The decoder clamps to whatever capacity it is handed (C12_safe_partial), so value-level adequacy of
        # the allocation is C11's obligation; C12_caller_allocation_fits states the exact byte count for adequate leaves.
        from harness import codec_dispatch as D
        mode, K.DISPATCH_TAB = D.translate_dispatch(ctx, proofs="GenDispatchSafetyProofs.v")
        ctx.rule = ("the C11 lattice thinned to the boundary points (widths {0,1,3,8,9,16,23,24,25,26,31,32}, delta widths "
                    "{0,1,8,24,28,29,32,33,56,57,63,64}, patterns ones/random, capacities 0 / count-1 / count / count+1 items), every input "
                    "and output buffer an exactly-sized heap allocation, no byte behind the encoded run; trivial = nothing to decode; "
                    "known-unsafe regions form the 'confirm' stream")
        cases = K.generate(ctx.rng, ctx.quick(), c12=True)
        ctx.extra["lattice"] = K.lattice_summary(cases)
        # the three streams only wait for subprocesses: they run side by side, all bookkeeping happens in this thread
        from concurrent.futures import ThreadPoolExecutor
        rtc = roundtrip_cases(ctx)
        pool = ThreadPoolExecutor(2)
        f_files = pool.submit(files_collect, ctx.quick(), ctx.scratch)
        f_rt = pool.submit(roundtrip_collect, rtc, ctx.scratch, ctx.quick())
        K.check_cases(ctx, "C12", cases, os.path.join(ctx.scratch, "real"), sanitize=True, memory_only=True)
        files_judge(ctx, *f_files.result())
        roundtrip_judge(ctx, *f_rt.result())
        pool.shutdown()
        ctx.assume = ["level partial: the claim is 'the model's bounds arithmetic is proved and the sanitised binary agreed with the model "
                      "on every input of this run'"]
    finally:
        coq_thread.join()


def roundtrip_cases(ctx):
    """The real writer and reader end to end under the sanitised build: generated frames (harness/frames.py: every dtype
    kind, null patterns, categoricals) x write options (harness/rt.py: v1/v2 pages, multi-page, codecs, has_nulls, stats,
    row groups, hive).  Only the memory-safety side is judged here (C01 compares the values): a sanitizer report, a signal
    or a hang is a failure with the frame spec + options as replay."""
    from harness import frames as F
    from harness import rt
    rng = ctx.rng
    n_rt = 120 if ctx.quick() else 700
    cases = []
    for i in range(n_rt):
        spec = F.gen_spec(rng, n=rng.choice([0, 1, 2, 7, 8, 9, 63, 64, 65, 300] + ([] if ctx.quick() else [1000, 8193])))
        o = rt.gen_opts(rng, spec)
        if i % 3 == 0:
            o["dpv"] = 2                      # data page v2 + OPTIONAL columns: the path with the most native calls
            o["has_nulls"] = True
        cases.append({"fn": "rt", "spec": spec, "opts": o, "stream": "main"})
    # two crashes reported on the unchanged tree (thrift serialiser, C10's code): kept as a confirmation stream
    # concurrent well-formed use of ONE handle (threads reading different columns, short switch interval)
    for k, (scheme, dpv, comp) in enumerate([("simple", 1, None), ("simple", 2, None)] if ctx.quick() else
                                            [("simple", 1, None), ("simple", 2, None), ("hive", 1, None), ("simple", 1, "GZIP"), ("simple", 2, "GZIP")]):
        cases.append({"fn": "mt_read", "n": 4000, "per_rg": 100, "rounds": 12 if ctx.quick() else 40, "switch": 1e-5, "scheme": scheme,
                      "dpv": dpv, "compression": comp, "seed": rng.randrange(1 << 30),
                      "threads": [["s"], ["i"], ["b"], ["f", "c"], ["s", "j"], ["i"]], "stream": "main"})
    # column chunks as other writers lay them out (PARQUET-816 shape: total_compressed_size without the dictionary page header) x
    # created_by variants: the buffer handed to the native decoders must cover the pages whatever the writer calls itself
    cbs = [None, "parquet-mr", "parquet-mr version 1.2", "parquet-mr version 1.2.8 (build abc)", "parquet-mr version 1.8.1 (build def)",
           "impala version 1.2.1", "parquet-cpp version 1.5.1-SNAPSHOT", "Apache Drill", "fastparquet-python version 2024.2.0 (build 0)", ""]
    for cb in cbs:
        for shape in (True, False):
            if not shape and ctx.quick() and cb not in (None, "parquet-mr"):
                continue
            for n, ncat in (((4000, 40),) if ctx.quick() else ((4000, 40), (800, 3), (40000, 300))):
                cases.append({"fn": "foreign_chunk", "n": n, "ncat": ncat, "shape816": shape, "created_by": cb, "single": True, "stream": "main"})
    # other layouts of the same chunk: pages of more than 64 KiB with 16-bit indices, data page v2, several row groups (row counts are
    # multiples of 8: the index runs are whole groups), a second column behind the chunk
    for cb in (None, "parquet-mr", "parquet-mr version 1.2.8 (build abc)"):
        for kw in ({"n": 80000, "ncat": 300}, {"n": 80000, "ncat": 300, "dpv": 2}, {"n": 8000, "ncat": 40, "rg_rows": 800, "single": False},
                   {"n": 4000, "ncat": 2, "dpv": 2}):
            cases.append(dict({"fn": "foreign_chunk", "shape816": True, "created_by": cb, "single": True, "stream": "main"}, **kw))
    # long NON-ASCII text reaching the footer through each API path.  Pinned estimate of ThriftObject.to_bytes: max(500000, 1000 * row groups *
    # schema elements + len(str(key_value_metadata))) BYTES for text counted in CHARACTERS: caller-given str values of custom_metadata above
    # ~166 000 characters overflow (the open finding, confirmation case kv_nonascii_big); sizes just below must pass, and so must every other
    # path (attrs are stored \\u-escaped: 6 ASCII characters per character; bytes values are over-estimated by their repr)
    for path, sizes in (("attrs", (1000, 160000, 200000, 400000)), ("custom_metadata_str", (1000, 100000, 160000)),
                        ("custom_metadata_bytes", (1000, 200000, 400000)), ("column_name", (100, 5000, 20000)),
                        ("cat_labels", (100, 5000, 200000)), ("string_values", (100, 5000, 200000))):
        for chars in (sizes if not ctx.quick() else sizes[-2:]):
            cases.append({"fn": "nonascii_text", "path": path, "chars": chars, "stream": "main"})
    # zero-row chunks / empty batches / empty frames through every write path: written-and-equal or a Python exception, never a signal
    for scheme in ("simple", "hive", "drill"):
        for part in ((False, True) if scheme != "simple" else (False,)):
            ops = [{"op": "offsets", "offsets": [0, 3, 3]}, {"op": "offsets", "offsets": [0, 0, 3]}, {"op": "offsets", "offsets": [0, 3, 3, 3, 6]},
                   {"op": "empty_frame"}, {"op": "append_empty"}, {"op": "append_offsets", "offsets": [0, 2, 2]},
                   {"op": "write_row_groups", "cuts": [0, 2, 2, 6]}, {"op": "write_row_groups", "cuts": [0, 0, 6]},
                   {"op": "write_row_groups", "cuts": [0, 6, 6]}]
            if not ctx.quick():
                ops += [{"op": "offsets", "offsets": [0, 6]}, {"op": "offsets", "offsets": [0, 1, 1, 1]}, {"op": "write_row_groups", "cuts": [0, 0, 0]},
                        {"op": "append_offsets", "offsets": [0, 0]}]
            for o in ops:
                cases.append(dict({"fn": "empty_chunks", "n": 6, "scheme": scheme, "partition_on": part, "stream": "main"}, **o))
    # every value KIND a caller can pass where str / bytes are expected, through each metadata entry point: exception or intact file, never a signal
    kinds = ["bytearray", "memoryview", "np.bytes_", "np.str_", "int", "float", "None", "bool", "list", "tuple", "dict", "np.int64", "np.array",
             "object", "str-subclass", "bytes-subclass", "set", "nested-bytearray"]
    for entry in ("write_value", "write_key", "update_value", "update_key", "hive_value", "attrs_value", "fmd_kv"):
        for kind in kinds:
            if entry.endswith("_key") and kind in ("list", "dict", "set", "np.array", "nested-bytearray", "bytearray"):
                continue                      # (unhashable: cannot be a dict key at all)
            cases.append({"fn": "meta_value_kinds", "entry": entry, "kind": kind, "stream": "main"})
    # pinned defect (open finding, .pyx): a column name whose UTF-8 form alone exceeds the serialiser's fixed estimate
    cases.append({"fn": "nonascii_text", "path": "column_name", "chars": 100000, "stream": "confirm"})
    cases.append({"fn": "thrift_numpy_int", "stream": "confirm"})
    cases.append({"fn": "kv_nonascii_big", "n": 400000, "stream": "confirm"})
    return cases


def roundtrip_collect(cases, scratch, quick):
    worker = os.path.join(os.path.dirname(os.path.abspath(L.__file__)), "codec_rt_worker.py")
    main_cases = [c for c in cases if c["stream"] == "main"]
    conf_cases = [c for c in cases if c["stream"] == "confirm"]
    mt_cases = [c for c in main_cases if c["fn"] == "mt_read"]
    fc_cases = [c for c in main_cases if c["fn"] in ("foreign_chunk", "nonascii_text")]
    conf_cases = sorted(conf_cases, key=lambda c: c["fn"])
    main_cases = [c for c in main_cases if c["fn"] not in ("mt_read", "foreign_chunk", "nonascii_text")]
    real = L.run_real(main_cases, os.path.join(scratch, "rt"), sanitize=True, nproc=4 if quick else 8,
                      max_crashes=10, worker=worker, chunk=30, timeout=600)
    # the multi-threaded reads: one worker process each (a crash there must not take other cases with it)
    real += L.run_real(mt_cases, os.path.join(scratch, "rtm"), sanitize=True, nproc=len(mt_cases) or 1, max_crashes=3, worker=worker,
                       timeout=300, chunk=1)
    real += L.run_real(fc_cases, os.path.join(scratch, "rtf"), sanitize=True, nproc=4, max_crashes=len(fc_cases) + 1, worker=worker,
                       timeout=300, chunk=4)
    main_cases = main_cases + mt_cases + fc_cases
    real += L.run_real(conf_cases, os.path.join(scratch, "rtc"), sanitize=True, nproc=2, max_crashes=10, worker=worker,
                       timeout=300, chunk=1)
    return main_cases + conf_cases, real


def roundtrip_judge(ctx, cases, real):
    for c, r in zip(cases, real):
        if r[0] == "skipped":
            ctx.count("round trips not run (worker crashed too often)", 1)
            continue
        short = {"stream": "roundtrip", "fn": c["fn"], "spec": c.get("spec"), "opts": c.get("opts"), "n": c.get("n")}
        if c["fn"] in ("mt_read", "foreign_chunk", "nonascii_text", "empty_chunks", "meta_value_kinds"):
            short = dict({k: v for k, v in c.items() if k != "stream"}, stream="roundtrip")
        ctx.case(short, trivial=c["fn"] == "rt" and c["spec"]["n"] == 0)
        ctx.count("round-trip stream outcome", r[1] if r[0] in ("ok", "exc") else r[0])
        if c["fn"] == "rt":
            ctx.count("round-trip data page version", c["opts"]["dpv"])
        rr = r[3] if (r[0] == "ubsan" and len(r) > 3) else r
        if r[0] in ("crash", "asan", "ubsan", "missing"):
            kinds = sorted({col["kind"] for col in c["spec"]["cols"]}) if c["fn"] == "rt" else []
            cls = {"component": "roundtrip" if c["fn"] == "rt" else c["fn"], "stream": c["stream"], "kind": r[0],
                   "dpv": (c.get("opts") or c).get("dpv"), "where": _where(r[2] if len(r) > 2 else "")}
            if c["fn"] == "meta_value_kinds":
                cls.update({"entry": c["entry"], "value_kind": c["kind"]})
            if c["fn"] == "empty_chunks":
                cls.update({"scheme": c["scheme"], "op": c["op"], "partition_on": bool(c.get("partition_on"))})
            if c["fn"] == "thrift_numpy_int":
                cls["value_kind"] = "numpy-scalar"       # WHAT reached the compiled thrift setter unchecked (the open finding names it)
            if c["fn"] == "nonascii_text":
                cls["path"] = c["path"]            # WHICH API path delivered the non-ASCII text (the open finding: caller-given custom_metadata str)
            if c["fn"] == "foreign_chunk":
                cls["shape816"] = c["shape816"]
                cls["created_by"] = "absent" if c["created_by"] is None else (c["created_by"].split(" ")[0] or "empty")
            ctx.fail(cls,
                     short, "writer/reader under the sanitised build: %r; column kinds %s" % (r[:3], kinds))
        elif c["fn"] == "nonascii_text" and (r[0] == "exc" or (r[0] == "ok" and r[1] not in ("clean", "write-raised"))):
            ctx.fail({"component": "nonascii_text", "stream": c["stream"], "kind": "bad-read", "path": c["path"], "where": ""}, short,
                     "long non-ASCII text through %s (under the sanitised build): %r" % (c["path"], r[:3]))
        elif c["fn"] == "foreign_chunk" and (r[0] == "exc" or (r[0] == "ok" and r[1] != "clean")):
            ctx.fail({"component": "foreign_chunk", "stream": c["stream"], "kind": "bad-read", "shape816": c["shape816"],
                      "created_by": "absent" if c["created_by"] is None else c["created_by"].split(" ")[0], "where": ""}, short,
                     "a dictionary-encoded chunk laid out as other writers do (under the sanitised build): %r" % (r[:3],))
        elif c["fn"] == "mt_read" and (r[0] == "exc" or (r[0] == "ok" and r[1] != "clean")):
            # no memory error was SEEN, but a reader thread got an exception / other data from a well-formed file: the
            # native decoders were handed bytes that are not the page the metadata names
            ctx.fail({"component": "mt_read", "stream": c["stream"], "kind": "bad-read", "dpv": c.get("dpv"), "where": ""}, short,
                     "threads reading different columns of a well-formed file through one handle (under the sanitised build): %r" % (r[:3],))


def _where(report):
    import re
    m = re.search(r"in (\w+)|(\w+\.c:\d+)", str(report))
    return (m.group(1) or m.group(2)) if m else ""


def files_collect(quick, scratch):
    """Valid files (the repository's test-data: foreign writers, nested, v2 pages, dictionaries, byte arrays, thrift of
    every shape) read end to end under the sanitised build: no model here - the oracle is the property itself
    (no sanitizer report, no signal; a Python exception is allowed)."""
    td = os.path.join(C.REPO, "test-data")
    paths = []
    for e in sorted(os.listdir(td)):
        p = os.path.join(td, e)
        if e.endswith((".parquet", ".parq")) or (os.path.isdir(p) and (os.path.exists(os.path.join(p, "_metadata"))
                                                                       or any(x.endswith((".parquet", ".parq")) for x in os.listdir(p)))):
            paths.append(p)
    modes = ["default"] if quick else ["default", "nonulls", "rowgroups"]
    cases = [{"path": p, "mode": m} for m in modes for p in paths]
    worker = os.path.join(os.path.dirname(os.path.abspath(L.__file__)), "codec_files_worker.py")
    real = L.run_real(cases, os.path.join(scratch, "files"), sanitize=True, nproc=4 if quick else 8, max_crashes=12,
                      worker=worker, chunk=8, timeout=600)
    return cases, real


def files_judge(ctx, cases, real):
    for c, r in zip(cases, real):
        rel = os.path.relpath(c["path"], C.REPO)
        case = {"stream": "files", "path": rel, "mode": c["mode"]}
        if r[0] == "skipped":
            ctx.count("files not read (worker crashed too often)", 1)
            continue
        ctx.case(case)
        ctx.count("files stream outcome", {"ok": "read", "exc": "python exception"}.get(r[0], "sanitizer report / signal"))
        if r[0] in ("asan", "ubsan", "crash", "missing"):
            where = "<".join((r[3] if len(r) > 3 and isinstance(r[3], list) else [])[:2])
            ctx.fail({"component": "file-read", "stream": "files", "file": os.path.basename(rel), "mode": c["mode"],
                      "kind": r[0], "where": where}, case,
                     "reading a valid file under the sanitised build: %r" % (r[:3],))


def replay(rep):
    if rep.get("kind") == "no-failing-input-found":
        print(json.dumps(rep, indent=1)[:6000])
        return 1
    if rep["case"].get("stream") == "files":
        return replay_file(rep["case"])
    if rep["case"].get("stream") == "roundtrip":
        return replay_roundtrip(rep["case"])
    return K.replay_case(rep["case"], sanitize=True, memory_only=True)


def replay_roundtrip(case):
    import tempfile
    import shutil
    tmp = tempfile.mkdtemp(prefix="verif-C12-replay-", dir="/tmp")
    try:
        c = {k: v for k, v in case.items() if k != "stream"}
        worker = os.path.join(os.path.dirname(os.path.abspath(L.__file__)), "codec_rt_worker.py")
        r = L.run_real([c], tmp, sanitize=True, nproc=1, worker=worker, timeout=600)[0]
        print("case:", json.dumps(c)[:1500])
        print("real code under ASan+UBSan:", json.dumps(r)[:800])
        bad = r[0] in ("crash", "asan", "ubsan", "missing") or (c["fn"] in ("mt_read", "foreign_chunk") and (r[0] == "exc" or r[1] != "clean")) or (c["fn"] == "nonascii_text" and (r[0] == "exc" or r[1] not in ("clean", "write-raised")))
        print("=> property %s on this case" % ("FAILS" if bad else "holds"))
        return 1 if bad else 0
    finally:
        shutil.rmtree(tmp, ignore_errors=True)


def replay_file(case):
    import tempfile
    import shutil
    tmp = tempfile.mkdtemp(prefix="verif-C12-replay-", dir="/tmp")
    try:
        worker = os.path.join(os.path.dirname(os.path.abspath(L.__file__)), "codec_files_worker.py")
        r = L.run_real([{"path": os.path.join(C.REPO, case["path"]), "mode": case["mode"]}], tmp, sanitize=True, nproc=1,
                       worker=worker, timeout=600)[0]
        print("file:", case["path"], "mode:", case["mode"])
        print("real code under ASan+UBSan:", json.dumps(r)[:1200])
        bad = r[0] in ("crash", "asan", "ubsan", "missing")
        print("=> property %s on this file" % ("FAILS" if bad else "holds"))
        return 1 if bad else 0
    finally:
        shutil.rmtree(tmp, ignore_errors=True)
