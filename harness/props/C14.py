"""C14 — opening or merging many files yields their concatenation (DESIGN.md section 6, C14).
Models: coq/theories/Impl/Paths.v (util.analyse_paths), coq/theories/Dataset/Merge.v (util.metadata_from_many)."""
import glob as _glob
import json
import os
import shutil
import tempfile

from harness import common as C
from harness import partlib as L

TRUSTED = [
    "translators/paths2coq.py (Python ast -> Gallina; fail closed) and its prelude coq/theories/Impl/PyPaths.v (what a break-search loop, %s formatting, rsplit(c, 1)[0], len(set(l)), truth values, isinstance(o, pd.Timestamp) / isoformat / str mean), the template of the _path_to_cats loop skeleton; the regenerated text is also evaluated by the kernel "
    "against the real functions on sampled inputs on every run",
    "Coq 8.16.1 kernel + coqc (vm_compute only for the closed Example); no native_compute",
    "extraction: ExtrOcamlBasic only, no Extract Constant; ocaml/driver.ml s-expression I/O",
    "what api.ParquetFile shows of one file (file_scheme, schema, row groups) is an input of the merge model; reading one "
    "file's rows is C01/C03; partition values from directory names are C08 (the oracle uses unguessable text and plain integers)",
    "fsspec local filesystem: fs.cat(paths, start=-n) returns the file tails, fs.find/fs.glob list files in sorted order",
    "extraction and driver are cross-checked on every run: 14 of the commands issued are re-evaluated by the Coq kernel "
    "(vm_compute) and must give the output the extracted program printed (obligations extract_agrees_*); thorough tier: coqchk -o",
    "Python glue: generators, per-file summaries handed to the model, frame comparison (harness/partlib.py canonical values)",
]

PARTS = ["a", "b", "k=1", "k=2", "x=a", "y=b", "d1", "d2", "sub", "2020", "v=x y", "é"]


def gen_paths(rng):
    """a list of file paths (strings) of one of the shapes the property names, plus adversarial variants"""
    shape = rng.choice(["flat", "hive", "drill", "mixed-depth", "odd"])
    absolute = rng.random() < 0.6
    base = (["", "data", "ds"] if absolute else ["data", "ds"])[: rng.choice([1, 2, 3])]
    if not base:
        base = ["ds"]
    k = rng.choice([1, 1, 2, 3, 4, 6])
    out = []
    for i in range(k):
        if shape == "flat":
            mid = []
        elif shape == "hive":
            mid = [rng.choice(["k=1", "k=2"]), rng.choice(["x=a", "x=b"])][: rng.choice([1, 2])]
        elif shape == "drill":
            mid = [rng.choice(["a", "b"]), rng.choice(["d1", "d2"])][: rng.choice([1, 2])]
        elif shape == "mixed-depth":
            mid = [rng.choice(PARTS) for _ in range(rng.choice([0, 1, 2, 3]))]
        else:
            mid = [rng.choice(PARTS + ["", "part.0.parquet"]) for _ in range(rng.choice([0, 1, 2]))]
        name = rng.choice(["part.%d.parquet" % i, "f%d.parq" % i, "part.0.parquet", "a"])
        p = "/".join(base + mid + [name])
        if shape == "odd":
            r = rng.random()
            if r < 0.25:
                p = p.replace("/", "\\")
            elif r < 0.4:
                p = p + "/"
            elif r < 0.5:
                p = p.replace("/", "//", 1)
        out.append(p)
    if rng.random() < 0.1 and out:
        out.append(out[0])
    mode = rng.choice(["none", "none", "base", "parent", "deeper", "other", "slash"])
    if mode == "none":
        root = None
    elif mode == "base":
        root = "/".join(base)
    elif mode == "parent":
        root = "/".join(base[:-1]) if len(base) > 1 else "/".join(base)
    elif mode == "deeper":
        root = out[0].rsplit("/", 1)[0] if "/" in out[0] else out[0]
    elif mode == "slash":
        root = "/".join(base) + "/"
    else:
        root = rng.choice(["/nowhere", "data/d", "dat", ""])
    return shape, out, root


def spec_base(parts_list):
    """the property's own reading: longest common prefix of the directory parts"""
    dirs = [p[:-1] for p in parts_list]
    base = []
    for i in range(min(len(d) for d in dirs)):
        if all(d[i] == dirs[0][i] for d in dirs):
            base.append(dirs[0][i])
        else:
            break
    return base


def run(ctx):
    C.coq_lib()
    ctx.trusted = TRUSTED
    ok, _ = ctx.coq_file(os.path.join(C.COQ, "props", "C14.v"))
    if ok and not ctx.quick():
        L.coqchk_props(ctx, "C14")
    bad = C.hygiene()
    ctx.obligation("hygiene: no Admitted/Axiom/Parameter/... in coq/", not bad, "; ".join(bad))
    # tie 1 (translator): util.analyse_paths & co regenerated from the working tree, C14_basepath re-proved on the regenerated text
    ctx.gen_paths = L.paths_translator(ctx)
    C.use_shadow()
    pq = C.Pqref()
    try:
        _run(ctx, pq)
    finally:
        pq.close()


def _run(ctx, pq):
    from fastparquet import util
    rng = ctx.rng
    quick = ctx.quick()
    ctx.rule = ("A: lists of 1..7 path strings (flat / hive / drill / mixed depth / backslashes, trailing and double slashes, "
                "absolute and relative, duplicates) x root (absent, the base, a parent, deeper, unrelated, trailing slash) -> "
                "util.analyse_paths; B: datasets of 1..6 files on disk (flat, hive, drill directories, hive sub-datasets; rows incl. 0; "
                "several row groups; codecs; categorical columns) opened via list (legacy and fsspec fast path), with root given or "
                "inferred, via directory, glob and merge(); trivial: a single file with no root; distinct = distinct case data")

    # ------------------------------------------------------------ A: analyse_paths
    n_a = 600 if quick else 6000
    cmds, meta = [], []
    for _ in range(n_a):
        shape, paths, root = gen_paths(rng)
        try:
            b, rel = util.analyse_paths(list(paths), root=False if root is None else root)
            impl = ["ok", b, list(rel)]
        except AssertionError:
            impl = "AssertionError"
        except IndexError:
            impl = "IndexError"
        except Exception as e:     # noqa
            impl = "raises " + type(e).__name__
        cmds.append(("analyse_paths", [L.enc(p) for p in paths], [] if root is None else [L.enc(root)]))
        meta.append(({"corr": "analyse_paths", "shape": shape, "paths": paths, "root": root}, impl))
    outs_a = pq.batch(cmds)
    units = getattr(ctx, "gen_paths", None) or set()
    if units & {"analyse", "strip"}:       # the regenerated text itself, evaluated by the kernel, against the real functions
        pick = [m[0] for m in meta if all(L.coq_ascii_ok(p) for p in m[0]["paths"]) and m[0]["paths"]]
        pick = rng.sample(pick, min(len(pick), 40))
        L.gen_paths_samples(ctx, ([(c["paths"], c["root"]) for c in pick] + [([], None)]) if "analyse" in units else [],
                            [p for c in pick[:12] for p in c["paths"][:2]] if "strip" in units else [])
    samples = []
    L.sample_pq(samples, cmds, outs_a, rng, 10)
    for cmd in [("merge", [b"/d/a.parquet", b"/d/b.parquet", b"/d/c.parquet"],
                 [[True, 0, 3, [[2, [], 0]]], [True, 0, 3, [[0, [], 1], [3, [], 2]]], [True, 1, 4, [[1, [], 3]]]], False, use_fs, [])
                for use_fs in (False, True)] + \
               [("merge", [b"/d/s1", b"/d/s2"], [[False, 0, 3, [[2, [b"k=a/part.0.parquet"], 0]]], [False, 1, 3, [[1, [b"k=b/part.0.parquet"], 1]]]],
                 verify, False, []) for verify in (False, True)]:
        samples.append((cmd, pq.call(*cmd)))       # the merge commands of stream B run inside the workers
    L.extraction_agrees(ctx, samples, "C14")
    for (case, impl), mo in zip(meta, outs_a):
        ctx.case(case, trivial=(len(case["paths"]) == 1 and case["root"] is None))
        ctx.count("A.shape", case["shape"])
        ctx.count("A.root", "none" if case["root"] is None else "given")
        if isinstance(mo, (bytes, bytearray)):
            model = bytes(mo).decode()
        else:
            model = ["ok", bytes(mo[1]).decode("utf-8", "replace"), [bytes(r).decode("utf-8", "replace") for r in mo[2]]]
        ctx.correspondence("analyse_paths ~ util.analyse_paths", case, model, impl)
        ctx.count("A.outcome", impl if isinstance(impl, str) else "ok")
        # the property itself on the real code: base is the longest common directory prefix, base + rel = path
        if isinstance(impl, list):
            norm = [util.join_path(p) for p in case["paths"]]
            problems = []
            if case["root"] is None:
                want = spec_base([n.split("/") for n in norm])
                if impl[1] != "/".join(want):
                    problems.append("basepath %r, longest common directory prefix %r" % (impl[1], "/".join(want)))
            for n, r in zip(norm, impl[2]):
                if not (impl[1] + "/" + r == n or (impl[1] == "" and r == n) or (r == "" and impl[1] == n)):
                    problems.append("basepath %r + relative %r is not %r" % (impl[1], r, n))
            if problems:
                ctx.fail({"component": "analyse_paths", "root": "none" if case["root"] is None else "given"}, case, "; ".join(problems[:3]))

    # ------------------------------------------------------------ B: datasets on disk
    n_b = 120 if quick else 1200
    cases = L.load_corpus("C14") + [gen_dataset_case(rng, i < (4 if quick else 20), i) for i in range(n_b)]
    # forked workers (harness.common.pmap): a native crash or a hang while opening/reading is a failing input
    results = L.run_dataset_jobs(ctx, check_dataset, cases, "b", _replayable)
    # ---- verification: every single-attribute difference of one SchemaElement must be rejected
    vcases = [{"attr": a} for a in SCHEMA_ATTRS]
    for vc, res in zip(vcases, L.run_dataset_jobs(ctx, check_verify, vcases, "v", lambda c: {"verify_case": c})):
        ctx.case({"verify": vc}, trivial=False)
        ctx.count("V.attribute", vc["attr"])
    fcases = gen_verify_file_cases()
    for fc, res in zip(fcases, L.run_dataset_jobs(ctx, check_verify_files, fcases, "vf", lambda c: {"verify_files_case": c})):
        ctx.case({"verify_files": fc}, trivial=False)
        ctx.count("V.file_deviation", "%s/%d files/position %d" % (fc["deviation"], fc["files"], fc["position"]))
    # ---- several colliding datasets in one process (stream P)
    pcases = [gen_pair_case(rng, i) for i in range(12 if quick else 80)]
    for pc, res in zip(pcases, L.run_dataset_jobs(ctx, check_pair, pcases, "p", lambda c: {"pair_case": c})):
        ctx.case({"pair": pc}, trivial=res.get("trivial", False))
        ctx.count("P.pair", pc["pair"])
        for v in res.get("vias", []):
            ctx.count("P.via", v)
    # ---- the same class through the reusable module: twin datasets against a fresh interpreter
    TW.run(ctx, "harness.props.C14", [dict(TW.gen_partition_case(rng, i), scheme="hive") for i in range(10 if quick else 40)], stream="P.twins")
    for case, res in zip(cases, results):
        ctx.case(case, trivial=(len(case["files"]) == 1 and case["root_mode"] == "inferred"))
        ctx.count("B.shape", case["shape"])
        ctx.count("B.nfiles", len(case["files"]))
        ctx.count("B.root", case["root_mode"])
        for v in res.get("vias", []):
            ctx.count("B.via", v)


# --------------------------------------------------------------------------------------------------
def gen_dataset_case(rng, confirm, i):
    shape = rng.choice(["flat", "flat", "hive", "hive", "drill", "subdatasets"])
    k = rng.choice([1, 2, 2, 3, 3, 4, 6])
    cat_mode = "none"
    objbool = False
    if confirm and i % 2 == 1:
        objbool = True                 # the known finding: an object column holding booleans, first file with 0 rows
        k = max(k, 2)
        shape = "flat"
    elif confirm:
        cat_mode = "differ"            # the known finding: files with different dictionaries
        k = max(k, 2)
        shape = rng.choice(["flat", "hive"])
    elif rng.random() < 0.3:
        cat_mode = "same"
    elif rng.random() < 0.3:
        cat_mode = "grow"              # label sets that grow from file to file (each a prefix of the next): must work
    elif rng.random() < 0.25:
        cat_mode = "unused"            # dictionaries that differ only in labels no row uses: inside the proved guard, must work
    grow_sizes = sorted(rng.choice([2, 3, 5, 100, 127, 128, 130, 200, 300]) for _ in range(k))
    files = []
    off = 0
    levels = rng.choice([1, 2])
    ext = rng.choice([".parquet", ".parquet", ".parq"])
    # directory and file NAMES are data: names of partition columns, partition values and files that start with '_' or '.',
    # hold spaces, '%', non-ASCII letters must neither vanish from a listing nor change the rows
    # (the second level is called n: "xn", "n n", "in" hold it as a tail - related partition column names)
    key0 = rng.choice(["k", "k", "k", "_grp", ".dot", "my col", "ü", "k%41", "xn", "n n", "in", "nn"])
    odd_file = rng.choice(["", "", "", "_", ".", "_tmp.", "%20"])
    for j in range(k):
        n = rng.choice([0, 1, 2, 3, 5, 8])
        if objbool:
            n = 0 if j == 0 else max(n, 1)
        if shape == "flat":
            d = []
        elif shape == "hive":
            d = ["%s=%s" % (key0, rng.choice(["a", "b", "zz", "[x]", "a*b", "q?", "_na", ".x", "a b", "100%", "é", "_"])),
                 "n=%d" % rng.choice([1, 2, 30])][:levels]   # values are data, not globs
        elif shape == "drill":
            d = [rng.choice(["a", "b", "zz", "[x]", "a*b", "_na", ".hid", "a b", "_", "é"]), rng.choice(["u", "w", "_w"])][:levels]
        else:
            d = ["sub%d" % j]
        name = ("%sf%d%s%s" % (odd_file if rng.random() < 0.6 else "", j, rng.choice(["", "", "[1]", "-x y"]), ext)) if shape != "subdatasets" else ""
        if cat_mode == "differ":
            cats = rng.sample(["p", "q", "r", "s", "t"], rng.choice([2, 3]))
        elif cat_mode == "same":
            cats = ["p", "q", "r"]
        elif cat_mode == "grow":
            cats = ["l%03d" % x for x in range(grow_sizes[j])]
        elif cat_mode == "unused":
            cats = ["p", "q"] + rng.sample(["r", "s", "t", "u"], rng.choice([0, 1, 2]))
        else:
            cats = None
        files.append({"dir": d, "name": name, "n": n, "off": off, "codec": rng.choice([None, None, "GZIP", "SNAPPY", "ZSTD"]),
                      # "each": one row group per row - a footer much larger than the first file's (second fetch of the fast path)
                      "rgo": rng.choice([None, None, 2, "each"]) if n > 2 else None, "cats": cats, "objbool": objbool,
                      "used": 2 if cat_mode == "unused" else None})
        off += n + 1
    if shape in ("hive", "drill") and rng.random() < 0.5:
        root_mode = "given"
    else:
        root_mode = "inferred"
    verify = rng.random() < 0.35 and not objbool
    bad_schema = verify and k >= 2 and rng.random() < 0.5
    # list variations: the same file twice; paths relative to the working directory; the root with a trailing slash
    dup = rng.randrange(k) if (shape != "subdatasets" and not bad_schema and rng.random() < 0.15) else None
    relative = root_mode == "inferred" and shape != "subdatasets" and rng.random() < 0.2
    if root_mode == "given" and rng.random() < 0.3:
        root_mode = "given-slash"
    return {"shape": shape, "files": files, "root_mode": root_mode, "cat_mode": cat_mode, "verify": verify,
            "bad_schema": rng.randrange(1, k) if bad_schema else None, "dup": dup, "relative": relative,
            "junk": rng.random() < 0.3, "dir_slash": rng.random() < 0.3,
            # one file with the same columns in another order (columns are matched by name; with verify such a list is refused)
            "colperm": rng.randrange(k) if (not verify and shape != "subdatasets" and rng.random() < 0.3) else None,
            "colperm_seed": rng.randrange(1000)}


def _frame(spec, bad=False):
    import numpy as np
    import pandas as pd
    n, off = spec["n"], spec["off"]
    d = {"id": np.arange(off, off + n, dtype="int64"),
         "v": np.array([(x * 0.5 if x % 3 else float("nan")) for x in range(off, off + n)], dtype="float64"),
         "s": pd.Series(["r%d" % x for x in range(off, off + n)], dtype="str")}
    if spec["cats"]:
        m = spec.get("used") or len(spec["cats"])       # low and high codes alike
        d["c"] = pd.Categorical.from_codes([((m - 1 - x) if x % 2 else x) % m for x in range(n)], categories=spec["cats"])
    if spec.get("objbool"):
        d["b"] = np.array([bool(x % 2) for x in range(n)] + [None], dtype=object)[:-1]
    if bad:
        d["v"] = d["v"].astype("float32")
    return pd.DataFrame(d)


def _canon_frame(df, cols):
    rows = []
    for r in range(len(df)):
        row = []
        for c in cols:
            v = df[c].iloc[r]
            row.append(None if L.is_null(v) else L.canon(v))
        rows.append(row)
    return rows


def check_dataset(case, root, pq, ctx=None, verbose=False):
    import numpy as np
    import pandas as pd
    import fsspec
    from fastparquet import write, ParquetFile, writer, util
    os.makedirs(root, exist_ok=True)
    shape = case["shape"]
    problems = []
    vias = []

    def say(*a):
        if verbose:
            print(*a)

    paths, frames = [], []
    for j, spec in enumerate(case["files"]):
        d = os.path.join(root, *spec["dir"])
        df = _frame(spec, bad=(case["bad_schema"] == j))
        if case.get("colperm") == j:      # the same columns in another order: chunk order differs between the files (C14_concat_chunk_order)
            import random as _r
            cols_p = list(df.columns)[::-1]
            if case.get("colperm_seed") is not None and case["colperm_seed"] % 2:
                _r.Random(case["colperm_seed"]).shuffle(cols_p)
            df = df[cols_p]
        if shape == "subdatasets":
            df["k"] = pd.Series([["a", "b"][x % 2] for x in range(len(df))], dtype="str")
            if len(df) == 0:
                df = _frame(dict(spec, n=1), bad=(case["bad_schema"] == j))
                df["k"] = pd.Series(["a"], dtype="str")
            write(d, df, file_scheme="hive", partition_on=["k"], compression=spec["codec"],
                  row_group_offsets=[0, 2] if spec["rgo"] else None)
            paths.append(d)
        else:
            os.makedirs(d, exist_ok=True)
            p = os.path.join(d, spec["name"])
            write(p, df, compression=spec["codec"],
                  row_group_offsets=list(range(len(df))) if spec["rgo"] == "each" else ([0, 2] if spec["rgo"] else None))
            paths.append(p)
    if case.get("junk"):           # files that are not parquet data next to the data
        open(os.path.join(root, "README.txt"), "w").write("not a parquet file\n")
        open(os.path.join(os.path.dirname(paths[0]) if shape != "subdatasets" else root, ".hidden.crc"), "w").write("x")
    objbool = any(f.get("objbool") for f in case["files"])
    cols = ["id", "v", "s"] + (["b"] if objbool else []) + (["c"] if case["cat_mode"] != "none" else [])
    # individual reads (C01's business) and the partition columns the directory names spell
    singles = []
    for p in paths:
        singles.append(ParquetFile(p).to_pandas())
    given_root = {"given": root, "given-slash": root + "/"}.get(case["root_mode"])

    def expected(order, base_dir, use):
        rows = []
        for j in order:
            df = singles[j]
            rel = os.path.relpath(os.path.dirname(paths[j]) if shape != "subdatasets" else paths[j], base_dir)
            segs = [] if rel == "." else rel.split(os.sep)
            if shape == "subdatasets":
                segs = []
            extra = []
            for li, sg in enumerate(segs):
                if shape == "hive":
                    kk, vv = sg.split("=")
                    extra.append((kk, ["i", int(vv)] if vv.isdigit() else ["s", vv]))
                else:
                    extra.append(("dir%d" % li, ["s", sg]))
            base_rows = _canon_frame(df, [c for c in cols if c in use] + (["k"] if shape == "subdatasets" else []))
            for r in base_rows:
                rows.append(r + [e[1] for e in extra])
        return rows

    def inferred_base():
        dirs = [os.path.dirname(p) if shape != "subdatasets" else os.path.dirname(p) for p in paths]
        return os.path.commonpath(dirs) if dirs else root

    def got_rows(df, base_dir, use):
        # partition columns in the order the directory levels have
        pc = [c for c in df.columns if c not in cols] if shape != "subdatasets" else []
        return _canon_frame(df, [c for c in cols if c in use] + (["k"] if shape == "subdatasets" else []) + pc)

    cls0 = {"shape": shape, "relative": bool(case.get("relative")), "categorical": case["cat_mode"],
            "object_column_first_file_empty": objbool,
            "dictionaries_differ": case["cat_mode"] in ("differ", "grow", "unused") and len({tuple(f["cats"]) for f in case["files"]}) > 1}

    def nested(order):
        """every file's label list is a prefix of the label list of the last file that has rows (in this order):
        then one dictionary - the last - labels every row correctly, and the known finding does not apply"""
        cl = [case["files"][j]["cats"] for j in order if case["files"][j]["n"] > 0 and case["files"][j]["cats"]]
        return bool(cl) and all(c == cl[-1][:len(c)] for c in cl)

    label_ids = {}

    def cat_chunks(order):
        """the categorical column of the files in this order as chunks of Dataset/CatRead.v: (own dictionary, codes); one chunk
        per file (all row groups of a file carry the file's dictionary); files without rows have no dictionary page"""
        chunks = []
        for j in order:
            s = singles[j]["c"]
            if len(s) == 0:
                continue
            d = [label_ids.setdefault(str(x), len(label_ids)) for x in s.cat.categories]
            chunks.append([[d], [int(c) for c in s.cat.codes]])
        return chunks

    def compare(via, fn, order, base_dir, **kw):
        vias.append(via)
        cls = dict(cls0, via=via, dictionaries_nested=nested(order))
        chunks = None
        if "c" in cols and case["bad_schema"] is None:
            # the EXACT guard of C14_categorical_labels_partial / _guard_exact, decided by the extracted Dataset/CatGuard.guard_b:
            # every code that occurs means the same label under its own dictionary and under the dictionary read last
            chunks = cat_chunks(order)
            cls["cat_guard"] = pq.call("cat_guard", [], chunks) == 1
        try:
            pf = fn()
            df = pf.to_pandas()
        except Exception as e:      # noqa
            if case["bad_schema"] is not None and kw.get("verify") and isinstance(e, ValueError):
                return None
            problems.append("%s raised %s: %s" % (via, type(e).__name__, str(e)[:200]))
            if ctx is not None:
                ctx.fail(dict(cls, stage="open/read"), _replayable(case), problems[-1])
            return None
        if case["bad_schema"] is not None and kw.get("verify"):
            problems.append("%s: verify requested, file %d has a different schema, no error raised" % (via, case["bad_schema"]))
            if ctx is not None:
                ctx.fail(dict(cls, stage="verify"), _replayable(case), problems[-1])
            return pf
        if case["bad_schema"] is not None:
            return pf           # different dtypes without verification: outside the statement
        nrows = sum(len(singles[j]) for j in order)
        if chunks is not None and ctx is not None and "c" in df.columns and len(df) == nrows:
            # model of the reader (one label list for the whole column, replaced by every dictionary page) = what was read
            try:
                mcats = [str(x) for x in df["c"].cat.categories]
                impl = [[] if c < 0 else ([label_ids.setdefault(mcats[c], len(label_ids))] if c < len(mcats) else ["bad", int(c)])
                        for c in (int(x) for x in df["c"].cat.codes.to_numpy())]
            except Exception as e:      # noqa
                impl = "raises %s" % type(e).__name__
            mo = pq.call("read_cat", [], chunks)
            model = [[("bad" if isinstance(x, (bytes, bytearray)) else x) for x in cell] for cell in mo] if isinstance(mo, list) else mo
            ctx.correspondence("CatRead.read_cat(per-file dictionaries and codes) ~ categorical column of the merged read",
                               dict(_replayable(case), via=via), model, impl)
        # the merged metadata must DESCRIBE the concatenation: every column chunk of every row group names the file that holds it
        # (a chunk without file_path means "in the file this metadata is stored in" - wrong for a summary written from it)
        if len(order) > 1 or shape == "subdatasets":
            for gi, rg in enumerate(pf.row_groups):
                fps = [c.file_path.decode() if isinstance(c.file_path, (bytes, bytearray)) else c.file_path for c in rg.columns]
                if any(x is None for x in fps) or len(set(fps)) != 1:
                    problems.append("%s: row group %d of the merged metadata has chunk file paths %r" % (via, gi, fps[:4]))
                    if ctx is not None:
                        ctx.fail(dict(cls, stage="chunk-paths"), _replayable(case), problems[-1])
                    break
        # every column on its own (a subset read walks the chunks by name and opens the file each chunk names)
        if kw.get("subsets") and case["bad_schema"] is None:
            for c in [c for c in cols if c in df.columns and c != "c"]:
                try:
                    one = pf.to_pandas(columns=[c])
                    if _canon_frame(one, [c]) != _canon_frame(df, [c]):
                        problems.append("%s: to_pandas(columns=[%r]) differs from the column of the full read" % (via, c))
                except Exception as e:      # noqa
                    problems.append("%s: to_pandas(columns=[%r]) raised %s: %s" % (via, c, type(e).__name__, str(e)[:120]))
                if problems and problems[-1].startswith(via + ": to_pandas(columns") and ctx is not None:
                    ctx.fail(dict(cls, stage="column-subset"), _replayable(case), problems[-1])
                    break
        try:        # the row-group iterator of the merged handle walks the same rows in the same order
            it_ids = [int(x) for fr in pf.iter_row_groups(columns=["id"]) for x in fr["id"]]
            if it_ids != [int(x) for x in df["id"]]:
                problems.append("%s: iter_row_groups() ids %r..., to_pandas() ids %r..." % (via, it_ids[:8], [int(x) for x in df["id"]][:8]))
                if ctx is not None:
                    ctx.fail(dict(cls, stage="iter"), _replayable(case), problems[-1])
        except Exception as e:      # noqa
            problems.append("%s: iter_row_groups() raised %s: %s" % (via, type(e).__name__, str(e)[:120]))
            if ctx is not None:
                ctx.fail(dict(cls, stage="iter"), _replayable(case), problems[-1])
        if pf.count() != nrows or int(pf.fmd.num_rows) != nrows:
            problems.append("%s: row count %r / num_rows %r, expected %d" % (via, pf.count(), pf.fmd.num_rows, nrows))
        # first everything but the categorical column, then the categorical column too (finding C14-categorical-labels)
        for use, only_c in ((["id", "v", "s"], False), (cols, True)):
            try:
                want = expected(order, base_dir, use)
                got = got_rows(df, base_dir, use)
            except Exception as e:      # noqa  (an invalid Categorical cannot even be walked)
                problems.append("%s: result cannot be walked: %s: %s" % (via, type(e).__name__, str(e)[:100]))
                if ctx is not None:
                    ctx.fail(dict(cls, stage="values", only_categorical_column=only_c), _replayable(case), problems[-1])
                return pf
            if got != want:
                k = next((x for x in range(min(len(got), len(want))) if got[x] != want[x]), min(len(got), len(want)))
                problems.append("%s: %d rows read, %d expected; first difference at row %d: %r vs %r" % (
                    via, len(got), len(want), k, got[k] if k < len(got) else None, want[k] if k < len(want) else None))
                if ctx is not None:
                    ctx.fail(dict(cls, stage="values", only_categorical_column=only_c), _replayable(case), problems[-1])
                return pf
            if use == cols:
                break
        if problems and problems[-1].startswith(via + ": row count") and ctx is not None:
            ctx.fail(dict(cls, stage="count"), _replayable(case), problems[-1])
        return pf

    order = list(range(len(paths)))
    uniq_order = list(order)
    base = root if given_root else inferred_base()
    verify = case["verify"]
    if case.get("dup") is not None:           # the same file twice in the list: its rows twice
        order.append(case["dup"])
    plist = [paths[j] for j in order]
    if case.get("relative"):                  # paths relative to the working directory (this is a forked worker)
        os.chdir(root)
        plist = [os.path.relpath(p, root) for p in plist]
    try:
        return _vias(case, root, pq, ctx, compare, plist, paths, order, uniq_order, base, given_root, verify, problems, vias, say,
                     singles, cls0, cols)
    finally:
        os.chdir("/")


def _vias(case, root, pq, ctx, compare, plist, paths, order, uniq_order, base, given_root, verify, problems, vias, say,
          singles, cls0, cols):
    import fsspec
    from fastparquet import ParquetFile, writer, util
    shape = case["shape"]
    # ---- via list (default filesystem: fast path for >= 3 single files unless verify)
    pf = compare("list", lambda: ParquetFile(list(plist), verify=verify, **({"root": given_root} if given_root else {})),
                 order, base, verify=verify)
    # ---- via a list of ParquetFile instances (fix 3306fff: a dataset instance stands for its directory)
    compare("instances", lambda: ParquetFile([ParquetFile(p) for p in plist], verify=verify, **({"root": given_root} if given_root else {})),
            order, base, verify=verify)
    # ---- a SEQUENCE of operations on the same ParquetFile handles: open the list, merge it, open it again; every result must
    #      be the concatenation, and the input handles must be what they were (row-group paths, data)
    if case["bad_schema"] is None:
        handles = [ParquetFile(p) for p in plist]
        before = [[rg.columns[0].file_path for rg in h.row_groups] for h in handles]
        kw = {"root": given_root} if given_root else {}
        compare("sequence:open", lambda: ParquetFile(handles, verify=verify, **kw), order, base, verify=verify)

        def seq_merge():
            out = writer.merge(handles, verify_schema=verify, **kw)
            return ParquetFile(os.path.dirname(out.fn) or ".")
        compare("sequence:merge", seq_merge, order, base, verify=verify)
        compare("sequence:reopen", lambda: ParquetFile(handles, verify=verify, **kw), order, base, verify=verify)
        for junk in ("_metadata", "_common_metadata"):      # leave the directory as it was for the other vias
            for d in {base, root}:
                try:
                    os.unlink(os.path.join(d, junk))
                except OSError:
                    pass
        for pos, (j, h) in enumerate(zip(order, handles)):
            after = [rg.columns[0].file_path for rg in h.row_groups]
            bad = None
            if after != before[pos]:
                bad = "row-group paths of input handle %d changed from %r to %r" % (pos, before[pos][:3], after[:3])
            else:
                try:
                    again = h.to_pandas()
                    if _canon_frame(again, [c for c in cols if c != "c"]) != _canon_frame(singles[j], [c for c in cols if c != "c"]):
                        bad = "input handle %d reads differently after the operations" % pos
                except Exception as e:      # noqa
                    bad = "input handle %d cannot be read after the operations: %s: %s" % (pos, type(e).__name__, str(e)[:120])
            if bad:
                problems.append("sequence: " + bad)
                if ctx is not None:
                    ctx.fail(dict(cls0, via="sequence:handles", stage="inputs-mutated"), _replayable(case), problems[-1])
                break
    if case["bad_schema"] is None and case["cat_mode"] != "differ":
        # ---- correspondence with the merge model, both code paths
        fs = fsspec.filesystem("file")
        summaries = []
        schemas = []
        gid = 0
        for p in plist:
            pfi = ParquetFile(p)
            sid = next((si for si, sc in enumerate(schemas) if sc == pfi._schema), None)
            if sid is None:
                schemas.append(pfi._schema)
                sid = len(schemas) - 1
            rgs = []
            for rg in pfi.row_groups:
                fp = rg.columns[0].file_path
                rgs.append([rg.num_rows, [] if fp is None else [L.enc(fp if isinstance(fp, str) else fp.decode())], gid])
                gid += 1
            summaries.append([pfi.file_scheme in ("simple", "empty"), sid, len(pfi.fmd.schema), rgs])
        for use_fs in (False, True, "instances"):
            try:
                if use_fs == "instances":     # ParquetFile INSTANCES as input: always the legacy path, whatever the filesystem and the number of files
                    bp, fmd = util.metadata_from_many([ParquetFile(p) for p in plist], verify_schema=False, root=given_root or False, fs=fs)
                else:
                    bp, fmd = util.metadata_from_many(list(plist), verify_schema=False, root=given_root or False, fs=fs if use_fs else None)
                impl = ["ok", bp, [[rg.num_rows, rg.columns[0].file_path] for rg in fmd.row_groups], fmd.num_rows]
            except ValueError:
                impl = "ValueError"
            except Exception as e:      # noqa
                impl = "Error"
            mo = pq.call("merge", [L.enc(p) for p in plist], summaries, False, use_fs is True, [L.enc(given_root)] if given_root else [])
            if isinstance(mo, (bytes, bytearray)):
                model = bytes(mo).decode()
            else:
                model = ["ok", bytes(mo[1]).decode(), [[r[0], bytes(r[1][0]).decode() if r[1] else None] for r in mo[3]], mo[4]]
            if ctx is not None:
                ctx.correspondence("metadata_from_many model ~ util.metadata_from_many (%s)" % (
                                   "ParquetFile instances as input: legacy path" if use_fs == "instances" else
                                   "fsspec fast path when >= 3 single files" if use_fs else "legacy path"),
                                   dict(_replayable(case), use_fs=use_fs), model, impl)
    if shape != "subdatasets":
        # ---- via directory and glob: files in the listing order (sorted paths)
        sorted_order = sorted(uniq_order, key=lambda j: paths[j])
        compare("directory", lambda: ParquetFile(root + ("/" if case.get("dir_slash") else ""), verify=verify), sorted_order, root, verify=verify)
        depth = max(len(f["dir"]) for f in case["files"])
        if all(len(f["dir"]) == depth for f in case["files"]):
            pattern = os.path.join(root, *(["*"] * depth), "*" + os.path.splitext(paths[0])[1])
            compare("glob", lambda: ParquetFile(pattern, verify=verify, **({"root": root} if depth else {})), sorted_order, root, verify=verify)
    # ---- via merge(): writes _metadata, then the dataset opens through it
    if case["bad_schema"] is None:
        def do_merge():
            out = writer.merge(list(plist), verify_schema=verify, **({"root": given_root} if given_root else {}))
            return ParquetFile(os.path.dirname(out.fn) or ".")
        compare("merge", do_merge, order, base, verify=verify, subsets=True)

        # ---- the summary WRITTEN from the footer fast path (>= 3 single files, no verification): merge(verify_schema=False), and an append
        #      to a directory that has no _metadata (write(append=True) opens it through the listing, then writes _metadata): re-open the
        #      summary, read everything and every column on its own
        def do_merge_nv():
            out = writer.merge(list(plist), verify_schema=False, **({"root": given_root} if given_root else {}))
            return ParquetFile(os.path.dirname(out.fn) or ".")
        if not verify:
            compare("merge-noverify", do_merge_nv, order, base, subsets=True)
        if shape == "flat" and case.get("dup") is None and not verify and case["cat_mode"] in ("none", "same") and case.get("colperm") is None \
                and not any(f.get("objbool") for f in case["files"]):
            for junk in ("_metadata", "_common_metadata"):
                try:
                    os.unlink(os.path.join(root, junk))
                except OSError:
                    pass
            espec = dict(case["files"][0], n=2, off=10 ** 6)
            extra = _frame(espec)
            sorted_order = sorted(uniq_order, key=lambda j: paths[j])
            singles.append(extra)
            case["files"].append(espec)
            try:
                def do_append():
                    from fastparquet import write as fwrite
                    fwrite(root, extra, file_scheme="hive", append=True)
                    return ParquetFile(root)
                paths.append(os.path.join(root, "appended"))
                compare("append-to-directory-without-summary", do_append, sorted_order + [len(singles) - 1], root, subsets=True)
            finally:
                singles.pop()
                paths.pop()
                case["files"].pop()
    for p in problems[:8]:
        say("PROBLEM:", p)
    return {"problems": problems, "vias": vias}


# -------------------------------------------------------------------------------------------------- verify_schema
# one attribute of ONE SchemaElement changed in the footer of a copy of the file (IDL: type, type_length, repetition_type, name,
# num_children, converted_type, scale, precision, field_id, logicalType and its sub-fields)
SCHEMA_ATTRS = ["noop", "type", "type_length", "repetition_type", "name", "num_children", "converted_type", "converted_type.time",
                "scale", "precision", "field_id", "logicalType", "logicalType.isAdjustedToUTC", "logicalType.unit"]


def _mutate_schema(fmd, attr):
    from fastparquet.cencoding import ThriftObject
    el = {(e.name.decode() if isinstance(e.name, bytes) else e.name): e for e in fmd.schema}
    if attr == "noop":
        return
    if attr == "type":
        el["o"].type = 1                      # INT64 -> INT32
    elif attr == "type_length":
        el["fx"].type_length = 2              # FIXED_LEN_BYTE_ARRAY(4) -> (2)
    elif attr == "repetition_type":
        el["id"].repetition_type = 0 if el["id"].repetition_type == 1 else 1
    elif attr == "name":
        el["id"].name = "idx"
    elif attr == "num_children":
        fmd.schema[0].num_children = fmd.schema[0].num_children - 1
    elif attr == "converted_type":
        el["s"].converted_type = None         # UTF8 -> none
    elif attr == "converted_type.time":
        el["t"].converted_type = 9            # TIMESTAMP_MICROS -> TIMESTAMP_MILLIS
    elif attr == "scale":
        el["id"].scale = 2
    elif attr == "precision":
        el["id"].precision = 9
    elif attr == "field_id":
        el["id"].field_id = 7
    elif attr == "logicalType":
        el["t"].logicalType = None
    elif attr == "logicalType.isAdjustedToUTC":
        el["t"].logicalType.TIMESTAMP.isAdjustedToUTC = True
    elif attr == "logicalType.unit":
        ts = el["t"].logicalType.TIMESTAMP        # a view on the same underlying dict, keyed by thrift field ids
        assert ts[2] == {2: {}}, ts[2]             # TimestampType.unit (field 2) = TimeUnit{MICROS (field 2)}
        ts[2] = {1: {}}                            # -> TimeUnit{MILLIS (field 1)}
    else:
        raise ValueError(attr)


# whole-file deviations at EVERY position of the list, for lists of 2 (legacy path) and of 3 / 4 (footer fast path)
FILE_DEVIATIONS = ["extra-column", "missing-column", "dtype", "nullability", "column-renamed"]


def gen_verify_file_cases():
    out = []
    for dev in FILE_DEVIATIONS:
        for n in (2, 3, 4):
            for pos in sorted({0, n // 2, n - 1}):
                out.append({"deviation": dev, "files": n, "position": pos})
    return out


def check_verify_files(case, root, pq, ctx=None, verbose=False):
    """one file of the list deviates from the others as a WHOLE (an extra column, a missing column, another dtype, another nullability, a
    renamed column); with verification every way of opening the list must refuse it, wherever the deviating file stands"""
    import numpy as np
    import pandas as pd
    from fastparquet import write, ParquetFile, writer
    os.makedirs(root, exist_ok=True)
    dev, n, pos = case["deviation"], case["files"], case["position"]
    paths = []
    for j in range(n):
        df = pd.DataFrame({"id": np.arange(3 * j, 3 * j + 3, dtype="int64"), "v": np.arange(3) * 0.5, "s": pd.Series(["a", "b", "c"], dtype="str")})
        kw = {"has_nulls": False}
        if j == pos:
            if dev == "extra-column":
                df["e"] = np.arange(3, dtype="int64")
            elif dev == "missing-column":
                df = df[["id", "v"]]
            elif dev == "dtype":
                df["v"] = df["v"].astype("float32")
            elif dev == "nullability":
                kw = {"has_nulls": True}
            else:
                df = df.rename(columns={"s": "t"})
        p = os.path.join(root, "part.%d.parquet" % j)
        write(p, df, **kw)
        paths.append(p)
    problems = []
    vias = {"list": lambda: ParquetFile(list(paths), verify=True),
            "directory": lambda: ParquetFile(root, verify=True),
            "merge": lambda: writer.merge(list(paths)),                       # verify_schema=True is merge's default
            "instances": lambda: ParquetFile([ParquetFile(p) for p in paths], verify=True)}
    for via, fn in vias.items():
        try:
            fn()
            raised = None
        except Exception as e:      # noqa
            raised = type(e).__name__
        finally:
            for junk in ("_metadata", "_common_metadata"):
                try:
                    os.unlink(os.path.join(root, junk))
                except OSError:
                    pass
        if raised is None:
            problems.append("%s with verification: file %d of %d deviates (%s), no error raised" % (via, pos, n, dev))
            if ctx is not None:
                ctx.fail({"component": "verify_schema", "deviation": dev, "via": via, "position": "first" if pos == 0 else ("last" if pos == n - 1 else "middle")},
                         {"verify_files_case": case}, problems[-1])
    if verbose:
        for p in problems:
            print("PROBLEM:", p)
    return {"problems": problems, "trivial": False, "vias": ["verify-files:" + dev]}


def flatten_schema(schema):
    """list of SchemaElement ThriftObjects -> the model's elements: ((path-of-field-ids atom) ...), None / dynamic keys left out"""
    def walk(d, pre, out):
        for k, v in d.items():
            if not isinstance(k, int) or v is None:
                continue
            if isinstance(v, dict):
                if any(isinstance(kk, int) and vv is not None for kk, vv in v.items()):
                    walk(v, pre + [k], out)
                else:
                    out.append([pre + [k], []])
            elif isinstance(v, (list, tuple)):
                out.append([pre + [k, 0], len(v)])
                for i, x in enumerate(v):
                    if isinstance(x, dict):
                        walk(x, pre + [k, i + 1], out)
                    else:
                        out.append([pre + [k, i + 1], x.encode() if isinstance(x, str) else (bytes(x) if isinstance(x, (bytes, bytearray)) else int(x))])
            elif isinstance(v, str):
                out.append([pre + [k], v.encode()])
            elif isinstance(v, (bytes, bytearray)):
                out.append([pre + [k], bytes(v)])
            else:
                out.append([pre + [k], int(v)])
        return out
    return [walk(getattr(e, "contents", e), [], []) for e in schema]


def check_verify(case, root, pq, ctx=None, verbose=False):
    """files whose schemas differ (in exactly one attribute of one element) are rejected when verification is requested"""
    import numpy as np
    import pandas as pd
    from fastparquet import write, ParquetFile, writer
    from fastparquet.cencoding import from_buffer
    os.makedirs(root, exist_ok=True)
    attr = case["attr"]
    df = pd.DataFrame({"id": np.arange(3, dtype="int64"),
                       "t": pd.to_datetime(["2020-01-01 00:00:00", "2020-01-02 00:00:00", "2020-01-03 00:00:00"]).as_unit("us"),
                       "fx": np.array([b"abcd", b"efgh", b"ijkl"], dtype=object), "s": pd.Series(["a", "b", "c"], dtype="str"),
                       "o": pd.array([1, None, 3], dtype="Int64")})
    f0, f1, f2 = (os.path.join(root, n) for n in ("f0.parquet", "f1.parquet", "f2.parquet"))
    write(f0, df, fixed_text={"fx": 4})
    write(f2, df, fixed_text={"fx": 4})
    b = open(f0, "rb").read()
    size = int.from_bytes(b[-8:-4], "little")
    loc = len(b) - 8 - size
    fmd = from_buffer(b[loc:-8], "FileMetaData")
    _mutate_schema(fmd, attr)
    nf = bytes(fmd.to_bytes())
    open(f1, "wb").write(b[:loc] + nf + len(nf).to_bytes(4, "little") + b"PAR1")
    problems = []
    # the comparison itself: Dataset/SchemaEq.schema_eqb (proved = element-wise, attribute-wise equality) on the flattened footers ~ the
    # real `!=` on the lists of SchemaElement objects, both ways round
    if ctx is not None and pq is not None:
        pa, pb, pc = ParquetFile(f0), ParquetFile(f1), ParquetFile(f2)
        for na, a, nb, b in (("f0", pa, "f1", pb), ("f1", pb, "f0", pa), ("f0", pa, "f2", pc), ("f1", pb, "f1", ParquetFile(f1))):
            ctx.correspondence("schema_eqb (Dataset/SchemaEq.v) ~ not (pf._schema != other._schema)", {"verify_case": case, "pair": [na, nb]},
                               pq.call("schema_eqb", flatten_schema(a._schema), flatten_schema(b._schema)) == 1, not (a._schema != b._schema))
    lists = {"second": [f0, f1], "first": [f1, f0], "third-of-3": [f0, f2, f1]}
    for pos, lst in lists.items():
        for via in ("list", "merge"):
            try:
                if via == "list":
                    ParquetFile(list(lst), verify=True)
                else:
                    writer.merge(list(lst))          # verify_schema=True is merge's default
                raised = None
            except Exception as e:      # noqa
                raised = type(e).__name__
            finally:
                for junk in ("_metadata", "_common_metadata"):
                    try:
                        os.unlink(os.path.join(root, junk))
                    except OSError:
                        pass
            if attr == "noop" and raised is not None:
                problems.append("%s, %s: identical schemas rejected with %s" % (via, pos, raised))
            elif attr != "noop" and raised is None:
                problems.append("%s with verification, differing file %s: schemas differ in SchemaElement.%s, no error raised" % (via, pos, attr))
            if problems and ctx is not None and problems[-1].startswith(via):
                ctx.fail({"component": "verify_schema", "attribute": attr, "via": via}, {"verify_case": case}, problems[-1])
                problems[-1] = " " + problems[-1]
    if verbose:
        for p in problems:
            print("PROBLEM:", p.strip())
    return {"problems": problems, "trivial": False, "vias": ["verify:" + attr]}



# -------------------------------------------------------------------------------------------------- stream P
# SEVERAL datasets opened one after the other in ONE interpreter: what a dataset shows must not depend on which datasets were
# opened before it.  The pairs collide on purpose: same relative paths, same partition column names, same row counts - but the
# partition values are of different KINDS (text '1' / integer 1, text 'True' / boolean, text '0.5' / float, ISO text / timestamp),
# recorded only in each dataset's own metadata.
PAIR_VALUES = {"int": ["1", "2", "10"], "bool": ["True", "False"], "float": ["0.5", "2.0", "-1.25"],
               "time": ["2020-01-01T00:00:00", "2021-06-01T12:30:00"]}


def gen_pair_case(rng, i):
    kind = ["int", "bool", "float", "time"][i % 4]
    vals = PAIR_VALUES[kind]
    n = rng.choice([4, 6, 9])
    col = rng.choice(["p", "k", "_grp"])
    return {"pair": kind, "col": col, "texts": [rng.choice(vals) for _ in range(n)], "rgo": rng.choice([None, 2, 3]),
            "first": rng.choice(["text", "typed"]), "scheme": "hive"}


def check_pair(case, root, pq, ctx=None, verbose=False):
    import numpy as np
    import pandas as pd
    from fastparquet import write, ParquetFile, writer
    kind, col, texts = case["pair"], case["col"], case["texts"]
    n = len(texts)
    typed = {"int": lambda t: int(t), "bool": lambda t: t == "True", "float": float, "time": pd.Timestamp}[kind]
    frames = {"text": pd.DataFrame({col: np.array(texts + [None], dtype=object)[:-1], "id": np.arange(n, dtype="int64")}),
              "typed": pd.DataFrame({col: pd.Series([typed(t) for t in texts]), "id": np.arange(n, dtype="int64")})}
    roots = {k: os.path.join(root, k) for k in frames}
    problems = []
    for k, f in frames.items():
        write(roots[k], f, file_scheme="hive", partition_on=[col], row_group_offsets=case["rgo"])
    want = {k: [L.canon(v) for v in frames[k][col]] for k in frames}
    rels = {k: [rg.columns[0].file_path for rg in ParquetFile(roots[k]).row_groups] for k in frames}
    if rels["text"] != rels["typed"]:
        return {"problems": [], "trivial": True, "vias": []}      # the layouts do not collide: nothing to learn
    order = [case["first"], "typed" if case["first"] == "text" else "text"]
    vias = []

    def look(k, via, fn):
        try:
            pf = fn()
            out = pf.to_pandas()
            got = {int(r): L.canon(v) for r, v in zip(out["id"], out[col])}
            cats = sorted(json.dumps(L.canon(v)) for v in pf.cats.get(col, []))
        except Exception as e:      # noqa
            problems.append("%s of the %s dataset (opened after %s) raised %s: %s" % (via, k, [x for x in order if x != k][0], type(e).__name__, str(e)[:150]))
            return
        exp = {r: want[k][r] for r in (range(n) if via != "list" else sorted(got))}      # "list" opens the first two files only
        if got != exp or not got:
            bad = [r for r in exp if got.get(r) != exp[r]][:3]
            problems.append("%s: the %s dataset shows %s = %r, written %r (its twin with the same layout was opened before or after it in this process)"
                            % (via, k, col, [got.get(r) for r in bad], [exp[r] for r in bad]))
        elif cats != sorted({json.dumps(c) for c in exp.values()}):
            problems.append("%s: ParquetFile.cats[%r] of the %s dataset = %s" % (via, col, k, cats[:6]))

    for rnd in (order, order[::-1]):
        for via in ("directory", "list", "list-of-3+"):
            for k in rnd:
                files = [os.path.join(roots[k], r) for r in rels[k]]
                if via == "directory":
                    look(k, via, lambda: ParquetFile(roots[k]))
                elif via == "list":
                    look(k, via, lambda: ParquetFile(files[:2], root=roots[k]))
                    continue
                elif len(files) >= 3:
                    look(k, via, lambda: ParquetFile(files, root=roots[k]))
            vias.append("pair:" + via)
    # without the summary files (listing + merge machinery), then merged again
    for k in order:
        for junk in ("_metadata", "_common_metadata"):
            os.unlink(os.path.join(roots[k], junk))
    for rnd in (order[::-1], order):
        for k in rnd:
            look(k, "directory without _metadata", lambda: ParquetFile(roots[k]))
    for k in order:
        files = [os.path.join(roots[k], r) for r in rels[k]]
        look(k, "merge", lambda: (writer.merge(files, root=roots[k]), ParquetFile(roots[k]))[1])
    vias += ["pair:directory without _metadata", "pair:merge"]
    if problems and ctx is not None:
        ctx.fail({"component": "several datasets in one process", "pair": kind, "stage": "values"}, {"pair_case": case}, "; ".join(problems[:4]))
    if verbose:
        for p in problems[:10]:
            print("PROBLEM:", p)
    return {"problems": problems, "trivial": False, "vias": vias}


# -------------------------------------------------------------------------------------------------- twins (harness/twins.py)
# the generalisation of stream P: the same colliding pairs, every way of opening them, each answer against a FRESH interpreter that has
# seen only that dataset (stream P compares with the values written; the twins catch state shared across datasets whatever it corrupts)
def _tw_nometa(root, case, which):
    from fastparquet import ParquetFile
    for junk in ("_metadata", "_common_metadata"):
        try:
            os.unlink(os.path.join(root, junk))
        except OSError:
            pass
    return L.twin_partition_answer(ParquetFile(root), case)


def _tw_merge(root, case, which):
    from fastparquet import ParquetFile, writer
    writer.merge(L.twin_files(root), root=root)
    return L.twin_partition_answer(ParquetFile(root), case)


def _tw_open(how):
    def op(root, case, which):
        from fastparquet import ParquetFile
        files = L.twin_files(root)
        if how == "directory":
            return L.twin_partition_answer(ParquetFile(root), case)
        if how == "list-of-2":
            return L.twin_partition_answer(ParquetFile(files[:2], root=root), case)
        if how == "instances":
            return L.twin_partition_answer(ParquetFile([ParquetFile(f) for f in files], root=root), case)
        return L.twin_partition_answer(ParquetFile(files, root=root), case)
    return op


from harness import twins as TW       # noqa: E402
twin_build = TW.partition_twins
TWIN_OPS = {"directory": _tw_open("directory"), "list-of-2": _tw_open("list-of-2"), "list-all": _tw_open("list-all"),
            "instances": _tw_open("instances"), "directory-without-summary": _tw_nometa, "merge": _tw_merge,
            "directory-again": _tw_open("directory")}


def _replayable(case):
    return {k: case.get(k) for k in ("shape", "files", "root_mode", "cat_mode", "verify", "bad_schema", "dup", "relative", "junk", "dir_slash", "colperm", "colperm_seed")}


def replay(rep):
    C.use_shadow()
    if rep.get("kind") == "no-failing-input-found":
        print(json.dumps(rep, indent=1, default=repr)[:6000])
        first = (rep.get("no_longer_checks") or [{}])[0]
        case = first.get("detail", {}).get("case") if isinstance(first.get("detail"), dict) else None
        if not (isinstance(case, dict) and "files" in case):
            return 1
    else:
        case = rep["case"]
    if "verify_files_case" in case:
        tmp = tempfile.mkdtemp(prefix="verif-C14-replay-", dir="/tmp")
        try:
            print(json.dumps(case["verify_files_case"]))
            out = C.pmap(lambda c: check_verify_files(c, os.path.join(tmp, "vf"), None, None, verbose=True)["problems"], [case["verify_files_case"]], nproc=1, job_timeout=300)[0]
            bad = bool(out) or (isinstance(out, dict) and "__crashed__" in out)
            print("PROPERTY FAILS" if bad else "property holds on this input", out if isinstance(out, dict) else "")
            return 1 if bad else 0
        finally:
            shutil.rmtree(tmp, ignore_errors=True)
    if "verify_case" in case:
        tmp = tempfile.mkdtemp(prefix="verif-C14-replay-", dir="/tmp")
        try:
            out = C.pmap(lambda c: check_verify(c, os.path.join(tmp, "v"), None, None, verbose=True)["problems"], [case["verify_case"]], nproc=1, job_timeout=300)[0]
            bad = bool(out) or (isinstance(out, dict) and "__crashed__" in out)
            print("PROPERTY FAILS" if bad else "property holds on this input", out if isinstance(out, dict) else "")
            return 1 if bad else 0
        finally:
            shutil.rmtree(tmp, ignore_errors=True)
    if "twins" in case:
        return TW.replay(case)
    if "pair_case" in case:
        tmp = tempfile.mkdtemp(prefix="verif-C14-replay-", dir="/tmp")
        try:
            print(json.dumps(case["pair_case"], indent=1))
            print("two hive datasets with the same relative paths, partitioned on %r: values as text / as %s; opened one after the other in one process"
                  % (case["pair_case"]["col"], case["pair_case"]["pair"]))
            out = C.pmap(lambda c: check_pair(c, os.path.join(tmp, "p"), None, None, verbose=True)["problems"], [case["pair_case"]], nproc=1, job_timeout=300)[0]
            bad = bool(out) or (isinstance(out, dict) and "__crashed__" in out)
            print("PROPERTY FAILS" if bad else "property holds on this input", out if isinstance(out, dict) else "")
            return 1 if bad else 0
        finally:
            shutil.rmtree(tmp, ignore_errors=True)
    if "files" not in case:
        from fastparquet import util
        print(json.dumps(case, indent=1))
        try:
            print("util.analyse_paths ->", util.analyse_paths(list(case["paths"]), root=False if case["root"] is None else case["root"]))
        except Exception as e:      # noqa
            print("util.analyse_paths raises", type(e).__name__, e)
        return 1
    pq = C.Pqref()
    tmp = tempfile.mkdtemp(prefix="verif-C14-replay-", dir="/tmp")
    try:
        print(json.dumps(case, indent=1)[:3000])
        # in a forked worker: a native crash of the real code is an observation of the replay, not its end
        out = C.pmap(lambda c: check_dataset(c, os.path.join(tmp, "ds"), L.worker_pq(), None, verbose=True)["problems"],
                     [case], nproc=1, job_timeout=300)[0]
        if isinstance(out, dict) and "__crashed__" in out:
            print("PROPERTY FAILS: the real code did not survive this input:", out["__crashed__"], out.get("tb", ""))
            return 1
        print("PROPERTY FAILS" if out else "property holds on this input")
        return 1 if out else 0
    finally:
        pq.close()
        shutil.rmtree(tmp, ignore_errors=True)
