"""C17 — metadata-only answers (columns, dtypes, categories, index, counts) match the data actually read
(DESIGN.md section 6, C17; level: partial - dtype realisation is mostly pandas).

Obligations: coq/props/C17.v (model Impl/Dtypes.v) + coq/genproofs/TablesAgree.v compiled against the tables
regenerated from the LIVE modules by translators/tables2coq.py (fail closed -> translator_fallback).
Tie, on every (file, option tuple): the extracted model against the real code
  predict            ~ ParquetFile._dtypes(categories)[field]        (per top-level field, incl. null evidence by position)
  realise            ~ dtype of the column / index that to_pandas() returns
  check_categories   ~ ParquetFile.check_categories(categories)
  count              ~ ParquetFile.count()
Oracle = the property executed on the real code: pf.columns / _dtypes / categories / cats / _get_index / count / info
taken BEFORE the read, against to_pandas(columns, categories, index, dtypes) of the same handle, for files written by
fastparquet (frames of C01, hive datasets partitioned on a column = C08), the foreign files under test-data, footers
with statistics or null counts removed; pandas_nulls True/False."""
import json
import os
import re
import shutil

from harness import common as C
from harness import xcheck as X
from harness import dtypeslib as D
from harness import frames as F
from harness import rt as RT
from harness import splice as SP

TRUSTED = [
    "Coq 8.16.1 kernel + coqc (vm_compute for the finite case analyses over the dtype tables); no native_compute",
    "extraction: ExtrOcamlBasic only, no Extract Constant; ocaml/driver.ml s-expression I/O (20 sampled pqref conversations per run are "
    "re-evaluated by the kernel: extract_agrees_k, harness/xcheck.py)",
    "translators/tables2coq.py (dumps converted_types.simple/complex/nullable/pandas_nullable, writer.typemap/revmap, "
    "encoding.DECODE_TYPEMAP and numpy's reading of the numpy_type texts as Gallina, sorted by key)",
    "harness/dtypeslib.py: the map between numpy/pandas dtype objects (or dtype texts) and the model's dtype universe; "
    "schema elements, pandas-metadata entries and row-group statistics as model arguments",
    "`realise` is a MODEL of dataframe.empty / pandas block allocation (numpy dtypes are kept, 'S<n>' becomes object, "
    "a datetime column named in the timezones is localised, an index keeps its dtype); pandas itself is not modelled - "
    "tied to the real code by the realise correspondence on every column of every case",
    "Python `in` on str = `contains` on the UTF-8 bytes (ASCII needles)",
    "harness/splice.py: builds a valid file from the column chunks of a nested foreign file and of a flat written file (offsets shifted, "
    "schema subtrees concatenated, footer rewritten); the nested columns decode identically to their source (checked when written)",
    "footers without Statistics / without null_count are produced by rewriting the footer of a written file on disk (same steps as "
    "writer.update_file_custom_metadata); pandas metadata is removed with the public update_file_custom_metadata",
]

I_NO_NAME = re.compile(r"__index_level_\d+__")
SMALL_SIZES = [0, 1, 2, 7, 8, 9, 63, 64, 65, 129, 257]


# ---------------------------------------------------------------------------------------------
# sources
# ---------------------------------------------------------------------------------------------

def list_foreign():
    root = os.path.join(C.REPO, "test-data")
    out = []
    for dp, dns, fns in os.walk(root):
        rel = os.path.relpath(dp, root)
        if "_metadata" in fns and rel != ".":
            out.append(rel)
        for f in sorted(fns):
            if f.endswith((".parquet", ".parq")) and not f.startswith("."):
                out.append(os.path.normpath(os.path.join(rel, f)))
    return sorted(set(out))


def gen_written(rng):
    n = rng.choice(SMALL_SIZES)
    spec = F.gen_spec(rng, n=n)
    if rng.random() < 0.12 and n > 0:       # an index of a nullable dtype (confirmation of the open finding) or other kinds
        k = rng.choice(["Int32", "Int64", "UInt8", "boolean", "int8", "float32", "dttz_us", "td_ns", "cat_str", "bool"])
        cs = {"name": "idx", "kind": k, "nulls": rng.choice(["none", "none", "some"]), "seed": rng.randrange(1 << 30)}
        if k.startswith("dttz"):
            cs["tz"] = rng.choice(F.TZS)
        if k.startswith("cat_"):
            cs["ncat"] = 3
        spec["index"] = cs
    o = RT.gen_opts(rng, spec)
    part = None
    if rng.random() < 0.2 and 0 < n <= 65:
        k = rng.choice(["cat_str", "bool", "int8", "str"])
        cs = {"name": "p_%s" % k, "kind": k, "nulls": "none", "seed": rng.randrange(1 << 30)}
        if k == "cat_str":
            cs["ncat"] = rng.choice([1, 2, 5])
        spec["cols"].append(cs)
        spec["part_mod"] = 3          # partition values are reduced to at most 3 distinct ones when the frame is built
        part = [cs["name"]]
        o["file_scheme"] = "hive"
        if rng.random() < 0.35:
            # a second level
            k2 = rng.choice([x for x in ["str", "int8", "bool"] if x != k])
            spec["cols"].append({"name": "q_%s" % k2, "kind": k2, "nulls": "none", "seed": rng.randrange(1 << 30)})
            part = part + ["q_%s" % k2]
    elif 0 < n <= 65 and rng.random() < 0.06:
        # partition_on passed for a SIMPLE file: nothing is partitioned, the column is an ordinary stored column
        k = rng.choice(["int8", "str", "bool"])
        spec["cols"].append({"name": "p_%s" % k, "kind": k, "nulls": "none", "seed": rng.randrange(1 << 30)})
        part = ["p_%s" % k]
        o["file_scheme"] = "simple"
    o["partition_on"] = part
    extra = []
    if rng.random() < 0.3 and n > 0:
        for j in range(rng.randint(1, 2)):
            k = rng.choice(["oint", "obool", "oint"])
            mode = rng.choice(["none", "some", "some", "all"])
            vals = []
            for _ in range(n):
                v = rng.randint(-2**40, 2**40) if k == "oint" else (rng.random() < 0.5)
                vals.append(None if (mode == "all" or (mode == "some" and rng.random() < 0.3)) else v)
            extra.append({"name": "x%d_%s" % (j, k), "kind": k, "v": vals})
    # has_nulls is the caller's declaration: a column that holds missing values must be declared (a REQUIRED categorical
    # column with missing cells is written with code -1 and cannot be read back as plain values - outside the contract)
    need = [c["name"] for c in spec["cols"] if c.get("nulls", "none") != "none" and c["kind"] not in F.NO_NULL_KINDS]
    need += [x["name"] for x in extra if None in x["v"]]
    if spec.get("index") and spec["index"].get("nulls", "none") != "none":
        need.append(spec["index"]["name"])
    hn = o["has_nulls"]
    if (hn is False or hn == "infer") and need:
        o["has_nulls"] = True
    elif isinstance(hn, list):
        o["has_nulls"] = sorted(set(hn) | set(need))
    case = {"source": "written", "spec": spec, "wopts": o, "extra": extra}
    if part and o["file_scheme"] == "hive":
        # PARTIAL views of a partitioned dataset: one part file opened alone, the first top-level partition directory (no
        # _metadata inside), the list of the part files below it (no root=), the list of all part files
        case["view"] = rng.choice([None, None, "single_file", "subdir", "sublist", "list_all"])
    # the pandas metadata removed from the footer ON DISK (public API update_file_custom_metadata): the file as a
    # reader without that key sees it - the null-evidence path of _dtypes
    case["nomd"] = bool(o["file_scheme"] == "simple" and rng.random() < 0.3)
    if o["file_scheme"] == "simple" and n > 0 and rng.random() < 0.25:
        ks = sorted(rng.sample(range(6), rng.randint(1, 6)))     # row-group numbers (those beyond the file's are ignored)
        case["strip"] = {"mode": rng.choice(["stats", "null_count", "null_count"]), "rgs": ks}
    return case


def build_written(case, root):
    import fastparquet
    from fastparquet import writer
    spec, o = case["spec"], case["wopts"]
    df = F.build(spec)
    for lvl, c in enumerate(o.get("partition_on") or []):
        s = df[c]
        if lvl == 1:
            # second level: two values, not aligned with the first level's
            if str(s.dtype) == "int8":
                df[c] = ((df.index.values if False else __import__("numpy").arange(len(s))) // 2 % 2).astype("int8")
            elif str(s.dtype) == "bool":
                df[c] = [(i // 2) % 2 == 0 for i in range(len(s))]
            else:
                df[c] = ["s%d" % ((i // 2) % 2) for i in range(len(s))]
            continue
        if str(s.dtype) == "int8":
            df[c] = (s % spec.get("part_mod", 3)).astype("int8")
        elif str(s.dtype) in ("object", "str", "string"):
            # safe labels: how '/', '=' and empty text in partition values are written into paths is C08's matter
            df[c] = ["p%d" % (i % 3) for i in range(len(s))]
        elif str(s.dtype) == "category":
            import pandas as pd
            df[c] = pd.Categorical(["q%d" % (i % 2) for i in range(len(s))])
    import pandas as pd
    oe = RT.object_encoding_for(spec, o)
    for x in case.get("extra") or []:
        df[x["name"]] = pd.Series(x["v"], dtype=object, index=df.index)
        if not isinstance(oe, dict):
            oe = {c["name"]: "infer" for c in spec["cols"]}
            if spec.get("index"):
                oe[spec["index"]["name"]] = "infer"
        oe[x["name"]] = "int" if x["kind"] == "oint" else "bool"
    path = os.path.join(root, "ds" if o["file_scheme"] != "simple" else "f.parquet")
    if os.path.isdir(path):
        shutil.rmtree(path)
    elif os.path.exists(path):
        os.unlink(path)
    old = writer.MAX_PAGE_SIZE, writer.DATAPAGE_VERSION
    try:
        if o["page_size"]:
            writer.MAX_PAGE_SIZE = o["page_size"]
        writer.DATAPAGE_VERSION = o["dpv"]
        kw = dict(compression=o["compression"], has_nulls=o["has_nulls"], stats=o["stats"], times=o["times"],
                  object_encoding=oe, file_scheme=o["file_scheme"], write_index=o["write_index"])
        if o["row_group_offsets"] is not None:
            kw["row_group_offsets"] = o["row_group_offsets"]
        if o.get("partition_on"):
            kw["partition_on"] = o["partition_on"]
        fastparquet.write(path, df, **kw)
    finally:
        writer.MAX_PAGE_SIZE, writer.DATAPAGE_VERSION = old
    if case.get("nomd") == "partial":
        # PARTIAL pandas metadata (as another tool rewriting the footer may leave it): the entries of the categorical columns and of
        # the index are dropped from 'columns', the rest stays
        pf_ = fastparquet.ParquetFile(path)
        md_ = json.loads(pf_.key_value_metadata["pandas"])
        md_["columns"] = [e for e in md_["columns"] if e.get("pandas_type") != "categorical" and e.get("name") not in md_.get("index_columns", [])]
        writer.update_file_custom_metadata(path, {"pandas": json.dumps(md_)})
    elif case.get("nomd"):
        writer.update_file_custom_metadata(path, {"pandas": None})
    if case.get("strip"):
        apply_strip(path, case["strip"])
    return path, df


NESTED_SRC = "map_array.parq"          # 125 rows, one row group: 4 MAP fields (2 leaves each) and 4 LIST fields
NESTED_FIELDS = ["map_op_op", "map_op_req", "map_req_op", "map_req_req", "arr_op_op", "arr_op_req", "arr_req_op", "arr_req_req"]
NESTED_ROWS = 125


def gen_spliced(rng):
    """a VALID file with multi-leaf group fields BEFORE flat columns: the column chunks of 1-3 nested fields of a foreign
    file spliced with the chunks of a flat frame written by fastparquet (harness/splice.py); no pandas metadata"""
    spec = F.gen_spec(rng, n=NESTED_ROWS, ncols=rng.choice([2, 3, 4]), index=False,
                      kinds=["int8", "int32", "int64", "uint16", "uint64", "Int16", "Int64", "UInt32", "boolean", "bool", "float64", "str", "dt_us", "cat_int"])
    o = RT.gen_opts(rng, spec)
    o.update(file_scheme="simple", row_group_offsets=None, write_index=False, partition_on=None, has_nulls=True)
    k = rng.randint(1, 3)
    fields = [f for f in NESTED_FIELDS if f in set(rng.sample(NESTED_FIELDS, k))]
    if not any(f.startswith("map") for f in fields):
        fields = [rng.choice(NESTED_FIELDS[:4])] + fields
    return {"source": "spliced", "nested": NESTED_SRC, "fields": fields, "spec": spec, "wopts": o, "extra": [], "nomd": False}


def apply_view(case, path):
    v = case.get("view")
    if not v or not os.path.isdir(path):
        return path
    files = []
    for dp, dns, fns in os.walk(path):
        dns.sort()
        for f in sorted(fns):
            if f.endswith(".parquet"):
                files.append(os.path.join(dp, f))
    files.sort()
    if not files:
        return path
    if v == "single_file":
        return files[0]
    if v == "list_all":
        return files
    top = os.path.join(path, os.path.relpath(files[0], path).split(os.sep)[0])
    if v == "subdir":
        return top
    return [f for f in files if f.startswith(top + os.sep)]


def open_case(case, root):
    """-> path of the dataset of `case` (written now, spliced, or the foreign file), original frame or None"""
    if case["source"] == "written":
        path, df = build_written(case, root)
        if case.get("view"):
            return apply_view(case, path), None
        return path, df
    if case["source"] == "spliced":
        flat, _ = build_written(case, root)
        out = os.path.join(root, "spliced.parquet")
        SP.splice(out, os.path.join(C.REPO, "test-data", case["nested"]), case["fields"], flat)
        return out, None
    return os.path.join(C.REPO, "test-data", case["rel"]), None


def dict_encoded_everywhere(pf, name):
    for rg in pf.row_groups:
        for col in rg.columns:
            if ".".join(col.meta_data.path_in_schema) == name:
                enc = set(col.meta_data.encodings or [])
                if not enc & {2, 8}:
                    return False
    return bool(pf.row_groups)


def gen_ropts(rng, pf):
    """read options drawn from what the handle offers (names are data in the case: the replay does not regenerate)"""
    cols = list(pf.columns)
    pcats = list(pf.cats)
    allc = cols + pcats
    ro = {"columns": None, "categories": None, "index": None, "dtypes": None, "invalid_categories": False}
    if allc and rng.random() < 0.35:
        k = rng.randint(1, len(allc))
        sub = rng.sample(allc, k)
        if rng.random() < 0.6:
            sub = [c for c in allc if c in sub]
        ro["columns"] = sub
    stored = list(pf.categories) if pf.has_pandas_metadata else []
    r = rng.random()
    if r < 0.5:
        pass
    elif r < 0.6:
        ro["categories"] = []
    elif r < 0.8 and stored:
        ro["categories"] = rng.sample(stored, rng.randint(1, len(stored)))
    elif r < 0.9 and stored:
        ro["categories"] = {c: int(pf.categories[c]) if isinstance(pf.categories[c], int) else 16 for c in rng.sample(stored, rng.randint(1, len(stored)))}
    elif cols:
        c = rng.choice(cols)
        ro["categories"] = sorted(set((stored[:1] if rng.random() < 0.5 else []) + [c]))
        ro["invalid_categories"] = c not in stored          # may be refused by the prediction and/or by the read
    r = rng.random()
    avail = ro["columns"] if ro["columns"] is not None else allc
    if r < 0.55 or not cols:
        pass
    elif r < 0.75:
        ro["index"] = False
    elif r < 0.93:
        ro["index"] = rng.choice(cols)
    elif len(stored) >= 2:
        # a multi-index is assembled from dictionary codes: only stored categoricals can be its levels
        ro["index"] = rng.sample(stored, 2)
        if ro["categories"] is not None and not ro.get("invalid_categories"):
            ro["categories"] = None
    # every read option also on an EMPTY selection (a handle that selects no row group); datasets without row groups come from n = 0
    if rng.random() < 0.15:
        ro["empty"] = "slice"
    p_over = 0.5 if (ro.get("empty") or not pf.row_groups) else (0.35 if stored else 0.12)
    if rng.random() < p_over and cols and ro["columns"] is None and not ro["categories"]:
        c = rng.choice(cols)
        t = D.dt_of(pf.dtypes[c])
        new = {("int", True, 32): "int64", ("int", True, 8): "int32", ("float", 32): "float64", ("int", False, 8): "uint16",
               ("int", True, 64): "float64", ("bool",): "int8"}.get(t)
        ro["dtypes"] = {c: new} if new else {}
        # the mapping handed to to_pandas(dtypes=...) describes the other columns as predicted ('pred': categoricals as
        # 'category') or by their VALUE types ('values': what _dtypes(categories=[]) says; columns read as categories, index
        # columns included, must still come back categorical)
        ro["dtypes_base"] = rng.choice(["pred", "values", "values"])
        # ... crossed with the index choice: a stored categorical as index (None = the stored index, possibly categorical; a name; False)
        if stored and ro["categories"] is None and rng.random() < 0.6:
            ro["index"] = rng.choice([rng.choice(stored), rng.choice(stored), False, None])
    return ro


def gen_override_ropts(rng, pf):
    """the to_pandas(dtypes=...) override crossed with categorical columns / a categorical index: the mapping describes every
    column by its VALUE type (or as predicted), the index is a stored categorical / the stored index / suppressed"""
    stored = list(pf.categories) if pf.has_pandas_metadata else []
    ro = {"columns": None, "categories": None, "index": None, "dtypes": {}, "invalid_categories": False,
          "dtypes_base": rng.choice(["values", "values", "pred"])}
    if stored:
        ro["index"] = rng.choice([rng.choice(stored), rng.choice(stored), None, False])
    else:
        ro["index"] = rng.choice([None, False] + list(pf.columns)[:1])
    if rng.random() < 0.25:
        ro["empty"] = "slice"
    # columns= crossed with dtypes=: the mapping covers ALL stored columns while a subset is requested ("all"), or names fewer
    # columns than are requested ("sub"): the frame has the requested columns the mapping names, read with the mapping's dtypes
    cols = list(pf.columns)
    r = rng.random()
    if r < 0.3 and len(cols) >= 2:
        k = rng.randint(1, len(cols) - 1)
        sub = rng.sample(cols, k)
        ro["columns"] = [c for c in cols if c in sub]
        ro["dtypes_scope"] = "all"
        if isinstance(ro["index"], str) and ro["index"] not in ro["columns"]:
            ro["index"] = None
    elif r < 0.5 and len(cols) >= 2:
        cand = [c for c in cols if c != ro["index"]]
        if cand:
            ro["dtypes_scope"] = "sub"
            ro["dtypes_drop"] = [rng.choice(cand)]
    return ro


def apply_strip(path, strip):
    """Rewrite the footer of a single-file dataset ON DISK without the Statistics struct ('stats') or without its
    null_count field ('null_count') in the given row groups (both are optional in the format): the file as another
    writer could have produced it.  Same footer rewrite as writer.update_file_custom_metadata."""
    import struct
    from fastparquet.cencoding import from_buffer
    from fastparquet.writer import write_thrift
    with open(path, "rb+") as f:
        loc0 = f.seek(-8, 2)
        size = int.from_bytes(f.read(4), "little")
        loc = loc0 - size
        f.seek(loc)
        fmd = from_buffer(f.read(), "FileMetaData")
        for k in strip["rgs"]:
            if k >= len(fmd.row_groups):
                continue
            for col in fmd.row_groups[k].columns:
                if strip["mode"] == "stats":
                    col.meta_data.statistics = None
                elif col.meta_data.statistics is not None:
                    col.meta_data.statistics.null_count = None
        f.seek(loc)
        foot = write_thrift(f, fmd)
        f.write(struct.pack(b"<I", foot))
        f.write(b"PAR1")
        f.truncate()


# ---------------------------------------------------------------------------------------------
# the property on one (dataset, options)
# ---------------------------------------------------------------------------------------------

def names_of_index(idx):
    return [None if (n is None or I_NO_NAME.match(n)) else n for n in idx]


def examine(case, path, pq=None, ctx=None):
    """-> (status, fails) ; status in {'ok', 'unopenable', 'rejected'}; fails = [(cls, detail)]"""
    import pandas as pd
    from fastparquet import ParquetFile
    ro, pn = case["ropts"], case["pn"]
    fails = []
    base = {"source": case["source"], "file": case.get("rel"), "pandas_nulls": pn, "categories": type(ro["categories"]).__name__, "strip": (case.get("strip") or {}).get("mode"),
            "index_opt": "none" if ro["index"] is None else ("false" if ro["index"] is False else ("list" if isinstance(ro["index"], list) else "name")),
            "dtypes_override": bool(ro["dtypes"] or ro.get("dtypes_base")), "columns_opt": ro["columns"] is not None}

    def fail(component, what, detail, **kw):
        fails.append(({**base, "component": component, "what": what, **kw}, detail))
    try:
        pf = ParquetFile(path, pandas_nulls=pn)
        if ro.get("empty") == "slice":
            pf = pf[:0]               # a handle that selects no row group: every answer and every option again
    except Exception as e:        # noqa  (an unreadable foreign file is C03's concern)
        return "unopenable", [("%s: %s" % (type(e).__name__, str(e)[:100]))]
    base["empty_selection"] = bool(ro.get("empty")) or not pf.row_groups
    cats_arg = ro["categories"]
    # ---------------- metadata-only answers, taken before any data is read ----------------
    pred, pred_err = None, None
    try:
        pred = dict(pf._dtypes(cats_arg))
    except Exception as e:        # noqa
        pred_err = "%s: %s" % (type(e).__name__, str(e)[:120])
    cols = list(pf.columns)
    pcats = {k: list(v) for k, v in pf.cats.items()}
    idx = pf._get_index(ro["index"])
    cnt = pf.count()
    info = pf.info
    rg_rows = [int(rg.num_rows) for rg in pf.row_groups]
    try:
        final_cats = set(pf.check_categories(cats_arg))
        cc_err = None
    except Exception as e:        # noqa
        final_cats, cc_err = None, type(e).__name__
    tzs = dict(pf.tz or {})
    try:
        rep_categ = dict(pf.categories)          # the categorical columns the handle REPORTS (metadata only)
    except Exception as e:        # noqa
        rep_categ = None
        fail("categories", "property-raises", "pf.categories raises %s: %s" % (type(e).__name__, str(e)[:100]))
    # ---------------- the read ----------------
    req_cols = ro["columns"]
    if ro.get("empty") and req_cols is not None:
        # (the options were drawn from the full handle: a selection without row groups of a partitioned dataset has no
        #  partition columns - C06's open finding - so they cannot be requested from it)
        req_cols = [c for c in req_cols if c in cols or c in pcats]
    want = list(req_cols) if req_cols is not None else cols + list(pcats)
    kw = {"categories": cats_arg, "index": ro["index"]}
    if req_cols is not None:
        kw["columns"] = list(req_cols)
    override = {}
    if (ro["dtypes"] or ro.get("dtypes_base")) and pred is not None:
        basep = pred
        if ro.get("dtypes_base") == "values":
            try:
                basep = dict(ParquetFile(path, pandas_nulls=pn)._dtypes([]))
            except Exception:        # noqa
                basep = pred
        dts = {c: basep[c] for c in want + [i for i in (idx or []) if i not in want] if c in basep}
        if ro.get("dtypes_scope") == "all":
            dts.update({c: basep[c] for c in cols if c in basep and c not in dts})       # a superset of what is requested
        elif ro.get("dtypes_scope") == "sub":
            for c in ro.get("dtypes_drop") or []:
                if c not in (idx or []):
                    dts.pop(c, None)                                                          # fewer columns than requested
        dts.update(dict(ro["dtypes"] or {}))
        kw["dtypes"] = dts
        # what the caller's mapping promises: its dtype for every column, except that a column read as a category (the
        # categories request / a partition column) is categorical whatever the mapping says (api._pre_allocate)
        override = {c: v for c, v in dts.items() if not ((final_cats is not None and c in final_cats) or c in pcats)}
    df, read_err = None, None
    try:
        df = pf.to_pandas(**kw)
    except Exception as e:        # noqa
        read_err = "%s: %s" % (type(e).__name__, str(e)[:200])
    if ctx is not None:
        ctx.count("outcome", "read" if df is not None else ("rejected-by-both" if pred_err else "read-raises"))
    if pred_err and read_err:
        return "rejected", fails
    if pred_err and not read_err:
        fail("dtypes", "prediction-raises-read-works", "_dtypes(categories) raises %s but to_pandas succeeds" % pred_err)
        return "ok", fails
    if read_err:
        if ro.get("invalid_categories"):
            # the request names a column that is not a stored categorical (maybe holds no dictionary): refusing it is right
            if ctx is not None:
                ctx.count("invalid categories request refused by the read with", read_err.split(":")[0])
            return "rejected", fails
        masked_idx = bool(idx) and any(D.dt_of(pred.get(i, "O"))[0] in ("nint", "nbool") for i in idx)
        fail("index" if masked_idx else "read", "read-raises",
             "metadata answered (columns %s, index %s) but to_pandas raises %s" % (cols[:6], idx, read_err), masked=masked_idx)
        return "ok", fails
    # ---------------- columns / index ----------------
    multi_cols = isinstance(df.columns, pd.MultiIndex)
    exp_cols = [c for c in want if c not in (idx or [])]
    if "dtypes" in kw:
        # with a dtypes= mapping: the requested columns that the mapping names
        exp_cols = [c for c in exp_cols if c in kw["dtypes"] or c in pcats]
    if multi_cols:
        if ctx is not None:
            ctx.count("skipped", "column multi-index")
    elif list(df.columns) != exp_cols:
        fail("columns", "names-or-order", "handle: columns %s + partitions %s, index %s, requested %s => expected %s; frame has %s" % (
            cols, list(pcats), idx, req_cols, exp_cols, list(df.columns)))
    if idx:
        if list(df.index.names) != names_of_index(idx):
            fail("index", "names", "_get_index -> %s, frame index names %s" % (idx, list(df.index.names)))
    elif not isinstance(df.index, pd.RangeIndex):
        fail("index", "names", "_get_index -> no index, frame index is %s %s" % (type(df.index).__name__, list(df.index.names)))
    # ---------------- dtypes ----------------
    actual = {}
    if not multi_cols:
        for c in df.columns:
            actual[c] = df[c].dtype
    for c, a in actual.items():
        p = override.get(c, pred.get(c))
        if p is None:
            fail("dtypes", "column-not-predicted", "frame column %r has no entry in the predicted dtypes" % (c,))
            continue
        tp, ta = D.dt_of(p), D.dt_of(a)
        if tp != ta:
            fail("dtypes", "column-dtype", "column %r: predicted %r, read %r" % (c, str(p), str(a)), kind=tp[0], masked=False)
    if idx and len(idx) == 1 and not isinstance(df.index, pd.MultiIndex):
        p = override.get(idx[0], pred.get(idx[0]))
        if p is not None:
            tp, ta = D.dt_of(p), D.dt_of(df.index.dtype)
            if tp != ta:
                fail("index", "dtype", "index column %r: predicted %r, frame index dtype %r" % (idx[0], str(p), str(df.index.dtype)),
                     kind=tp[0], masked=tp[0] in ("nint", "nbool"))
    elif idx and ctx is not None:
        ctx.count("skipped", "multi-index level dtypes")
    # ---------------- categoricals and partition columns ----------------
    if final_cats is not None and not multi_cols:
        exp_cat = {c for c in df.columns if (c in final_cats or c in pcats)}
        act_cat = {c for c in df.columns if isinstance(df[c].dtype, pd.CategoricalDtype)}
        if exp_cat != act_cat:
            fail("categories", "set", "categorical per the handle: %s; categorical in the frame: %s" % (sorted(exp_cat), sorted(act_cat)))
    # partition columns reported (partition_names / cats) = partition columns read: columns that come from the PATHS of the
    # row groups this handle holds (a partial view of a partitioned dataset shows fewer levels; a simple file shows none)
    try:
        pnames = list(pf.partition_names)
    except Exception as e:        # noqa
        pnames = None
        fail("partitions", "names-raise", "partition_names raises %s: %s" % (type(e).__name__, str(e)[:100]))
    if pnames is not None and pf.row_groups:
        stored = {".".join(c.meta_data.path_in_schema[:1]) for c in pf.row_groups[0].columns}
        from_paths = [c for c in (list(df.columns) + [i for i in (idx or []) if i]) if c in pcats and c not in stored] if ro["columns"] is None else None
        if pnames != list(pcats) or any(p in cols for p in pnames) or (from_paths is not None and not multi_cols and sorted(from_paths) != sorted(pnames)):
            fail("partitions", "names", "partition_names %r, cats %r, stored columns %r; columns of the frame that are not stored in the files: %r" % (
                pnames, list(pcats), sorted(cols)[:8], from_paths))
    # the categorical columns the handle reports (ParquetFile.categories: from the pandas metadata, from the old 'fastparquet.cats'
    # key, from whatever hint is left when the pandas metadata is absent / removed / partial) = the categorical columns a default
    # read delivers
    if rep_categ is not None and cats_arg is None and "dtypes" not in kw and not multi_cols:
        rep = sorted(c for c in rep_categ if c in df.columns)
        act = sorted(str(c) for c in df.columns if isinstance(df[c].dtype, pd.CategoricalDtype) and c not in pcats)
        if rep != act:
            fail("categories", "reported-vs-read", "pf.categories reports %s as categorical (pandas metadata %s), the default read delivers %s as categorical" % (
                rep, "present" if pf.has_pandas_metadata else "ABSENT", act))
    for c, vals in pcats.items():
        if not multi_cols and c in df.columns and isinstance(df[c].dtype, pd.CategoricalDtype):
            got = list(df[c].cat.categories)
            if got != list(vals) or [isinstance(x, str) for x in got] != [isinstance(x, str) for x in vals]:
                fail("partitions", "labels", "pf.cats[%r] = %r, frame categories %r" % (c, vals, got))
    # ---------------- counts ----------------
    if not (len(df) == cnt == info["rows"] == sum(rg_rows)):
        fail("counts", "rows", "len(frame) %d, count() %d, info['rows'] %d, sum of row-group num_rows %d" % (len(df), cnt, info["rows"], sum(rg_rows)))
    if not (info["row_groups"] == len(pf.row_groups) == len(pf)):
        fail("counts", "row_groups", "info %r, len(row_groups) %d, len(pf) %d" % (info["row_groups"], len(pf.row_groups), len(pf)))
    if info["columns"] != cols or info["partitions"] != list(pcats):
        fail("columns", "info", "info %r vs columns %r cats %r" % (info, cols, list(pcats)))
    if len(rg_rows) <= 4 and len(df.columns) > 0 and "dtypes" not in kw:
        try:
            lens = [len(d) for d in pf.iter_row_groups(**kw)]
            if lens != [r for r in rg_rows if r > 0]:
                fail("counts", "per-row-group", "row-group num_rows %s, lengths read per row group %s" % (rg_rows, lens))
        except Exception as e:        # noqa
            fail("counts", "per-row-group", "iter_row_groups raises %s: %s" % (type(e).__name__, str(e)[:120]))
    # ---------------- ties ----------------
    if case.get("nomd") == "partial":
        # (the `predict` model takes the metadata entry of the field and treats a missing entry under present pandas metadata as
        #  an error, as older code did; the code now falls back on the schema: oracle only on partial metadata)
        if ctx is not None:
            ctx.count("skipped", "model ties on PARTIAL pandas metadata")
        return "ok", fails
    if pq is None or ro.get("empty"):
        # (a selection inherits the dtypes its parent derived from ALL its row groups - C17_handle_derived_inherits - the
        #  `predict` model is evaluated on the handle's own row groups: no model ties on derived handles)
        return "ok", fails
    has_md = bool(pf.has_pandas_metadata)
    md = {c["name"]: c for c in pf.pandas_metadata["columns"]} if has_md else {}
    rgs = D.rgs_args(pf)
    paths = [".".join(c.meta_data.path_in_schema).encode() for c in pf.row_groups[0].columns] if pf.row_groups else []
    fields = [(name, f) for name, f in pf.schema.root["children"].items() if getattr(f, "isflat", False) is False]
    ccase = {"source": case["source"], "file": case.get("rel") or {"spec": case["spec"], "wopts": case["wopts"], "extra": case.get("extra"), "nomd": case.get("nomd"),
                                                                    "nested": case.get("fields")}, "pn": pn,
             "ropts": ro, "strip": case.get("strip")}
    flat_names = [name for name, f in fields if f.num_children in (None, 0)]
    if any(not set(flat_names) <= {".".join(c.meta_data.path_in_schema) for c in rg.columns} for rg in pf.row_groups if rg.num_rows):
        # row groups that hold no chunk of some column (files with different columns put together): the code then types int/bool
        # columns from the null evidence only (fix in _dtypes); the model's `predict` has no such input - not compared
        ctx.count("skipped", "predict on a dataset whose row groups lack chunks of some column")
        fields = []
    for i, (name, f) in enumerate(fields):
        ent = md.get(name)
        nt = str((ent or {}).get("numpy_type", ""))
        if ent and "time" in nt and nt not in KNOWN_NP:
            m_ = re.match(r"^(datetime64\[(?:s|ms|us|ns))(, [^\]]+)\]$", nt)
            if m_ and (ent.get("metadata") or {}).get("timezone") and (f.converted_type is None or (f.logicalType is not None and f.logicalType.TIMESTAMP is not None)):
                # fastparquet's own zoned columns: numpy_type carries the zone text.  typemap does not look at it (logical
                # TIMESTAMP / bare INT96) and _dtypes only takes the unit from it: pass the unit-only text (glue)
                ent = dict(ent)
                ent["numpy_type"] = m_.group(1) + "]"
                ctx.count("glue", "zone text dropped from numpy_type")
            else:
                ctx.count("skipped", "numpy_type text outside the model's table: %s" % nt)
                continue
        as_cat = final_cats is not None and (name in final_cats or name in pcats)
        if pf.row_groups:
            cs0 = pf.row_groups[0].columns
            own = i < len(cs0) and ".".join(cs0[i].meta_data.path_in_schema) == name
            ctx.count("position", "chunk i is the field's own" if own else "chunk i is ANOTHER column's or missing (nested schema)")
        m = D.res_from_sx(pq.call("predict", [True, True, True, True], has_md, pn, D.se_args(f), D.md_args(ent), paths, name.encode(), i, rgs, as_cat))
        ip = D.dt_of(pred[name])
        if ip[0] == "other":
            ctx.count("skipped", "dtype outside the model's universe: %s" % ip[1])
            continue
        ctx.correspondence("predict ~ ParquetFile._dtypes(categories)[field]", {**ccase, "field": name, "position": i}, m, ("ok", ip))
        ctx.count("predicted", ip[0] + ("" if len(ip) < 2 else ":" + ":".join(str(x) for x in ip[1:])))
        if name in actual and name not in override:
            ta = D.dt_of(actual[name])
            r = D.dt_from_sx(pq.call("realise", False, name in tzs, D.dt_sx(ip)))
            if ta[0] != "other":
                ctx.correspondence("realise ~ dtype of the column to_pandas returns", {**ccase, "field": name}, r, ta)
        if idx and len(idx) == 1 and idx[0] == name and not isinstance(df.index, pd.MultiIndex) and name not in override:
            ta = D.dt_of(df.index.dtype)
            r = D.dt_from_sx(pq.call("realise", True, name in tzs, D.dt_sx(ip)))
            if ta[0] != "other":
                ctx.correspondence("realise_index ~ dtype of the index to_pandas returns", {**ccase, "field": name}, r, ta)
    categ = list(pf.categories) if has_md else []
    arg = None if cats_arg is None else [[c.encode() for c in cats_arg]]
    mc = pq.call("check_categories", has_md, [c.encode() for c in categ], len(pf.row_groups), arg)
    mset = None if not mc else sorted(x.decode() for x in mc[0])
    ctx.correspondence("check_categories ~ ParquetFile.check_categories", {**ccase, "categ": categ}, mset, None if final_cats is None else sorted(final_cats))
    ctx.correspondence("count ~ ParquetFile.count()", ccase, pq.call("count", rg_rows), cnt)
    if pnames is not None:
        try:
            meta_names = [str(x) for x in pf.partition_meta]
        except Exception:        # noqa
            meta_names = []
        mpn = pq.call("partition_names", [c.encode() for c in pcats], len(pf.row_groups), [m.encode() for m in meta_names])
        ctx.correspondence("PartNames.partition_names ~ ParquetFile.partition_names", {**ccase, "cats": list(pcats), "meta": meta_names},
                           [bytes(x).decode() for x in (mpn or [])], [str(x) for x in pnames])
    stored_ix = []
    for ic in (pf.pandas_metadata.get("index_columns", []) if has_md else []):
        if isinstance(ic, str):
            stored_ix.append([ic.encode(), False])
        elif isinstance(ic, dict):
            stored_ix.append([str(ic.get("name")).encode(), ic.get("kind") == "range"])
    ia = [] if ro["index"] is None else ([0] if ro["index"] is False else [[x.encode() for x in ([ro["index"]] if isinstance(ro["index"], str) else ro["index"])]])
    mi = [x.decode() for x in pq.call("get_index", stored_ix, ia)]
    ctx.correspondence("get_index ~ ParquetFile._get_index", {**ccase, "stored": repr(stored_ix)}, mi, list(idx or []))
    if not multi_cols and "dtypes" not in kw:
        mfc = pq.call("frame_columns", [c.encode() for c in cols], [c.encode() for c in pcats],
                      None if ro["columns"] is None else [[c.encode() for c in ro["columns"]]], [c.encode() for c in (idx or [])])
        ctx.correspondence("frame_columns ~ columns of the frame to_pandas returns", ccase, [x.decode() for x in mfc], [str(c) for c in df.columns])
    return "ok", fails


KNOWN_NP = set()


def examine_sequence(case, path, ctx=None):
    """Short call sequence on ONE handle: case["sequence"] = [{"call": to_pandas|head|iter_row_groups, "ropts": ...}, ...].
    Before each step the metadata-only answers are taken from a FRESH handle (nothing is asked of the used handle before
    the read, so that a stale cache is not refreshed by the check itself); the step's frame is compared with those answers,
    and afterwards the used handle's own answers (columns, count, categories, index, dtypes attribute) with the fresh ones
    and with the frame just read.  -> (status, fails)"""
    import pandas as pd
    from fastparquet import ParquetFile
    pn = case["pn"]
    fails = []
    base = {"source": case["source"], "file": case.get("rel"), "pandas_nulls": pn, "categories": "sequence", "strip": (case.get("strip") or {}).get("mode"),
            "index_opt": "sequence", "dtypes_override": False, "columns_opt": False}

    def fail(component, what, detail, **kw):
        fails.append(({**base, "component": component, "what": what, "masked": False, **kw}, detail))
    try:
        used = ParquetFile(path, pandas_nulls=pn)
    except Exception as e:        # noqa
        return "unopenable", ["%s: %s" % (type(e).__name__, str(e)[:100])]
    done = []
    for k, step in enumerate(case["sequence"]):
        ro, call = step["ropts"], step["call"]
        where = "step %d %s(%s) after %s" % (k, call, {x: ro[x] for x in ("columns", "categories", "index")}, done or "nothing")
        fresh = ParquetFile(path, pandas_nulls=pn)
        try:
            pred = dict(fresh._dtypes(ro["categories"]))
            final_cats = set(fresh.check_categories(ro["categories"]))
        except Exception as e:        # noqa
            pred, final_cats = None, None
        cols, pcats, idx, cnt = list(fresh.columns), {c: list(v) for c, v in fresh.cats.items()}, fresh._get_index(ro["index"]), fresh.count()
        kw = {"categories": ro["categories"], "index": ro["index"]}
        if ro["columns"] is not None:
            kw["columns"] = list(ro["columns"])
        df, err = None, None
        try:
            if call == "to_pandas":
                df = used.to_pandas(**kw)
                explen = cnt
            elif call == "head":
                df = used.head(3, **kw)
                explen = min(3, cnt)
            else:
                parts = list(used.iter_row_groups(**kw))
                explen = cnt
                df = parts          # every row group's frame is checked on its own (concatenating would merge category sets)
        except Exception as e:        # noqa
            err = "%s: %s" % (type(e).__name__, str(e)[:160])
        done.append("%s(categories=%r%s%s)" % (call, ro["categories"], "" if ro["columns"] is None else ", columns", "" if ro["index"] is None else ", index=%r" % (ro["index"],)))
        if ctx is not None:
            ctx.count("sequence.step", call + ("" if err is None else " raises"))
        if err is not None or pred is None:
            # is it the sequence, or does a fresh handle refuse the same call too?
            try:
                f2 = ParquetFile(path, pandas_nulls=pn)
                (f2.to_pandas(**kw) if call == "to_pandas" else (f2.head(3, **kw) if call == "head" else list(f2.iter_row_groups(**kw))))
                fresh_ok = True
            except Exception:        # noqa
                fresh_ok = False
            if err is not None and fresh_ok:
                fail("sequence", "read-raises-only-after-earlier-calls", "%s: raises %s, the same call on a fresh handle works" % (where, err))
            if err is None and pred is None and ro.get("invalid_categories") is not True:
                fail("sequence", "prediction-raises-read-works", "%s: a fresh handle refuses _dtypes/check_categories for this request but the read works" % where)
            continue
        if df is None:
            continue
        frames = df if isinstance(df, list) else [df]
        want0 = list(ro["columns"]) if ro["columns"] is not None else cols + list(pcats)
        if call == "iter_row_groups" and not [c for c in want0 if c not in (idx or [])]:
            continue          # iter_row_groups drops frames without data columns (df.empty): C06's matter
        if sum(len(x) for x in frames) != explen:
            fail("sequence", "rows", "%s: %d rows read, count() of a fresh handle %d (expected %d)" % (where, sum(len(x) for x in frames), cnt, explen))
        frames = [x for x in frames if not isinstance(x.columns, pd.MultiIndex)]
        want = list(ro["columns"]) if ro["columns"] is not None else cols + list(pcats)
        for df in frames:
            exp_cols = [c for c in want if c not in (idx or [])]
            if list(df.columns) != exp_cols:
                fail("sequence", "columns", "%s: a fresh handle answers columns %s + partitions %s, index %s => %s; frame has %s" % (where, cols, list(pcats), idx, exp_cols, list(df.columns)))
            if call != "iter_row_groups":
                if idx and list(df.index.names) != names_of_index(idx):
                    fail("sequence", "index-names", "%s: _get_index of a fresh handle %s, frame index names %s" % (where, idx, list(df.index.names)))
            for c in df.columns:
                if c not in pred:
                    fail("sequence", "column-not-predicted", "%s: frame column %r not in the fresh handle's dtypes" % (where, c))
                    continue
                tp, ta = D.dt_of(pred[c]), D.dt_of(df[c].dtype)
                if tp != ta:
                    fail("sequence", "column-dtype", "%s: column %r: a fresh handle predicts %r, this handle read %r" % (where, c, str(pred[c]), str(df[c].dtype)), kind=tp[0])
            exp_cat = {c for c in df.columns if c in final_cats or c in pcats}
            act_cat = {c for c in df.columns if isinstance(df[c].dtype, pd.CategoricalDtype)}
            if exp_cat != act_cat:
                fail("sequence", "categories", "%s: categorical per a fresh handle %s, in the frame %s" % (where, sorted(exp_cat), sorted(act_cat)))
        df = frames[-1] if frames else None
        if df is None:
            continue
        # the used handle's own answers after the step
        try:
            ucols, ucnt, ucateg, uidx = list(used.columns), used.count(), dict(used.categories), used._get_index(ro["index"])
            if ucols != cols or ucnt != cnt or ucateg != dict(fresh.categories) or uidx != idx or list(used.cats) != list(pcats):
                fail("sequence", "handle-answers-drift", "%s: this handle now answers columns %s count %s categories %s index %s; a fresh handle: %s %s %s %s" % (
                    where, ucols, ucnt, ucateg, uidx, cols, cnt, dict(fresh.categories), idx))
            if call == "to_pandas":
                ud = dict(used.dtypes)
                for c in df.columns:
                    if c in ud and D.dt_of(ud[c]) != D.dt_of(df[c].dtype):
                        fail("sequence", "dtypes-attribute-stale", "%s: pf.dtypes[%r] = %r after the read, the frame it returned has %r" % (where, c, str(ud[c]), str(df[c].dtype)))
        except Exception as e:        # noqa
            fail("sequence", "handle-answers-raise", "%s: asking the handle afterwards raises %s: %s" % (where, type(e).__name__, str(e)[:120]))
    # state independence of the prediction function at the end of the sequence
    try:
        fresh = ParquetFile(path, pandas_nulls=pn)
        a, b = dict(used._dtypes(None)), dict(fresh._dtypes(None))
        if {k: D.dt_of(v) for k, v in a.items()} != {k: D.dt_of(v) for k, v in b.items()}:
            fail("sequence", "prediction-depends-on-history", "after %s: _dtypes() = %s, a fresh handle: %s" % (done, {k: str(v) for k, v in a.items()}, {k: str(v) for k, v in b.items()}))
    except Exception as e:        # noqa
        fail("sequence", "handle-answers-raise", "after %s: _dtypes() raises %s" % (done, type(e).__name__))
    return "ok", fails


def gen_sequence(rng, pf0, tuples):
    """4-6 steps on one handle: reads with categories {} / [] / None / stored lists, column subsets, index choices, through
    to_pandas / head / iter_row_groups, in random order"""
    stored = list(pf0.categories) if pf0.has_pandas_metadata else []
    cols = list(pf0.columns)
    base = {"columns": None, "categories": None, "index": None, "dtypes": None, "invalid_categories": False}
    pool = [dict(base), dict(base, categories={}), dict(base, categories=[]), dict(base)]
    if stored:
        pool.append(dict(base, categories=rng.sample(stored, rng.randint(1, len(stored)))))
        pool.append(dict(base, categories={c: 16 for c in rng.sample(stored, 1)}))
    if cols:
        sub = rng.sample(cols, rng.randint(1, len(cols)))
        pool.append(dict(base, columns=[c for c in cols if c in sub]))
        pool.append(dict(base, index=False))
    for ro, _ in tuples:
        if not ro.get("invalid_categories") and not ro.get("dtypes") and not isinstance(ro.get("index"), list):
            pool.append(dict(ro))
    rng.shuffle(pool)
    steps = []
    for ro in pool[:rng.randint(4, 6)]:
        steps.append({"call": rng.choice(["to_pandas", "to_pandas", "to_pandas", "head", "iter_row_groups"]), "ropts": ro})
    if not any(s_["call"] == "to_pandas" and s_["ropts"]["categories"] is None for s_ in steps[1:]):
        steps.append({"call": "to_pandas", "ropts": dict(base)})       # a default read late in the sequence
    return steps


def written_dtype_check(case, orig, path, pn):
    """files of C01: the handle's dtype for a written column is the documented canonical form of the written dtype
    (what C01 demands of the read; together with 'prediction = read' it makes a table change visible as a concrete input)"""
    from fastparquet import ParquetFile
    fails = []
    if pn is not True or case.get("strip") or case.get("nomd"):
        return fails
    pf = ParquetFile(path)
    extras = {x["name"] for x in case.get("extra") or []}
    for c in orig.columns:
        if c not in pf.dtypes or c in extras:
            continue
        want = F.canonical_dtype(orig[c].dtype)
        if want.startswith("datetime64") and case["wopts"]["times"] == "int96":
            want = re.sub(r"^datetime64\[(s|ms|us)", "datetime64[ns", want)
        tw, tp = D.dt_of(want), D.dt_of(pf.dtypes[c])
        if tw[0] == "other" or tw == tp:
            continue
        if tw[0] == "cat" or tp[0] == "cat":
            continue          # categorical <-> partition column conversions are C08's
        fails.append(({"source": "written", "component": "typemap", "what": "dtype-differs-from-written", "kind": tw[0], "pandas_nulls": pn},
                      "column %r written as %s: the handle reports %s" % (c, orig[c].dtype, pf.dtypes[c])))
    return fails


# ---------------------------------------------------------------------------------------------

def run(ctx):
    C.coq_lib()
    ctx.trusted = TRUSTED
    ctx.coq_file(os.path.join(C.COQ, "props", "C17.v"))
    bad = C.hygiene()
    ctx.obligation("hygiene: no Admitted/Axiom/Parameter/... in coq/", not bad, "; ".join(bad))
    C.use_shadow()
    from translators import tables2coq
    KNOWN_NP.update(tables2coq.NP_NAMES)
    # ---- translator: live tables -> Gallina -> re-proved
    try:
        gen, _ = tables2coq.run(ctx.gen_dir)
        ok, out = C.coqc(gen, extra_q=[(ctx.gen_dir, "PqGen")])
        if not ok:
            raise RuntimeError("generated GenTables.v does not compile: " + out[-500:])
        ctx.coq_file(os.path.join(C.COQ, "genproofs", "TablesAgree.v"), extra_q=[(ctx.gen_dir, "PqGen")])
        ctx.extra["translator"] = "tables2coq: ok"
    except Exception as e:        # noqa  fail closed: hand-written `pinned` + correspondence only
        ctx.extra["translator"] = "translator_fallback: %s: %s" % (type(e).__name__, str(e)[:300])
        ctx.notes.append(ctx.extra["translator"])
    # ---- handle coherence: inventory of memoised attributes regenerated from api.py/writer.py, inventory_ok re-proved on it
    #      (genproofs/GenHandleProofs.v), programs over live handles against fresh handles on the real code
    from harness import handleprog as HP
    HP.stream(ctx, nds=20 if ctx.quick() else 150, nprog=4 if ctx.quick() else 8, register_obligations=True)
    multicat_stream(ctx, 40 if ctx.quick() else 400)
    evolve_stream(ctx, 60 if ctx.quick() else 600)
    rng = ctx.rng
    ctx.rule = ("datasets: (a) frames of C01 (harness/frames.py: every dtype kind x null patterns, sizes 0..257, optional index incl. "
                "nullable/tz/categorical index kinds) written by the real writer under the option tuples of harness/rt.py (row-group offsets, "
                "has_nulls, stats, times int64/int96, v1/v2, compression, simple/hive, write_index), 20% of the non-empty ones partitioned "
                "on a bool/int8/str/categorical column; (b) every readable file and _metadata directory under test-data; 15% of the "
                "written files with Statistics or null_count removed from some row groups; (c) VALID files with multi-leaf group fields "
                "(MAP/LIST chunks of test-data/map_array.parq) spliced in front of the chunks of a flat 125-row frame written by fastparquet "
                "(harness/splice.py).  Read options per dataset (2-3 tuples): "
                "columns None/subset/shuffled, categories None/[]/list/dict of stored categoricals/a list naming a non-categorical column, "
                "index None/False/name/two names, dtypes override, pandas_nulls True/False; plus, per dataset, one CALL SEQUENCE of 4-7 "
                "reads on one handle (to_pandas/head/iter_row_groups with categories {}/[]/None/stored lists/dicts, column subsets, index "
                "choices, in random order, ending with a default read) checked against a fresh handle's answers after every step.  "
                "One case = (dataset, option tuple) or (dataset, sequence); "
                "trivial = zero rows; distinct = distinct (dataset description, options)")
    nwritten = 170 if ctx.quick() else 2200
    per = 2 if ctx.quick() else 3
    foreign = list_foreign()
    ctx.extra["foreign_files"] = len(foreign)
    sources = []
    cdir = os.path.join(C.VERIF, "corpus", "C17")
    corpus = [json.load(open(os.path.join(cdir, f))) for f in sorted(os.listdir(cdir)) if f.endswith(".json") and not f.startswith(("hp_", "ev_"))] if os.path.isdir(cdir) else []
    ctx.extra["corpus_cases"] = len(corpus)
    for rel in foreign:
        sources.append({"source": "foreign", "rel": rel})
    for _ in range(nwritten):
        sources.append(gen_written(rng))
    for _ in range(12 if ctx.quick() else 150):
        sources.append(gen_spliced(rng))
    # fastparquet-written files whose 'pandas' entry is REMOVED or PARTIAL while the other fastparquet-specific hints remain
    # (num_categories with every chunk of a categorical column, statistics): categorical, tz-aware, nullable and index columns
    for k in range(10 if ctx.quick() else 80):
        c = gen_written(rng)
        n = rng.choice([7, 9, 64, 65])
        c["spec"] = F.gen_spec(rng, n=n, ncols=rng.choice([3, 4, 5]), kinds=["cat_str", "cat_int", "cat_str", "dttz_us", "Int64", "boolean", "int32", "str", "dt_ns"])
        if rng.random() < 0.5:
            c["spec"]["index"] = {"name": "idx", "kind": rng.choice(["cat_str", "dttz_us", "int8", "Int32"]), "nulls": "none", "seed": rng.randrange(1 << 30), "ncat": 3,
                                  "tz": "Europe/Berlin"}
        o = RT.gen_opts(rng, c["spec"])
        o.update(file_scheme="simple", partition_on=None, has_nulls=True)
        c.update(wopts=o, extra=[], strip=None, view=None)
        c["nomd"] = True if k % 2 == 0 else "partial"
        sources.append(c)
    # the real code runs in forked workers (a native crash or a hang is a reported failure of that case, not a dead check);
    # each worker has its own pqref and scratch directory and records what it would tell the Ctx; the parent replays the
    # records in job order.  One job = one dataset with all its option tuples (or one corpus case).
    quick, scratch = ctx.quick(), ctx.scratch
    jobs = [{"case": c, "seed": rng.randrange(1 << 60)} for c in corpus] + [{"src": src, "seed": rng.randrange(1 << 60)} for src in sources]
    nfor = 3 if quick else 8

    def work(job):
        import random
        from fastparquet import ParquetFile
        rc = X.RecCtx(quick, scratch)
        lrng = random.Random(job["seed"])
        pq = _W["pq"]
        if pq is None or pq.p.poll() is not None:
            pq = _W["pq"] = X.RecPqref(lrng, keep=2)
        pq.rng, pq.sample, pq.seen = lrng, [], 0
        root = os.path.join(scratch, "w%d" % os.getpid())
        os.makedirs(root, exist_ok=True)

        def one(case, path, orig):
            if "sequence" in case:
                st, fails = examine_sequence(case, path, rc)
                orig = None
                if st == "ok":
                    rc.case({k: v for k, v in case.items()}, False)
                    rc.count("source", case["source"] + "/sequence")
                    rc.count("sequence.length", len(case["sequence"]))
                    for cls, det in fails:
                        rc.fail(cls, {k: v for k, v in case.items()}, det)
                return
            st, fails = examine(case, path, pq, rc)
            if st == "unopenable":
                rc.count("unopenable", case.get("rel", "written") + ": " + fails[0][:60])
                return
            n = case["spec"]["n"] if case["source"] != "foreign" else None
            slim = {k: v for k, v in case.items()}
            rc.case(slim, (n == 0))
            rc.count("source", case["source"] + ("/partitioned" if case["source"] == "written" and case["wopts"].get("partition_on") else ""))
            rc.count("opt.pandas_nulls", case["pn"])
            rc.count("opt.categories", "invalid" if case["ropts"].get("invalid_categories") else type(case["ropts"]["categories"]).__name__)
            rc.count("opt.index", "None" if case["ropts"]["index"] is None else type(case["ropts"]["index"]).__name__)
            rc.count("opt.columns", "subset" if case["ropts"]["columns"] is not None else "all")
            rc.count("opt.dtypes", "%s/%s/%s" % (bool(case["ropts"]["dtypes"]), case["ropts"].get("dtypes_base"), case["ropts"].get("dtypes_scope")))
            rc.count("opt.empty_selection", case["ropts"].get("empty"))
            rc.count("opt.strip", (case.get("strip") or {}).get("mode"))
            rc.count("view", case.get("view") or ("simple+partition_on" if case["source"] == "written" and case["wopts"].get("partition_on") and case["wopts"]["file_scheme"] == "simple" else "whole"))
            rc.count("pandas metadata", "removed on disk" if case.get("nomd") else ("foreign" if case["source"] == "foreign" else ("none (spliced)" if case["source"] == "spliced" else "as written")))
            rc.count("status", st)
            if orig is not None and st == "ok":
                fails = fails + written_dtype_check(case, orig, path, case["pn"])
            for cls, det in fails:
                rc.fail(cls, slim, det)

        if "case" in job:
            case = job["case"]
            try:
                path, orig = open_case(case, root)
            except Exception:       # noqa
                return {"ops": rc.ops, "samples": []}
            one(case, path, orig)
            return {"ops": rc.ops, "samples": list(pq.sample)}
        src = job["src"]
        if job.get("tuples") is not None:
            tuples = job["tuples"]          # a crashed job re-run one option tuple at a time
        else:
            tuples = None
        try:
            path, orig = open_case(src, root)
        except Exception as e:       # noqa  (a write that raises is allowed: C01/C18)
            rc.count("write_error", type(e).__name__)
            return {"ops": rc.ops, "samples": []}
        try:
            pf0 = ParquetFile(path)
        except Exception as e:       # noqa
            rc.count("unopenable", src.get("rel", "written") + ": " + ("%s: %s" % (type(e).__name__, e))[:60])
            return {"ops": rc.ops, "samples": []}
        if src["source"] == "foreign":
            # a foreign file whose plain full read raises is a decoding matter (C03), not a metadata-vs-read one
            try:
                pf0.to_pandas()
            except Exception as e:       # noqa
                rc.count("unreadable (plain to_pandas() raises: C03)", src["rel"] + ": " + type(e).__name__)
                return {"ops": rc.ops, "samples": []}
        if tuples is None:
            tuples = []
            for k in range(per if src["source"] != "foreign" else nfor):
                ro = gen_ropts(lrng, pf0) if k else {"columns": None, "categories": None, "index": None, "dtypes": None, "invalid_categories": False}
                tuples.append((ro, (lrng.random() < 0.5) if k else True))
            if src["source"] != "foreign" and (pf0.has_pandas_metadata and pf0.categories or lrng.random() < 0.3):
                tuples.append((gen_override_ropts(lrng, pf0), lrng.random() < 0.7))
            tuples.append(({"sequence": gen_sequence(lrng, pf0, tuples)}, lrng.random() < 0.7))
        for ro, pn in tuples:
            case = dict(src)
            case["ropts"], case["pn"] = ro, pn
            if isinstance(ro, dict) and "sequence" in ro:
                case = dict(src)
                case["sequence"], case["pn"] = ro["sequence"], pn
            rc.ops.append(("count", "_tuple", json.dumps([ro, pn], sort_keys=True, default=repr)))
            one(case, path, orig)
        return {"ops": rc.ops, "samples": list(pq.sample), "tuples": tuples}

    def split(job):
        # re-run a crashed dataset one option tuple at a time: the tuples are regenerated from the job's seed
        if "case" in job:
            return [job]
        import random
        try:
            from fastparquet import ParquetFile
            tmp = os.path.join(scratch, "split")
            os.makedirs(tmp, exist_ok=True)
            path, _ = open_case(job["src"], tmp)
            pf0 = ParquetFile(path)
            lrng = random.Random(job["seed"])
            tuples = []
            for k in range(per if job["src"]["source"] != "foreign" else nfor):
                ro = gen_ropts(lrng, pf0) if k else {"columns": None, "categories": None, "index": None, "dtypes": None, "invalid_categories": False}
                tuples.append((ro, (lrng.random() < 0.5) if k else True))
            if job["src"]["source"] != "foreign" and (pf0.has_pandas_metadata and pf0.categories or lrng.random() < 0.3):
                tuples.append((gen_override_ropts(lrng, pf0), lrng.random() < 0.7))
            tuples.append(({"sequence": gen_sequence(lrng, pf0, tuples)}, lrng.random() < 0.7))
        except Exception:       # noqa
            return [job]
        return [{"src": job["src"], "seed": job["seed"], "tuples": [t]} for t in tuples]

    def describe(job):
        if "case" in job:
            return job["case"]
        if job.get("tuples") and len(job["tuples"]) == 1:
            c = dict(job["src"])
            c["ropts"], c["pn"] = job["tuples"][0]
            if "sequence" in c["ropts"]:
                c["sequence"] = c.pop("ropts")["sequence"]
            return c
        return {"dataset": job["src"], "seed": job["seed"], "all_option_tuples_of_seed": True}

    def crash_cls(job, r):
        src = job.get("src") or job.get("case") or {}
        ro = (job["tuples"][0][0] if job.get("tuples") and len(job["tuples"]) == 1 else (job.get("case") or {}).get("ropts")) or {}
        return {"component": "native-crash", "what": "crash" if "died" in r["__crashed__"] else ("hang" if "timeout" in r["__crashed__"].lower() else "harness-exception"),
                "source": src.get("source"), "file": src.get("rel"), "invalid_categories": bool(ro.get("invalid_categories"))}

    samples = X.run_jobs(ctx, work, jobs, init=_winit, split=split, crash_cls=crash_cls, describe=describe, nproc=4, job_timeout=300)
    ctx.dist.pop("_tuple", None)
    X.kernel_crosscheck_samples(ctx, samples)
    werr = sum(ctx.dist.get("write_error", {}).values())
    ctx.extra["write_errors"] = werr
    if werr > len(sources) // 4:
        ctx.obligation("generator health: fewer than 25% of the generated frames fail to write", False, "%d of %d" % (werr, len(sources)))


# ---------------------------------------------------------------------------------------------
# multi-file datasets whose files record DIFFERENT numbers of categories (the category list grows from file to file),
# opened through the consolidating paths (directory without _metadata, explicit list of files): the number of categories
# the handle reports from metadata alone against the categorical column a full read produces, on a count lattice that
# crosses the decimal and the code-width boundaries (9/10, 99/100, 127/128, 255/256)

CAT_LATTICE = [1, 2, 8, 9, 10, 11, 12, 20, 95, 99, 100, 101, 105, 126, 127, 128, 129, 130, 200, 255, 256, 257, 300]


def gen_multicat(rng):
    k = rng.choice([2, 2, 3, 3, 4])
    # neighbours across a boundary are the interesting tuples: pick a window of the lattice, then k counts in it
    i = rng.randrange(len(CAT_LATTICE))
    window = CAT_LATTICE[max(0, i - 4):i + 5]
    sizes = sorted(rng.choice(window) for _ in range(k))
    if rng.random() < 0.3:
        sizes = sorted(rng.sample(CAT_LATTICE, k))
    return {"source": "multicat", "sizes": sizes, "open": rng.choice(["dir", "dir", "list"]), "extra_rows": rng.choice([0, 3, 40]),
            "cats_arg": rng.choice(["None", "list", "dict"]), "pn": rng.random() < 0.7, "seed": rng.randrange(1 << 30)}


def examine_multicat(case, root):
    """-> list of (cls, detail)"""
    import numpy as np
    import pandas as pd
    from fastparquet import ParquetFile, write
    dn = os.path.join(root, "multicat")
    shutil.rmtree(dn, ignore_errors=True)
    os.makedirs(dn)
    labels = ["L%03d" % i for i in range(400)]
    frames, files = [], []
    for i, n in enumerate(case["sizes"]):
        rows = n + case["extra_rows"]
        r = np.random.default_rng(case["seed"] + i)
        codes = r.integers(0, n, rows)
        codes[:n] = np.arange(n)
        df = pd.DataFrame({"c": pd.Categorical.from_codes(codes, labels[:n]), "x": np.arange(rows, dtype="int64") + 1000 * i})
        fn = os.path.join(dn, "part.%i.parquet" % i)
        write(fn, df)
        frames.append(df)
        files.append(fn)
    written = pd.concat([f_.c.astype(object) for f_ in frames], ignore_index=True)
    base = {"source": "multicat", "component": "categories", "open": case["open"], "categories": case["cats_arg"], "pandas_nulls": case["pn"]}
    fails = []

    def opn():
        return ParquetFile(files if case["open"] == "list" else dn, pandas_nulls=case["pn"])
    pf = opn()
    reported = dict(pf.categories)
    rdt = str(pf.dtypes["c"])
    rows = pf.count()
    cats = {"None": None, "list": ["c"], "dict": dict(reported)}[case["cats_arg"]]
    try:
        out = opn().to_pandas(categories=cats)
    except Exception as e:        # noqa
        return [({**base, "what": "read-raises"}, "handle reports categories %r, count %d; to_pandas(categories=%r) raises %s: %s" % (
            reported, rows, cats, type(e).__name__, str(e)[:160]))]
    if len(out) != rows:
        fails.append(({**base, "what": "rows"}, "count() %d, read %d rows" % (rows, len(out))))
    if str(out.c.dtype) != rdt:
        fails.append(({**base, "what": "dtype"}, "handle reports dtype %s for 'c', the read gives %s" % (rdt, out.c.dtype)))
        return fails
    got = len(out.c.cat.categories)
    if reported.get("c") != got:
        fails.append(({**base, "what": "num_categories"}, "files with %s categories: the handle reports %r categories for 'c' (metadata only), the column read has %d" % (
            case["sizes"], reported.get("c"), got)))
    if not (out.c.astype(object).values == written.values).all():
        fails.append(({**base, "what": "values"}, "files with %s categories, categories=%r: values read differ from the values written" % (case["sizes"], cats)))
    return fails


# ---------------------------------------------------------------------------------------------
# schema evolution across the files of a dataset without _metadata: a column of every dtype family present only in the
# first / a middle / the last file(s), 2 files (legacy path of metadata_from_many) and >= 3 files (footer fast path), opened as
# a directory or a list: the dtype the handle reports = the dtype read, the read does not raise, rows of files without the
# column are MISSING (never a silent False / 0), rows of files with it hold the written values

EVOLVE_KINDS = ["int64", "int32", "uint8", "bool", "float64", "str", "dt_us", "dttz", "Int64", "boolean", "cat"]


def gen_evolve(rng):
    k = rng.choice([2, 2, 3, 3, 4, 5])
    cols = []
    for j in range(rng.choice([1, 1, 2])):
        present = sorted(rng.sample(range(k), rng.randint(1, k - 1)))
        if rng.random() < 0.5:
            present = rng.choice([[0], [k - 1], list(range(1, k)), list(range(k - 1))])
        cols.append({"name": "x%d" % j, "kind": rng.choice(EVOLVE_KINDS), "present": present})
    return {"source": "evolve", "files": k, "rows": rng.choice([1, 3, 4]), "cols": cols, "open": rng.choice(["dir", "list", "list"]),
            "pn": rng.random() < 0.75, "columns_subset": rng.random() < 0.3}


def _evolve_values(kind, n, off):
    import numpy as np
    import pandas as pd
    i = np.arange(n) + off
    if kind in ("int64", "int32", "uint8"):
        return (i % 200).astype(kind)
    if kind == "bool":
        return (i % 2 == 0)
    if kind == "float64":
        return i / 4.0
    if kind == "str":
        return ["v%d" % x for x in i]
    if kind == "dt_us":
        return pd.to_datetime(1_600_000_000 + i, unit="s").astype("datetime64[us]")
    if kind == "dttz":
        return pd.Series(pd.to_datetime(1_600_000_000 + i, unit="s")).dt.tz_localize("UTC").dt.tz_convert("Europe/Berlin")
    if kind == "Int64":
        return pd.array([int(x) for x in i], dtype="Int64")
    if kind == "boolean":
        return pd.array([bool(x % 2) for x in i], dtype="boolean")
    return pd.Categorical([["a", "b", "c"][x % 3] for x in i], categories=["a", "b", "c"])


def examine_evolve(case, root):
    import numpy as np
    import pandas as pd
    from fastparquet import ParquetFile, write
    dn = os.path.join(root, "evolve")
    shutil.rmtree(dn, ignore_errors=True)
    os.makedirs(dn)
    files, expect = [], {c["name"]: [] for c in case["cols"]}
    n = case["rows"]
    for i in range(case["files"]):
        df = pd.DataFrame({"id": np.arange(n, dtype="int64") + 100 * i, "s": ["r%d" % (100 * i + j) for j in range(n)]})
        for c in case["cols"]:
            if i in c["present"]:
                v = _evolve_values(c["kind"], n, 10 * i)
                df[c["name"]] = v
                expect[c["name"]] += [str(x) for x in pd.Series(v).astype(object).tolist()]
            else:
                expect[c["name"]] += [None] * n
        fn = os.path.join(dn, "part.%i.parquet" % i)
        write(fn, df)
        files.append(fn)
    base = {"source": "evolve", "component": "dtypes", "open": case["open"], "pandas_nulls": case["pn"], "files": "2" if case["files"] == 2 else ">=3"}
    fails = []
    try:
        pf = ParquetFile(files if case["open"] == "list" else dn, pandas_nulls=case["pn"])
        reported = dict(pf._dtypes(None))
        cols = list(pf.columns)
        cnt = pf.count()
    except Exception as e:        # noqa  (refusing to combine the files is a legitimate answer: nothing is reported)
        return [], "refused: %s" % type(e).__name__
    kw = {}
    if case["columns_subset"]:
        kw["columns"] = [c for c in cols if c != "s"]
    try:
        out = ParquetFile(files if case["open"] == "list" else dn, pandas_nulls=case["pn"]).to_pandas(**kw)
    except Exception as e:        # noqa
        return [({**base, "what": "read-raises", "kinds": sorted({c["kind"] for c in case["cols"]})},
                 "handle reports columns %s dtypes %s; to_pandas raises %s: %s" % (cols, {k: str(v) for k, v in reported.items()}, type(e).__name__, str(e)[:140]))], "ok"
    if len(out) != cnt:
        fails.append(({**base, "what": "rows"}, "count() %d, read %d rows" % (cnt, len(out))))
    want = [c for c in cols if c != "s"] if case["columns_subset"] else cols
    if list(out.columns) != want:
        fails.append(({**base, "what": "columns"}, "handle reports columns %s, the frame has %s" % (want, list(out.columns))))
    for c in case["cols"]:
        name = c["name"]
        if name not in out.columns:
            if name in cols:
                fails.append(({**base, "what": "columns", "kind": c["kind"]}, "column %r reported but not read" % name))
            continue            # (a column the combined schema does not have is neither reported nor read)
        if D.dt_of(reported[name]) != D.dt_of(out[name].dtype):
            fails.append(({**base, "what": "column-dtype", "kind": c["kind"]}, "column %r (%s, in files %s of %d): reported %s, read %s" % (
                name, c["kind"], c["present"], case["files"], reported[name], out[name].dtype)))
        got = [None if (x is None or x is pd.NA or x is pd.NaT or (isinstance(x, float) and np.isnan(x))) else str(x) for x in out[name].astype(object).tolist()]
        exp = expect[name]
        if len(got) == len(exp):
            bad = [j for j in range(len(exp)) if (exp[j] is None) != (got[j] is None)]
            if bad:
                fails.append(({**base, "what": "missing-rows", "kind": c["kind"]}, "column %r (%s, in files %s of %d, read as %s): row %d is %r, written %r (rows of a file without the column must be missing)" % (
                    name, c["kind"], c["present"], case["files"], out[name].dtype, bad[0], got[bad[0]], exp[bad[0]])))
    return fails, "ok"


def evolve_job(case):
    import tempfile
    import warnings
    warnings.filterwarnings("ignore")
    tmp = tempfile.mkdtemp(prefix="verif-C17-ev-", dir="/tmp")
    try:
        return examine_evolve(case, tmp)
    finally:
        shutil.rmtree(tmp, ignore_errors=True)


def evolve_stream(ctx, n):
    cdir = os.path.join(C.VERIF, "corpus", "C17")
    cases = [json.load(open(os.path.join(cdir, f))) for f in sorted(os.listdir(cdir)) if f.startswith("ev_") and f.endswith(".json")] if os.path.isdir(cdir) else []
    cases += [gen_evolve(ctx.rng) for _ in range(n)]
    for k in (2, 3, 4):                 # every family in the first / the last file only, deterministically
        for kind in EVOLVE_KINDS:
            for present in ([0], [k - 1]):
                cases.append({"source": "evolve", "files": k, "rows": 3, "cols": [{"name": "x0", "kind": kind, "present": present}], "open": "list",
                              "pn": True, "columns_subset": False})
    res = C.pmap(evolve_job, cases, init=_winit2, nproc=min(8, os.cpu_count() or 4), job_timeout=300)
    for case, r in zip(cases, res):
        ctx.case(case, False)
        ctx.count("source", "evolve")
        if isinstance(r, dict) and "__crashed__" in r:
            ctx.fail({"component": "native-crash", "what": "crash", "source": "evolve", "file": None, "invalid_categories": False}, case, r["__crashed__"])
            continue
        fails, status = r
        ctx.count("evolve.status", status)
        ctx.count("evolve.files/open", "%d/%s" % (case["files"], case["open"]))
        for c in case["cols"]:
            ctx.count("evolve.kind", c["kind"])
        for cls, det in fails:
            ctx.fail(cls, case, det)


def multicat_job(case):
    import tempfile
    import warnings
    warnings.filterwarnings("ignore")
    tmp = tempfile.mkdtemp(prefix="verif-C17-mc-", dir="/tmp")
    try:
        return examine_multicat(case, tmp)
    finally:
        shutil.rmtree(tmp, ignore_errors=True)


def multicat_stream(ctx, n):
    cases = [gen_multicat(ctx.rng) for _ in range(n)]
    # the boundary tuples themselves, deterministically
    for sizes in ([9, 10, 12], [8, 9, 12], [95, 100, 105], [99, 100], [127, 128], [126, 129, 130], [255, 256], [200, 257, 300]):
        cases.append({"source": "multicat", "sizes": sizes, "open": "dir", "extra_rows": 3, "cats_arg": "None", "pn": True, "seed": 7})
    res = C.pmap(multicat_job, cases, init=_winit2, nproc=min(8, os.cpu_count() or 4), job_timeout=300)
    for case, r in zip(cases, res):
        ctx.case(case, False)
        ctx.count("source", "multicat")
        ctx.count("multicat.sizes", "%d files, max %d categories" % (len(case["sizes"]), max(case["sizes"])))
        if isinstance(r, dict) and "__crashed__" in r:
            ctx.fail({"component": "native-crash", "what": "crash", "source": "multicat", "file": None, "invalid_categories": False}, case, r["__crashed__"])
            continue
        for cls, det in r:
            ctx.fail(cls, case, det)


def _winit2():
    import warnings
    warnings.filterwarnings("ignore")
    C.use_shadow()


_W = {"pq": None}


def _winit():
    _W["pq"] = None


def replay(rep):
    """Rebuild the recorded dataset, re-run the recorded option tuple(s) and the oracle - in a forked worker, so that an
    input the real code does not survive is reported instead of killing the replay."""
    import random
    import tempfile
    if rep.get("kind") == "no-failing-input-found":
        print(json.dumps(rep, indent=1)[:6000])
        return 1
    C.use_shadow()
    case = rep["case"]
    if "handle_program" in case:
        from harness import handleprog as HP
        return HP.replay_case(case["handle_program"])
    if case.get("source") == "evolve":
        fails, status = evolve_job(case)
        print("dataset of %d files without _metadata, columns %s (present = the files that have the column), opened as %s: %s" % (case["files"], case["cols"], case["open"], status))
        for cls, det in fails:
            print("PROPERTY FAILS [%s/%s]: %s" % (cls["component"], cls["what"], det))
        if not fails:
            print("property holds on this input now")
        return 1 if fails else 0
    if case.get("source") == "multicat":
        fails = multicat_job(case)
        print("multi-file dataset, files with %s categories in column 'c', opened as %s, categories=%s" % (case["sizes"], case["open"], case["cats_arg"]))
        for cls, det in fails:
            print("PROPERTY FAILS [%s/%s]: %s" % (cls["component"], cls["what"], det))
        if not fails:
            print("property holds on this input now")
        return 1 if fails else 0
    tmp = tempfile.mkdtemp(prefix="verif-C17-replay-", dir="/tmp")

    def job(case):
        from fastparquet import ParquetFile
        out = []
        if "dataset" in case:        # a whole dataset whose worker died: every option tuple of the recorded seed
            src = case["dataset"]
            path, orig = open_case(src, tmp)
            pf0 = ParquetFile(path)
            lrng = random.Random(case["seed"])
            cases = []
            for k in range(8):
                ro = gen_ropts(lrng, pf0) if k else {"columns": None, "categories": None, "index": None, "dtypes": None, "invalid_categories": False}
                c = dict(src)
                c["ropts"], c["pn"] = ro, ((lrng.random() < 0.5) if k else True)
                cases.append(c)
        else:
            path, orig = open_case(case, tmp)
            cases = [case]
        for c in cases:
            if "sequence" in c:
                st, fails = examine_sequence(c, path)
                out.append((c, st, fails))
                continue
            st, fails = examine(c, path)
            if orig is not None and st == "ok":
                fails = fails + written_dtype_check(c, orig, path, c["pn"])
            out.append((c, st, fails))
        return out
    try:
        res = C.pmap(job, [case], nproc=1, job_timeout=300)[0]
        if isinstance(res, dict) and "__crashed__" in res:
            print("dataset: %s" % (json.dumps(case)[:600]))
            print("PROPERTY FAILS [native-crash]: the real code does not survive this input: %s %s" % (res["__crashed__"], res.get("tb", "")[-400:]))
            return 1
        bad = 0
        for c, st, fails in res:
            print("dataset: %s; read options %s; pandas_nulls=%s; strip=%s" % (
                c.get("rel") or ("%s frame n=%d kinds=%s extra=%s nomd=%s nested=%s wopts=%s" % (c["source"], c["spec"]["n"], [x["kind"] for x in c["spec"]["cols"]],
                                                                                                  [x["kind"] for x in c.get("extra") or []], c.get("nomd"), c.get("fields"), c["wopts"])),
                c.get("ropts") or ("SEQUENCE " + json.dumps(c.get("sequence"))), c["pn"], c.get("strip")))
            if st != "ok":
                print("status:", st, fails if st == "unopenable" else "")
                continue
            for cls, det in fails:
                print("PROPERTY FAILS [%s/%s]: %s" % (cls["component"], cls["what"], det))
            if not fails:
                print("property holds on this input now")
            bad += len(fails)
        return 1 if bad else 0
    finally:
        shutil.rmtree(tmp, ignore_errors=True)
