"""C18 — rejected operations raise and leave an existing dataset as it was (DESIGN.md section 6, C18).

Tie.  For every scenario (existing dataset x operation the library must refuse, or a control it must accept):
  * the request is abstracted (scheme name, partition_on, column labels, type support; the dataset as a fresh
    ParquetFile shows it) and the Coq model's verdict `rejected` is compared with what the real call did
    (raised before any file-system call / reached its effect stage);
  * the file-system calls of the REAL call are recorded (wrappers passed as open_with/mkdirs + audit hook) and
    the extracted, proved checkers are evaluated on them: `check_no_write` for validation failures,
    `check_safe_trace refs` (C19) for late failures on multi-file datasets, `check_restoring old_bytes` on the
    positional trace of a failed single-file append; the positional-file model (`run_fops`) is replayed on every
    recorded single-file trace and compared with the bytes on disk; the model's own call sequence
    (`multi_fail`: names from find_max_part) is compared with the recorded one (open/close kinds and paths).
Oracle (the property's text on the real code): the call raises; every pre-existing file is byte-identical; a fresh
open + full read gives the previous content; a validation failure leaves no new file either.
"""
import json
import os
import shutil
import tempfile
import traceback

from harness import common as C
from harness import dsfs
from harness import dsedit2_lib as L

TRUSTED = [
    "Coq 8.16.1 kernel + coqc; vm_compute for the closed Example and the refutation witness; no native_compute",
    "extraction: ExtrOcamlBasic only, no Extract Constant; ocaml/driver.ml s-expression I/O",
    "OS file semantics as modelled in Dataset/FS.v (open 'wb' creates/truncates, no call changes a file it does not name) and in "
    "Dataset/Reject.v (a write at a position replaces the bytes there and extends the file, truncate cuts at the given size); "
    "the fops_run correspondence compares the model's replay of every recorded single-file trace with the bytes on disk",
    "the recording: wrappers passed as open_with/mkdirs + interpreter audit events (open for writing, os.rename, os.remove, os.rmdir, "
    "os.truncate, shutil.rmtree) below the dataset root; changes that bypass both would be seen only by the byte comparison of the directory",
    "abstraction of a request (Python glue): scheme name, partition_on, column labels (text / not text), per-column acceptance by writer.find_type, "
    "and the dataset as a fresh ParquetFile reports it (file_scheme, cats, columns, referenced paths)",
    "pandas/numpy/cramjam decide WHETHER a value can be converted/encoded/compressed; the model takes the failure position as a parameter (all positions)",
    "thrift parsing of _metadata and page decoding are arbitrary functions in C18_multi_append_reads_same (parse_md, decode: C10/C01/C03)",
    "Python glue: scenario enumeration, frame construction, path normalisation, value canonicalisation, row-group/partition planning used only for the multi_fail comparison",
]

STATES = ["simple", "hive", "part1", "part2"]
ORDERS = {"first": {"b": ["b", "a", "c", "s"], "s": ["s", "a", "b", "c"]},
          "middle": {"b": ["a", "b", "c", "s"], "s": ["a", "s", "b", "c"]},
          "last": {"b": ["a", "c", "s", "b"], "s": ["a", "b", "c", "s"]}}
DTYPES = {"a": "int64", "b": "object", "c": "float64", "s": "object", "k": "int64", "j": "object"}


# ---------------------------------------------------------------------------------------------
# scenarios (pure data)
# ---------------------------------------------------------------------------------------------
def pcols(state):
    return {"simple": [], "hive": [], "part1": ["k"], "part2": ["k", "j"], "drill1": ["k"]}[state]


def scheme_of(state):
    return "simple" if state == "simple" else ("drill" if state == "drill1" else "hive")


def gen_vals(col, n, rng):
    if col == "a":
        return [rng.randrange(-50, 50) for _ in range(n)]
    if col == "b":
        return [rng.randrange(0, 1000) for _ in range(n)]
    if col == "c":
        return [rng.choice([0.5, -1.25, 3.0, 7.75]) for _ in range(n)]
    if col == "s":
        return [rng.choice(["x", "yy", "é", "zzz"]) + str(rng.randrange(10)) for _ in range(n)]
    if col == "k":
        return [rng.choice([0, 1, 2]) for _ in range(n)]
    if col == "j":
        return [rng.choice(["u", "v"]) for _ in range(n)]
    raise KeyError(col)


def gen_frame(order, state, n, rng):
    return [[c, DTYPES[c], gen_vals(c, n, rng)] for c in list(order) + pcols(state)]


def offsets(n, parts):
    return sorted(set(i * n // parts for i in range(parts)))


UNSUPPORTED = ["period", "interval", "complex128", "cat_period", "cat_interval", "cat_complex", "mixed"]
OBJ_ENCODINGS = ["infer", "utf8", "json", "dict_other", "dict_it"]


def rng_pos(grp, via, rf):
    """deterministic spread of the unknown name's position inside its group over the or3 variants"""
    return ["first", "middle", "last"][(len(grp) + len(via) + int(rf)) % 3]


def known_conds(labels, rng):
    out = [["a", ">", -1000], ["c", "<", 1000.0], ["a", "!=", 123456], ["c", ">=", -1000.0]]
    if "k" in labels:
        out.append(["k", "in", [0, 1, 2]])
    rng.shuffle(out)
    return out


def place(conds, unknown, pos):
    i = {"first": 0, "middle": len(conds) // 2 if len(conds) > 1 else 0, "last": len(conds)}[pos]
    return conds[:i] + [unknown] + conds[i:]


def make_filters(v, labels, rng):
    """filters of the requested SHAPE; the unknown column sits at v['pos'] of group v['grp'] (None for the accepted control)"""
    kc = known_conds(labels, rng)
    unknown = ["zz", rng.choice(["==", ">", "in"]), 1]
    if unknown[1] == "in":
        unknown[2] = [1, 2]
    bad = v["expect"] != "ok"
    shape = v["shape"]
    if shape == "flat":
        return place(kc[:2], unknown, v["pos"]) if bad else kc[:2]
    if shape == "and":
        return [place(kc[:2], unknown, v["pos"])] if bad else [kc[:2]]
    ng = 2 if shape == "or2" else 3
    groups = [[kc[i % len(kc)], kc[(i + 1) % len(kc)]][: rng.choice([1, 2])] for i in range(ng)]
    if bad:
        gi = {"first": 0, "middle": 1, "last": ng - 1}[v["grp"]]
        groups[gi] = place(groups[gi], unknown, v["pos"])
    return groups


def filter_names(f):
    if not f:
        return []
    if isinstance(f[0], str):
        return [f[0]]
    return [n for x in f for n in filter_names(x)]


def as_filters(f):
    """JSON lists -> what the API takes: conditions are tuples, OR groups are lists of tuples"""
    if f and isinstance(f[0], list) and f[0] and isinstance(f[0][0], str):
        return [tuple(c) for c in f]
    return [[tuple(c) for c in g] for g in f]


def all_variants():
    """every (state, number of row groups, kind, position parameters) of the enumeration"""
    out = []
    for st in STATES:
        for nrg in (1, 2, 3):
            def add(kind, expect, **kw):
                out.append(dict(state=st, nrg=nrg, kind=kind, expect=expect, **kw))
            add("bad_scheme_name", "validation")
            add("scheme_mismatch", "validation")
            if st != "simple":
                add("partition_mismatch", "validation")
                # ... every WAY of differing: partition_on omitted / [] / '' on a partitioned dataset, a subset, a superset, the same
                # columns in another order
                for alt in (("superset",) if st == "hive" else ("omitted", "empty_list", "empty_str", "subset", "superset", "reordered")):
                    if not (alt in ("subset", "reordered") and st != "part2"):
                        add("partition_mismatch", "validation", where=alt)
            for pos in ("first", "middle", "last"):
                add("cols_extra", "validation", pos=pos)
                add("cols_missing", "validation", pos=pos)
                add("cols_renamed", "validation", pos=pos)
                add("nontext_col", "validation", pos=pos)
                add("plain_unsupported_type", "validation", pos=pos)
                add("plain_nontext", "validation", pos=pos)
                for rg in ("first", "later"):
                    add("bad_value", "late", pos=pos, rg=rg)
                    add("none_nonnull", "late", pos=pos, rg=rg)
                    # a missing value (<NA>) in a column the existing schema declares REQUIRED, for every dtype family that can hold one
                    # (object columns: none_nonnull above; NaN in float columns is a value of the type; NaT / categoricals: notes)
                    for fam in L.MASKED_DTYPES + ["category"]:
                        add("na_nonnull", "late", pos=pos, rg=rg, family=fam)
                    # floats and times: the library documents NaN / NaT as SENTINEL values of a non-nullable column ("not the same as NULL
                    # in parquet, but functionally act the same"): such a cell is a value of the type, the append is ACCEPTED and the cell
                    # must read back as NaN / NaT next to the untouched old rows (masked Float <NA> is lowered to NaN the same way)
                    for fam in SENTINEL_FAMILIES:
                        add("sentinel_ok", "ok", pos=pos, rg=rg, family=fam)
                    # a value that cannot be encoded as declared, for datetimes: a date OUTSIDE the range of the stored unit (the column
                    # stores nanoseconds: 1677-09-21 .. 2262-04-11) in a frame of a coarser unit - must end in an exception, dataset as before
                    for fam in DT_RANGE_FAMILIES:
                        add("dt_out_of_range", "late", pos=pos, rg=rg, family=fam)
                add("codec_col", "late", pos=pos)
                add("bad_dtype", "late", pos=pos)
            add("dup_col", "validation")
            add("plain_dup", "validation")
            add("plain_pon_missing", "validation")
            add("plain_hasnulls_missing", "validation")
            if nrg == 2:
                # plain (non-append) write of an unsupported dtype FAMILY onto the existing dataset: refused by make_metadata before any
                # file call whatever object_encoding says (mixed objects: only under the default 'infer')
                for fam in UNSUPPORTED:
                    for oe in (["infer"] if fam == "mixed" else OBJ_ENCODINGS):
                        for pos in ("first", "middle", "last"):
                            add("plain_unsupported_family", "validation", family=fam, oe=oe, pos=pos)
                # reads: the number of row groups is irrelevant; every shape below is run in BOTH tiers
                for via in ("to_pandas", "iter_row_groups", "head"):
                    for pos in ("first", "middle", "last"):
                        add("read_col", "validation", pos=pos, via=via)
                add("read_index", "validation", shape="single", via="to_pandas")
                add("read_index", "validation", shape="list", via="to_pandas")
                for via in ("to_pandas", "iter_row_groups", "count"):
                    for rf in (False, True):
                        add("read_filter", "validation", shape="flat", pos="first", via=via, row_filter=rf)
                        add("read_filter", "validation", shape="flat", pos="last", via=via, row_filter=rf)
                        for pos in ("first", "middle", "last"):
                            add("read_filter", "validation", shape="and", pos=pos, via=via, row_filter=rf)
                        for grp in ("first", "last"):
                            add("read_filter", "validation", shape="or2", grp=grp, pos="first", via=via, row_filter=rf)
                        for grp in ("first", "middle", "last"):
                            add("read_filter", "validation", shape="or3", grp=grp, pos=rng_pos(grp, via, rf), via=via, row_filter=rf)
                        add("read_ok", "ok", shape="or2", via=via, row_filter=rf)
                # 'unknown column in a selection' under EVERY combination of the other options of to_pandas / iter_row_groups / head
                # (dtypes=, categories=, index=, filters=, row_filter=): the unknown name must be refused whatever else is passed; one
                # accepted control per combination keeps the option values themselves honest
                for opts in OPTION_LATTICE:
                    for via in ("to_pandas", "iter_row_groups", "head"):
                        for pos in ("first", "middle", "last"):
                            add("read_col_opts", "validation", pos=pos, via=via, opts=list(opts))
                        add("read_opts_ok", "ok", via=via, opts=list(opts))
            add("codec_all", "late")
            if st == "simple":
                # an I/O failure at a chosen write call of a single-file append of a VALID frame (the positions a rejection cannot
                # reach: the new footer's thrift bytes, its length, the closing magic)
                for where in IO_POSITIONS:
                    for var in ("pre", "short", "post"):
                        add("io_fault", "late", where=where, fault_variant=var)
            if st == "simple":
                add("append_ok_pon_ignored", "ok")
                add("overwrite_simple", "validation")
            elif st == "hive":
                add("overwrite_nopart", "validation")
            else:
                add("overwrite_cols", "validation")
                add("overwrite_nokey", "validation")
                for rg in ("first", "later"):
                    add("overwrite_bad_value", "late", pos="middle", rg=rg)
                add("overwrite_ok", "ok")
            add("append_ok", "ok")
            if st == "hive":
                add("merge_bad_schema", "validation")
                add("merge_ok", "ok")
    for nrg in (1, 2):
        out.append(dict(state="drill1", nrg=nrg, kind="append_to_drill", expect="validation"))
    # CONFIRMATION STREAM of two open findings (findings.d/C18.json): operations refused at encode time that have no way back
    for st in STATES:
        for kind in ("replace_bad_value", "replace_none_nonnull", "replace_codec"):
            out.append(dict(state=st, nrg=2, kind=kind, expect="late", pos="middle", rg="later"))
    for st in ("hive", "part1"):
        out.append(dict(state=st, nrg=2, kind="bad_value_no_summary", expect="late", pos="middle", rg="later"))
    # existing datasets with 11..13 part files (part ids of one AND two digits): a refused append must not touch any of them
    for st in ("hive", "part1", "part2"):
        for nrg in (11, 12, 13):
            for pos in ("first", "last"):
                for rg in ("first", "later"):
                    out.append(dict(state=st, nrg=nrg, kind="bad_value_many_parts", expect="late", pos=pos, rg=rg))
            out.append(dict(state=st, nrg=nrg, kind="codec_all_many_parts", expect="late"))
    return out


DT_RANGE_FAMILIES = ["us/future", "us/past", "ms/future", "ms/past", "s/future", "s/past"]
SENTINEL_FAMILIES = ["float64_nan", "float32_nan", "Float64", "Float32", "nat_ns", "nat_us"]
def _lattice():
    import itertools
    out = []
    base = ["dtypes", "categories", "index", "filters"]
    for n in range(len(base) + 1):
        for sub in itertools.combinations(base, n):
            out.append(tuple(sub))
            if "filters" in sub:
                out.append(tuple(sub) + ("row_filter",))
    return [o for o in out if o]          # (the empty combination is kind read_col)


OPTION_LATTICE = _lattice()
FINDING_KINDS = {"replace_bad_value", "replace_none_nonnull", "replace_codec", "bad_value_no_summary"}
IO_POSITIONS = ["first_write", "middle_write", "footer_thrift", "footer_length", "footer_magic"]


def build(v, rng, sid):
    """variant -> scenario: existing dataset, new frame, the call."""
    st = v["state"]
    kind = v["kind"]
    if kind.endswith("_many_parts"):
        kind = kind[:-len("_many_parts")]
    replace_write = kind.startswith("replace_")
    no_summary = kind == "bad_value_no_summary"
    kind = {"replace_bad_value": "bad_value", "replace_none_nonnull": "none_nonnull", "replace_codec": "codec_all", "bad_value_no_summary": "bad_value"}.get(kind, kind)
    pos = v.get("pos", rng.choice(["first", "middle", "last"]))
    target = "s" if kind == "none_nonnull" else "b"
    order = ORDERS[pos][target]
    n0 = rng.choice([3, 5, 8] if v["nrg"] < 10 else [1, 2, 3]) * v["nrg"]
    frame0 = gen_frame(order, st, n0, rng)
    off0 = offsets(n0, v["nrg"])
    nrg1 = rng.choice([1, 2, 3])
    n1 = nrg1 * rng.choice([2, 3, 4])
    if st == "simple" and v["expect"] == "late" and rng.random() < 0.6:
        n1 = nrg1 * rng.choice([300, 500])       # more bytes written before the failure than the old footer is long
    frame1 = gen_frame(order, st, n1, rng)
    off1 = offsets(n1, nrg1)
    scheme = scheme_of(st)
    pon = pcols(st)
    if st == "part2" and rng.random() < 0.3:
        pon = ["j", "k"]
    kw = {"file_scheme": scheme, "partition_on": list(pon), "append": True, "row_group_offsets": off1}
    api = "write"
    bad_rows = None
    idx = {"first": 0, "middle": len(order) // 2, "last": len(order) - 1}[pos]

    def later_row():
        if v.get("rg") == "later" and len(off1) > 1:
            return rng.randrange(off1[1], n1)
        return rng.randrange(0, off1[1] if len(off1) > 1 else n1)

    if kind == "bad_scheme_name":
        kw["file_scheme"] = rng.choice(["foo", "SIMPLE", "", "flat"])
    elif kind == "scheme_mismatch":
        kw["file_scheme"] = "hive" if st == "simple" else "simple"
        if st == "simple":
            kw["partition_on"] = []
    elif kind == "append_to_drill":
        pass
    elif kind == "partition_mismatch" and v.get("where"):
        alt = v["where"]
        if alt == "omitted":
            kw.pop("partition_on")
        else:
            kw["partition_on"] = {"empty_list": [], "empty_str": "", "subset": list(pon[:-1]), "superset": list(pon) + ["a"],
                                  "reordered": list(pon[::-1])}[alt]
    elif kind == "partition_mismatch":
        alts = [p for p in ([], ["k"], ["j"], ["k", "j"], ["j", "k"], ["a"]) if p != list(pon) and all(c in L.labels(frame1) for c in p)]
        kw["partition_on"] = rng.choice(alts)
    elif kind == "cols_extra":
        frame1.insert(idx, ["zz", "int64", [1] * n1])
    elif kind == "cols_missing":
        del frame1[idx]
    elif kind == "cols_renamed":
        frame1[idx][0] = frame1[idx][0] + "_x"
    elif kind == "nontext_col":
        frame1[idx][0] = 7
    elif kind == "dup_col":
        frame1[1][0] = frame1[0][0]
    elif kind == "plain_unsupported_family":
        kw["append"] = False
        tgt = order[idx]
        frame1[idx][1] = v["family"]
        frame1[idx][2] = [1] * n1
        other = [c for c in order if c != tgt][0]
        kw["object_encoding"] = {"infer": "infer", "utf8": "utf8", "json": "json", "dict_other": {other: "utf8"}, "dict_it": {tgt: rng.choice(["utf8", "json", "bytes"])}}[v["oe"]]
    elif kind.startswith("plain_"):
        kw["append"] = False
        kw["object_encoding"] = {"b": "int", "s": "utf8"}
        if kind == "plain_unsupported_type":
            frame1[idx][1] = "complex128"
            frame1[idx][2] = [1] * n1
        elif kind == "plain_nontext":
            frame1[idx][0] = 7
            kw["object_encoding"] = "infer"
        elif kind == "plain_dup":
            frame1[1][0] = frame1[0][0]
            kw["object_encoding"] = "infer"
        elif kind == "plain_pon_missing":
            kw["partition_on"] = list(pon) + ["nope"]
        elif kind == "plain_hasnulls_missing":
            kw["has_nulls"] = ["a", "nope"]
    elif kind in ("read_col", "read_index", "read_filter", "read_ok", "read_col_opts", "read_opts_ok"):
        api = "read"
        cols = [c for c in L.labels(frame0)]
        if kind in ("read_col_opts", "read_opts_ok"):
            good = rng.sample([c for c in cols if c not in pon], 2) + (["a"] if "index" in v["opts"] else [])
            good = list(dict.fromkeys(good))
            kw = {"columns": place(good, "zz", v["pos"]) if kind == "read_col_opts" else good, "via": v["via"]}
            if "dtypes" in v["opts"]:
                kw["dtypes"] = "<the handle's own dtypes of the selected columns>"         # resolved when the call is made
            if "categories" in v["opts"]:
                kw["categories"] = []
            if "index" in v["opts"]:
                kw["index"] = "a"
            if "filters" in v["opts"]:
                kw["filters"] = [["a", ">", -1000]]
            if "row_filter" in v["opts"]:
                kw["row_filter"] = True
        elif kind == "read_col":
            good = rng.sample(cols, 2)
            kw = {"columns": place(good, "zz", v["pos"]), "via": v["via"]}
        elif kind == "read_index":
            kw = {"index": "zz" if v["shape"] == "single" else [cols[0], "zz"][::rng.choice([1, -1])], "via": v["via"]}
        else:
            kw = {"filters": make_filters(v, cols, rng), "row_filter": bool(v["row_filter"]), "via": v["via"]}
    elif kind in ("merge_bad_schema", "merge_ok"):
        # writer.merge(existing part files + one more file lying in the directory): refused when the schemas differ
        api = "merge"
        other = gen_frame(order, st, rng.choice([1, 3]), rng)
        if kind == "merge_bad_schema":
            how = rng.choice(["extra", "missing", "dtype"])
            if how == "extra":
                other.insert(idx, ["zz", "int64", [1] * len(other[0][2])])
            elif how == "missing":
                del other[idx]
            else:
                j = [i for i, f in enumerate(other) if f[0] == "c"][0]
                other[j][1], other[j][2] = "int64", [1] * len(other[0][2])
        kw = {"other": other}
    elif kind in ("overwrite_simple", "overwrite_nopart", "overwrite_ok"):
        kw = {"file_scheme": scheme, "append": "overwrite", "row_group_offsets": off1}
    elif kind == "overwrite_cols":
        kw = {"file_scheme": scheme, "append": "overwrite", "row_group_offsets": off1}
        if rng.random() < 0.5:
            del frame1[idx]
        else:
            frame1.insert(idx, ["zz", "int64", [1] * n1])
    elif kind == "overwrite_nokey":
        kw = {"file_scheme": scheme, "append": "overwrite", "row_group_offsets": off1}
        frame1 = [f for f in frame1 if f[0] != "k"]
    elif kind in ("bad_value", "overwrite_bad_value"):
        r = later_row()
        [f for f in frame1 if f[0] == "b"][0][2][r] = rng.choice(["zz", "1.5x", "é"])
        bad_rows = [r]
        if kind == "overwrite_bad_value":
            kw = {"file_scheme": scheme, "append": "overwrite", "row_group_offsets": off1}
    elif kind == "none_nonnull":
        r = later_row()
        [f for f in frame1 if f[0] == "s"][0][2][r] = None
        bad_rows = [r]
    elif kind in ("na_nonnull", "sentinel_ok", "dt_out_of_range"):
        r = later_row()
        bad_rows = [r]
    elif kind == "io_fault":
        pass
    elif kind == "bad_dtype":
        # a dtype the existing column's type cannot take: complex numbers anywhere, integers in the text column
        if order[idx] == "s" and rng.random() < 0.5:
            frame1[idx][1] = "int64"
            frame1[idx][2] = [1] * n1
        else:
            frame1[idx][1] = "complex128"
            frame1[idx][2] = [1] * n1
        bad_rows = list(range(n1))
    elif kind == "codec_col":
        kw["compression"] = {order[idx]: "FOO", "_default": rng.choice([None, "GZIP"])}
        bad_rows = list(range(n1))
    elif kind == "codec_all":
        kw["compression"] = "FOO"
        bad_rows = list(range(n1))
    elif kind == "append_ok":
        pass
    elif kind == "append_ok_pon_ignored":
        kw["partition_on"] = [rng.choice(["a", "c"])]      # partition_on is ignored for file_scheme='simple' (documented)
    else:
        raise KeyError(kind)
    prior = None
    if st != "drill1" and rng.random() < 0.3:      # the existing dataset has already been appended to once
        m = rng.choice([1, 2, 4])
        prior = {"frame": gen_frame(order, st, m, rng), "offsets": offsets(m, min(m, rng.choice([1, 2])))}
    if replace_write:
        # an ordinary (non-append) write of the offending frame onto the existing dataset, with the options the dataset was written with
        kw = dict(kw, append=False, object_encoding={"b": "int", "s": "utf8"}, has_nulls=False)
    oe0 = None
    if kind in ("na_nonnull", "sentinel_ok"):
        # column b of the existing dataset has the numpy counterpart of the family (REQUIRED: has_nulls=False); the appended frame
        # carries it with the pandas extension dtype (or the same numpy dtype) and one missing cell (<NA> / None / NaN / NaT)
        fam = v["family"]
        base = {"boolean": "bool", "string": "object", "category": "category", "float64_nan": "float64", "float32_nan": "float32",
                "nat_ns": "datetime64[ns]", "nat_us": "datetime64[us]"}.get(fam, fam.lower())
        if fam in ("float64_nan", "float32_nan", "nat_ns", "nat_us", "category"):
            fam = base

        def vals(n):
            if fam == "boolean":
                return [rng.random() < 0.5 for _ in range(n)]
            if fam == "string":
                return [rng.choice(["x", "yy", "zzz"]) + str(rng.randrange(10)) for _ in range(n)]
            if fam == "category":
                return [rng.choice(L.CAT_LABELS) for _ in range(n)]
            if base.startswith("float"):
                return [rng.choice([0.5, -1.25, 3.0, 7.75]) for _ in range(n)]
            if base.startswith("datetime"):
                return ["2020-01-%02dT00:00:%02d" % (rng.randrange(1, 28), rng.randrange(60)) for _ in range(n)]
            return [rng.randrange(0, 100) for _ in range(n)]
        for fr, dt in ((frame0, base), (frame1, fam)) + (((prior["frame"], base),) if prior else ()):
            col = [f for f in fr if f[0] == "b"][0]
            col[1], col[2] = dt, vals(len(col[2]))
        [f for f in frame1 if f[0] == "b"][0][2][bad_rows[0]] = float("nan") if (fam == base and base.startswith("float")) else None
        oe0 = {"b": "utf8", "s": "utf8"} if fam == "string" else None
    if kind == "dt_out_of_range":
        unit, where = v["family"].split("/")

        def dvals(n):
            return ["2020-01-%02dT00:00:%02d" % (rng.randrange(1, 28), rng.randrange(60)) for _ in range(n)]
        for fr, dt in ((frame0, "datetime64[ns]"), (frame1, "datetime64[%s]" % unit)) + (((prior["frame"], "datetime64[ns]"),) if prior else ()):
            col = [f for f in fr if f[0] == "b"][0]
            col[1], col[2] = dt, dvals(len(col[2]))
        [f for f in frame1 if f[0] == "b"][0][2][bad_rows[0]] = "9999-12-31T00:00:00" if where == "future" else "1000-01-01T00:00:00"
    return {"drop_summary": no_summary, "object_encoding0": oe0,"id": sid, "variant": v, "scheme": scheme, "partition_on": list(pon), "frame0": frame0, "offsets0": off0, "prior": prior,
            "compression0": rng.choice([None, None, "GZIP"]),
            "api": api, "kwargs": kw, "frame1": frame1, "bad_rows": bad_rows}


# ---------------------------------------------------------------------------------------------
# running one scenario on the real code (worker process)
# ---------------------------------------------------------------------------------------------
def create(path, sc):
    from fastparquet import write
    df0 = L.to_df(sc["frame0"])
    write(path, df0, file_scheme=sc["scheme"], partition_on=list(sc["partition_on"]), row_group_offsets=list(sc["offsets0"]),
          object_encoding=sc.get("object_encoding0") or {"b": "int", "s": "utf8"}, has_nulls=False, write_index=False, compression=sc["compression0"])
    if sc.get("prior"):
        write(path, L.to_df(sc["prior"]["frame"]), file_scheme=sc["scheme"], partition_on=list(sc["partition_on"]),
              row_group_offsets=list(sc["prior"]["offsets"]), append=True, compression=sc["compression0"])


def abstract_request(sc, pf):
    """the model's view of the call (glue; see TRUSTED)."""
    from fastparquet import writer
    kw = sc["kwargs"]
    df1 = L.to_df(sc["frame1"])
    labs = [L.sx_label(l) for l in L.labels(sc["frame1"])]
    if sc["api"] == "merge":
        return ["merge", 0 if sc["variant"]["kind"] == "merge_bad_schema" else 1]      # the generator's intent: schemas differ / agree
    if sc["api"] == "read":
        fcols = [n.encode() for n in filter_names(kw.get("filters", []))]
        idx = kw.get("index", [])
        sel = list(kw.get("columns", [])) + ([idx] if isinstance(idx, str) else list(idx))
        return ["read", [c.encode() for c in sel], fcols]
    if kw.get("append") == "overwrite":
        return ["overwrite", labs, [1] * len(labs)]
    if kw.get("append"):
        pon_req = kw.get("partition_on", [])
        pon_req = ([pon_req] if pon_req else []) if isinstance(pon_req, str) else list(pon_req)
        return ["append", kw["file_scheme"].encode(), [c.encode() for c in pon_req], labs, [1] * len(labs)]
    typed = []
    ignore = kw["partition_on"] if kw["file_scheme"] != "simple" else []
    for i, l in enumerate(L.labels(sc["frame1"])):
        if l in ignore:
            typed.append(1)
            continue
        if sc["frame1"][i][1] in UNSUPPORTED:
            typed.append(0)          # by the generator's intent: a dtype family the format cannot hold (not asked of the code under test)
            continue
        try:
            oe = kw.get("object_encoding")
            writer.find_type(df1.iloc[:, i], object_encoding=oe if isinstance(oe, str) else (oe or {}).get(l))
            typed.append(1)
        except Exception:
            typed.append(0)
    hn = kw.get("has_nulls")
    return ["write", kw["file_scheme"].encode(), [c.encode() for c in kw["partition_on"]],
            [[c.encode() for c in hn]] if isinstance(hn, list) else [], labs, typed]


def plan_files(sc, df1):
    """glue for the multi_fail comparison: the files write_multi would write for the new frame, in order, and the
    index of the first one holding an offending row.  [[(dir, nrows)...] per row group], failing flat index."""
    pon = sc["kwargs"].get("partition_on", sc["partition_on"]) if sc["kwargs"].get("append") is True else sc["partition_on"]
    off = sc["kwargs"]["row_group_offsets"]
    n = len(df1)
    rgs, flat, bad = [], 0, set(sc["bad_rows"] or [])
    fail = None
    for i, start in enumerate(off):
        end = off[i + 1] if i + 1 < len(off) else n
        g = []
        if pon:
            sub = df1.iloc[start:end]
            keys = sorted(set(tuple(sub[c].iloc[r] for c in pon) for r in range(len(sub))))
            for key in keys:
                rows = [start + r for r in range(len(sub)) if tuple(sub[c].iloc[r] for c in pon) == key]
                g.append(["/".join("%s=%s" % (c, v) for c, v in zip(pon, key)), 1, 0])
                if fail is None and bad & set(rows):
                    fail = flat
                flat += 1
        else:
            g.append(["", 0, 0])
            if fail is None and bad & set(range(start, end)):
                fail = flat
            flat += 1
        rgs.append(g)
    return rgs, fail


# refusals that are decided by the appended frame / codec itself, i.e. also refused by ParquetFile.write_row_groups
CONT_KINDS = {"dt_out_of_range", "cols_extra", "cols_missing", "cols_renamed", "nontext_col", "dup_col", "bad_value", "none_nonnull", "na_nonnull", "bad_dtype",
              "codec_col", "codec_all", "bad_value_many_parts", "codec_all_many_parts"}


def new_rows_match(vals, nold, newv, pcols_):
    """rows after the first nold = the new rows as a multiset (a partitioned row group stores them grouped by key)"""
    def norm(c, col):
        return [str(x) if c in pcols_ and x is not None else x for x in col]
    got = sorted(map(repr, zip(*[norm(c, col[nold:]) for c, col in vals])))
    want = sorted(map(repr, zip(*[norm(c, dict(newv)[c]) for c, _ in vals])))
    return got == want


def continuation(sc, pristine, base, old_vals, simple):
    """class 'refused operation, then CONTINUED use of the same handle': the refused append is made through ONE ParquetFile
    (pf.write_row_groups); after the exception the handle must describe the dataset as a fresh open does (row groups, num_rows, count,
    content), a pickled copy of it must read the old content, and the next VALID append through it must add exactly its rows."""
    import pickle
    from fastparquet import ParquetFile
    out = {"problems": [], "refused": None}
    cdir = os.path.join(base, "c")
    os.makedirs(cdir)
    work = os.path.join(cdir, "ds")
    if simple:
        shutil.copy(pristine, work)
    else:
        shutil.copytree(pristine, work)
    kw = sc["kwargs"]
    pf = ParquetFile(work)
    try:
        pf.write_row_groups(L.to_df(sc["frame1"]), row_group_offsets=kw.get("row_group_offsets"), compression=kw.get("compression"))
    except BaseException as e:       # noqa
        out["refused"] = "%s: %s" % (type(e).__name__, str(e)[:100])
    if out["refused"] is None:
        return out                   # this entry point accepts what write() refuses: nothing to continue after
    def add(sym, text):
        out["problems"].append((sym, "after pf.write_row_groups was refused (%s): %s" % (out["refused"], text)))
    try:
        fresh = ParquetFile(work)
        mine = [len(pf.row_groups), len(pf.fmd.row_groups), int(pf.fmd.num_rows), int(pf.count())]
        want = [len(fresh.row_groups), len(fresh.fmd.row_groups), int(fresh.fmd.num_rows), int(fresh.count())]
        if mine != want:
            add("handle-state-after-refusal", "the handle has [len(row_groups), len(fmd.row_groups), fmd.num_rows, count()] = %s, a fresh open %s" % (mine, want))
    except BaseException as e:       # noqa
        add("handle-state-after-refusal", "inspecting the handle fails: %s: %s" % (type(e).__name__, str(e)[:100]))
    try:
        if dsfs.values(pf.to_pandas()) != old_vals:
            add("handle-read-after-refusal", "the handle no longer reads the previous content")
    except BaseException as e:       # noqa
        add("handle-read-after-refusal", "reading through the handle fails: %s: %s" % (type(e).__name__, str(e)[:100]))
    try:
        if dsfs.values(pickle.loads(pickle.dumps(pf)).to_pandas()) != old_vals:
            add("pickled-handle-after-refusal", "a pickled copy of the handle does not read the previous content")
    except BaseException as e:       # noqa
        add("pickled-handle-after-refusal", "a pickled copy of the handle cannot read: %s: %s" % (type(e).__name__, str(e)[:100]))
    # the next valid append through the same handle
    nok = min(2, len(sc["frame0"][0][2]))
    frame_ok = [[f[0], f[1], list(f[2][:nok])] for f in sc["frame0"]]
    try:
        pf.write_row_groups(L.to_df(frame_ok))
        vals = dsfs.values(ParquetFile(work).to_pandas())
        nold = len(old_vals[0][1]) if old_vals else 0
        newv = dsfs.values(L.to_df(frame_ok))
        if len(vals[0][1]) != nold + nok:
            add("next-append-after-refusal", "a valid append of %d rows through the same handle leaves %d rows (%d before)" % (nok, len(vals[0][1]), nold))
        elif [[c, col[:nold]] for c, col in vals] != old_vals or not new_rows_match(vals, nold, newv, sc["partition_on"]):
            add("next-append-after-refusal", "a valid append through the same handle: old rows intact %s, new rows as written %s" % (
                [[c, col[:nold]] for c, col in vals] == old_vals, new_rows_match(vals, nold, newv, sc["partition_on"])))
    except BaseException as e:       # noqa
        add("next-append-after-refusal", "a valid append through the same handle fails / cannot be read: %s: %s" % (type(e).__name__, str(e)[:100]))
    return out


def run_scenario(arg):
    sc, scratch = arg
    out = {"id": sc["id"], "error": None}
    base = os.path.join(scratch, "s%d" % sc["id"])
    try:
        from fastparquet import ParquetFile, write
        os.makedirs(os.path.join(base, "p"))
        os.makedirs(os.path.join(base, "w"))
        simple = sc["scheme"] == "simple"
        pristine = os.path.join(base, "p", "ds")
        try:
            create(pristine, sc)
            if sc.get("drop_summary"):
                os.remove(os.path.join(pristine, dsfs.MD))
                os.remove(os.path.join(pristine, dsfs.CMD))
            pf0 = ParquetFile(pristine)
            old_vals = dsfs.values(pf0.to_pandas())
            want = len(sc["frame0"][0][2]) + (len(sc["prior"]["frame"][0][2]) if sc.get("prior") else 0)
            if (len(old_vals[0][1]) if old_vals else 0) != want:
                raise RuntimeError("setup: the existing dataset holds %s rows, expected %d" % (len(old_vals[0][1]) if old_vals else 0, want))
        except BaseException as e:               # noqa
            if not sc.get("prior"):
                raise
            # the successful append used to build the existing state is itself broken on this tree (C07/C19's subject):
            # fall back to the state without it, so that this check keeps looking at refusals
            out["setup_fallback"] = "%s: %s" % (type(e).__name__, str(e)[:120])
            shutil.rmtree(os.path.join(base, "p"), ignore_errors=True)
            os.makedirs(os.path.join(base, "p"))
            sc = dict(sc, prior=None)
            create(pristine, sc)
            pf0 = ParquetFile(pristine)
            old_vals = dsfs.values(pf0.to_pandas())
        refs = [] if simple else dsfs.refs_of(pf0)
        out["dset"] = [pf0.file_scheme, 1 if pf0.fn.endswith("_metadata") else 0, [c.encode() for c in pf0.cats],
                       [c.encode() for c in pf0.columns], [r.encode() for r in refs]]
        out["request"] = abstract_request(sc, pf0)
        out["refs"] = refs
        out["nold"] = len(old_vals[0][1]) if old_vals else 0
        # the working copy; the recorder's root is the dataset directory (or the directory holding the single file)
        wroot = os.path.join(base, "w")
        work = os.path.join(wroot, "ds")
        if simple:
            shutil.copy(pristine, work)
            root = wroot
        else:
            shutil.copytree(pristine, work)
            root = work
        if sc["api"] == "merge":
            write(os.path.join(work, "other.parquet"), L.to_df(sc["kwargs"]["other"]), object_encoding={"b": "int", "s": "utf8"},
                  has_nulls=False, write_index=False)
        snap0 = dsfs.snapshot(root)
        fault = {}
        if sc["variant"]["kind"] == "io_fault":
            # dry run on a copy: which write call is the first / a middle one / the new footer's thrift bytes, length, magic
            dry = os.path.join(base, "d")
            os.makedirs(dry)
            shutil.copy(pristine, os.path.join(dry, "ds"))
            rec0 = L.PosRecorder(dry)
            with rec0:
                write(os.path.join(dry, "ds"), L.to_df(sc["frame1"]), open_with=rec0.open_with, mkdirs=rec0.mkdirs, **sc["kwargs"])
            widx = [k + 1 for k, kd in enumerate(rec0.kinds) if kd == "write"]
            k = {"first_write": widx[0], "middle_write": widx[len(widx) // 2], "footer_thrift": widx[-3], "footer_length": widx[-2],
                 "footer_magic": widx[-1]}[sc["variant"]["where"]]
            fault = {"fail_at": k, "variant": sc["variant"]["fault_variant"]}
            out["fault_call"] = [k, len(rec0.kinds)]
        rec = L.PosRecorder(root, keep_data=False, **fault)
        raised = None
        with rec:
            try:
                if sc["api"] == "read":
                    kw = dict(sc["kwargs"])
                    via = kw.pop("via", "to_pandas")
                    if "filters" in kw:
                        kw["filters"] = as_filters(kw["filters"])
                    pfr = ParquetFile(work, open_with=rec.open_with)
                    if isinstance(kw.get("dtypes"), str):
                        # the handle's own dtypes of the SELECTED known columns (a dtypes= dict naming more columns than columns= makes
                        # the unchanged tree fail in read_row_group - an option interplay outside this property, noted in notes/C18.md)
                        kw["dtypes"] = {c: t for c, t in pfr.dtypes.items() if c in kw["columns"]}
                    if via == "to_pandas":
                        pfr.to_pandas(**kw)
                    elif via == "iter_row_groups":
                        list(pfr.iter_row_groups(**kw))
                    elif via == "head":
                        pfr.head(2, **kw)
                    elif via == "count":
                        pfr.count(**kw)
                    else:
                        raise KeyError(via)
                elif sc["api"] == "merge":
                    from fastparquet.writer import merge
                    parts = sorted(os.path.join(work, r) for r in refs)
                    merge(parts + [os.path.join(work, "other.parquet")], open_with=rec.open_with)
                elif sc["kwargs"].get("append") == "overwrite":
                    # no wrappers here: with a user-supplied open_with the ParquetFile inside writer.overwrite has no `.fs`
                    # and _sort_part_names cannot rename (observation recorded in notes/C09.md); the audit hook records the calls
                    write(work, L.to_df(sc["frame1"]), **sc["kwargs"])
                else:
                    write(work, L.to_df(sc["frame1"]), open_with=(dsfs.rec_fs(rec).open if sc.get("drop_summary") else rec.open_with),
                          mkdirs=rec.mkdirs, **sc["kwargs"])
            except BaseException as e:       # noqa
                raised = "%s: %s" % (type(e).__name__, str(e)[:160].replace("\n", " "))
        snap1 = dsfs.snapshot(root)
        out.update(raised=raised, trace=rec.trace, bypassed=rec.bypassed,
                   changed=sorted(p for p in snap0 if p in snap1 and snap1[p] != snap0[p]),
                   removed=sorted(p for p in snap0 if p not in snap1),
                   new=sorted(p for p in snap1 if p not in snap0))
        try:
            vals = dsfs.values(ParquetFile(work).to_pandas())
            out["read"] = "old" if vals == old_vals else "other"
            out["nrows"] = len(vals[0][1]) if vals else 0
            if sc["variant"]["kind"] == "sentinel_ok" and raised is None:
                # accepted: old rows untouched and first, the new rows (any order inside a partitioned row group) with the sentinel cell missing
                nold = len(old_vals[0][1])
                newv = dsfs.values(L.to_df(sc["frame1"]))
                want = sorted(map(repr, zip(*[dict(newv)[c] for c, _ in vals])))
                got = sorted(map(repr, zip(*[[str(x) if c in sc["partition_on"] and x is not None else x for x in col[nold:]] for c, col in vals])))
                want = sorted(map(repr, zip(*[[str(x) if c in sc["partition_on"] and x is not None else x for x in dict(newv)[c]] for c, _ in vals])))
                out["sentinel"] = {"old_intact": [[c, col[:nold]] for c, col in vals] == old_vals, "new_rows_match": got == want,
                                   "missing_cells_read": sum(1 for x in dict(vals)["b"][nold:] if x is None)}
        except BaseException as e:           # noqa
            out["read"] = "unreadable"
            out["read_detail"] = "%s: %s" % (type(e).__name__, str(e)[:160])
        if sc["api"] == "write" and sc["kwargs"].get("append") is True and sc["variant"]["kind"] in CONT_KINDS:
            out["cont"] = continuation(sc, pristine, base, old_vals, simple)
        if simple:
            out["f0"] = snap0["ds"]
            out["f1"] = snap1.get("ds")
            out["ptrace"] = rec.ptrace.get("ds", [])
        elif sc["api"] == "write" and sc["variant"]["expect"] == "late":
            rgs, fail = plan_files(sc, L.to_df(sc["frame1"]))
            out["plan"] = [rgs, fail]
    except BaseException:                     # noqa
        out["error"] = traceback.format_exc()[-3000:]
    finally:
        shutil.rmtree(base, ignore_errors=True)
    return out


# ---------------------------------------------------------------------------------------------
def judge(sc, res):
    """the property's own text on one run: list of (symptom, text)."""
    problems = []
    expect = sc["variant"]["expect"]
    if expect == "ok":
        if res["raised"]:
            problems.append(("control-raised", "a call the library should accept raised %s" % res["raised"]))
        sen = res.get("sentinel")
        if sen and not (sen["old_intact"] and sen["new_rows_match"] and sen["missing_cells_read"] == 1):
            problems.append(("sentinel-cell-not-kept", "accepted append of a NaN / NaT / <NA> cell into a non-nullable float / time column: %s" % sen))
        return problems
    if res["raised"] is None:
        problems.append(("no-exception", "the call returned normally (fresh open reads %s content, %s rows, before %s)" % (
            res["read"], res.get("nrows"), res["nold"])))
    if res["changed"] or res["removed"]:
        problems.append(("existing-file-changed", "changed: %s removed: %s" % (res["changed"][:3], res["removed"][:3])))
    if res["read"] != "old":
        problems.append(("content-changed" if res["read"] == "other" else "unreadable",
                         "after the %s a fresh open reads %s (%s)" % ("exception " + res["raised"] if res["raised"] else "call", res["read"],
                                                                      res.get("read_detail", "%s rows, before %s" % (res.get("nrows"), res["nold"])))))
    for sym, text in (res.get("cont") or {}).get("problems", []):
        problems.append((sym, text))
    if expect == "validation" and res["new"]:
        problems.append(("validation-rejection-left-new-files", "new files: %s" % res["new"][:4]))
    return problems


def proj(trace):
    """open/close kinds and paths; a repeated close of the same handle (nested `with` blocks) counts once"""
    out = []
    for c in trace:
        if c[0] in ("openw", "close") and (not out or out[-1] != [c[0], c[1]]):
            out.append([c[0], c[1]])
    return out


def run(ctx):
    C.coq_lib()
    ctx.trusted = TRUSTED
    ctx.coq_file(os.path.join(C.COQ, "props", "C18.v"))
    bad = C.hygiene()
    ctx.obligation("hygiene: no Admitted/Axiom/Parameter/... in coq/", not bad, "; ".join(bad))
    if not ctx.quick():
        from harness import dsedit2_lib as _L
        _L.coqchk(ctx, ["Pq.Proofs.RejectProofs"])
    C.use_shadow()
    C.pqref()
    rng = ctx.rng
    variants = all_variants()
    ctx.rule = ("scenario = existing dataset (single file / hive / hive partitioned on 1 or 2 columns / drill; 1..3 row groups) x kind of refusal "
                "(%d kinds incl. 3 accepted controls) x position of the offending column (first/middle/last) x offending row group (first/later); "
                "the thorough tier runs the whole enumeration three times (%d variants, frames random), the quick tier every (state, kind) pair twice (when it has two variants) with random "
                "position parameters; a case is trivial when it is an accepted control" % (len(set(v["kind"] for v in variants)), len(variants)))
    if ctx.quick():
        by = {}
        for v in variants:
            by.setdefault((v["state"], v["kind"], v.get("family") or "", v.get("oe") or "", v.get("where") or "", tuple(v.get("opts") or ())), []).append(v)
        variants = [v for _, vs in sorted(by.items())
                    for v in (vs if (vs[0]["kind"].startswith("read_") and not vs[0].get("opts")) else rng.sample(vs, min(len(vs), 1 if vs[0].get("family") else (4 if vs[0]["expect"] == "late" else 2))))]
    else:
        variants = variants * 3                   # three random frames / parameter draws per variant
    scs = [build(v, rng, i) for i, v in enumerate(variants)]
    cdir = os.path.join(C.VERIF, "corpus", "C18")
    if os.path.isdir(cdir):
        for i, f in enumerate(sorted(os.listdir(cdir))):
            sc = json.load(open(os.path.join(cdir, f)))["scenario"]
            sc["id"] = 100000 + i
            scs.insert(0, sc)
    results = C.pmap(run_scenario, [(sc, ctx.scratch) for sc in scs], nproc=8 if ctx.quick() else 12, job_timeout=60)
    by_id = {sc["id"]: sc for sc in scs}
    # a scenario whose worker process crashed (segfault / abort in native code) or hung is a failing input of its own
    ncr = 0
    for sc, r in zip(scs, results):
        if isinstance(r, dict) and "__crashed__" in r:
            ncr += 1
            v = sc["variant"]
            if ncr <= 5:
                ctx.fail({"component": "write_simple.append" if v["state"] == "simple" else "write_multi", "symptom": "process-crashed-or-hung",
                          "kind": v["kind"], "expect": v["expect"], "state": v["state"]},
                         {"scenario": sc, "observed": r["__crashed__"]},
                         "building the dataset, the call or the read-back kills or hangs the process: %s" % r["__crashed__"])
    keep = [i for i, r in enumerate(results) if not (isinstance(r, dict) and "__crashed__" in r)]
    scs = [scs[i] for i in keep]
    results = [results[i] for i in keep]
    cmds, meta = [], []
    orphans = 0
    for res in results:
        sc = by_id[res["id"]]
        v = sc["variant"]
        if res["error"]:
            raise RuntimeError("scenario %d (%s) failed in the harness:\n%s" % (res["id"], v, res["error"]))
        short = {"scenario": sc["id"], "state": v["state"], "nrg": v["nrg"], "kind": v["kind"], "pos": v.get("pos"), "rg": v.get("rg"),
                 "raised": res["raised"]}
        ctx.case({"v": v, "f1": sc["frame1"], "kw": sc["kwargs"]}, trivial=v["expect"] == "ok")
        ctx.count("state", "%s/%d" % (v["state"], v["nrg"]))
        ctx.count("kind", v["kind"])
        ctx.count("expect", v["expect"])
        if res.get("setup_fallback"):
            ctx.count("setup_fallback", res["setup_fallback"][:60])
        ctx.count("position", "%s/%s" % (v.get("pos"), v.get("rg")))
        if v.get("family") and v["kind"] == "dt_out_of_range":
            ctx.count("date_outside_the_stored_range", "%s/%s/%s" % (v["family"], v["pos"], v["rg"]))
        elif v.get("family") and v["kind"] == "sentinel_ok":
            ctx.count("sentinel_cell_in_required_column", "%s/%s/%s" % (v["family"], v["pos"], v["rg"]))
        elif v.get("family") and v["kind"] == "na_nonnull":
            ctx.count("missing_value_in_required_column", "%s/%s/%s" % (v["family"], v["pos"], v["rg"]))
        elif v.get("family"):
            ctx.count("unsupported_family", "%s/%s/%s" % (v["family"], v["oe"], v["pos"]))
        if v["kind"] == "partition_mismatch":
            ctx.count("partition_mismatch", "%s/%s" % (v.get("where") or "other list", v["state"]))
        if v["kind"] == "io_fault":
            ctx.count("io_fault", "%s/%s" % (v["where"], v["fault_variant"]))
        if v["kind"].startswith("read_"):
            ctx.count("read_shape", "%s/%s/grp=%s/pos=%s/%s/row_filter=%s" % (v["kind"], v.get("shape"), v.get("grp"), v.get("pos"), v.get("via"), v.get("row_filter")))
        ctx.count("outcome", "%s/%s/%s" % (v["expect"], "raised" if res["raised"] else "returned", res["read"]))
        if res.get("cont"):
            ctx.count("continued_on_the_same_handle_after_refusal", "%s: %s" % (v["kind"], "refused, then len/read/pickle/next append checked" if res["cont"]["refused"] else "write_row_groups accepts it"))
        wrote = any(c[0] not in ("mkdir", "close") for c in res["trace"])
        for sym, text in judge(sc, res):
            ctx.fail({"component": "write_simple.append" if v["state"] == "simple" else "write_multi", "symptom": sym, "kind": v["kind"],
                      "expect": v["expect"], "state": v["state"]},
                     {"scenario": sc, "observed": {"raised": res["raised"], "read": res["read"], "changed": res["changed"], "new": res["new"][:6],
                                                   "trace": dsfs.trace_json(res["trace"], 60)}}, text)
        if v["expect"] == "late" and res["new"]:
            orphans += 1
        # tie 1: the model's verdict
        cmds.append(("verdict", res["request"], res["dset"]))
        meta.append(("verdict", short, res, sc))
        tr_nodata = dsfs.sx_trace([(c[0], c[1], b"") if c[0] == "write" else c for c in res["trace"]])
        if v["kind"] in FINDING_KINDS:
            ctx.count("confirmation_stream", "%s/%s: %s" % (v["kind"], v["state"], "reproduced" if judge(sc, res) else "dataset intact"))
            continue                     # (no rollback exists for these: the proved trace relations are not claimed for them)
        if v["expect"] == "validation":
            cmds.append(("no_write", tr_nodata))
            meta.append(("no_write", short, res, sc))
        elif v["expect"] == "late" and v["state"] != "simple":
            cmds.append(("safe_trace", [p.encode() for p in res["refs"]], tr_nodata))
            meta.append(("safe", short, res, sc))
            if res.get("plan") and res["plan"][1] is not None:
                cmds.append(("multi_fail", [p.encode() for p in res["refs"]],
                             [[[d.encode(), mk, nw] for d, mk, nw in g] for g in res["plan"][0]], res["plan"][1], 0))
                meta.append(("multi_fail", short, res, sc))
        if v["state"] == "simple" and "ptrace" in res and res["f1"] is not None:
            cmds.append(("fops_run", res["f0"], L.sx_fops(res["ptrace"])))
            meta.append(("fops", short, res, sc))
            if v["expect"] == "late":
                cmds.append(("restoring", res["f0"], L.sx_fops(res["ptrace"])))
                meta.append(("restoring", short, res, sc))
            firstw = [o for o in res["ptrace"] if o[0] == "pwrite"]
            if firstw and not res["raised"]:       # a successful append: every recorded write belongs to the new row groups / footer
                cmds.append(("foot_start", res["f0"]))
                meta.append(("foot_start", short, res, sc))
    pq = C.Pqref()
    outs = pq.batch(cmds)
    pq.close()
    if len(outs) != len(cmds):
        raise RuntimeError("pqref answered %d of %d commands" % (len(outs), len(cmds)))
    ctx.extra["extraction_vs_kernel_examples"] = L.extract_agreement(ctx, "C18", cmds, outs)
    for (kind, short, res, sc), o in zip(meta, outs):
        v = sc["variant"]
        wrote = any(c[0] not in ("mkdir", "close") for c in res["trace"])
        if kind == "verdict":
            real = "rejected-before-any-file-call" if (res["raised"] and not wrote) else "reached-its-effect-stage"
            if sc["api"] == "read" and not res["raised"]:
                real = "accepted"
            if isinstance(o, list) and len(o) == 3 and o[0] == o[1]:
                model = "rejected-before-any-file-call" if o[0] else ("accepted" if sc["api"] == "read" else "reached-its-effect-stage")
            else:
                model = o
            ctx.correspondence("model verdict (Reject.rejected / exec program) = what the real call did", short, model, real)
        elif kind == "no_write":
            ctx.correspondence("check_no_write(recorded calls of a refused request) = true", short, 1, o)
        elif kind == "safe":
            ok = ctx.correspondence("check_safe_trace(refs, recorded calls of a late failure on a multi-file dataset) = true", short, 1, o)
            if not ok and ctx.broken and "trace" not in ctx.broken[-1]:
                ctx.broken[-1]["trace"] = dsfs.trace_json(res["trace"], 100)
        elif kind == "multi_fail":
            model = [[bytes(c[0]).decode(), bytes(c[1]).decode()] for c in o[0] if bytes(c[0]) in (b"openw", b"close")] if isinstance(o, list) else o
            # information (DESIGN 4.2): is the deterministic model's call sequence exactly what the code did?  (A failed append that e.g.
            # rewrites the summary files with their unchanged content is inside the proved relation check_safe_trace - evaluated above on
            # the recorded calls - and leaves the dataset as it was; the exact sequence is not an obligation.)
            same = model == proj(res["trace"])
            mf = ctx.extra.setdefault("multi_fail_model_sequence_vs_recorded", {"equal": 0, "different": 0, "examples": []})
            mf["equal" if same else "different"] += 1
            if not same and len(mf["examples"]) < 3:
                mf["examples"].append({"case": short, "model": str(model)[:300], "recorded": str(proj(res["trace"]))[:300]})
            ctx.correspondence("model trace of multi_fail satisfies check_safe_trace", short, 1, o[1] if isinstance(o, list) else o)
        elif kind == "fops":
            ctx.correspondence("positional file model run_fops(recorded writes/truncates) = bytes on disk", short,
                               C.sha(bytes(o))[:16] if isinstance(o, bytes) else o, C.sha(res["f1"])[:16])
        elif kind == "foot_start":
            firstw = [x for x in res["ptrace"] if x[0] == "pwrite"]
            ctx.correspondence("model foot_start(old bytes) = position of the first write of the real single-file append", short,
                               o, [firstw[0][1]])
        elif kind == "restoring":
            ctx.correspondence("check_restoring(old bytes, positional trace of the failed single-file append) = true", short, 1, o)
    ctx.extra["late_failures_leaving_orphan_part_files"] = orphans
    ctx.notes.append("late failures on multi-file datasets leave the part files written so far (unreferenced, invisible to a fresh open): %d of the runs" % orphans)


def replay(rep):
    if rep.get("kind") == "no-failing-input-found":
        print(json.dumps(rep, indent=1)[:6000])
        return 1
    C.use_shadow()
    sc = rep["case"]["scenario"]
    tmp = tempfile.mkdtemp(prefix="verif-C18-replay-", dir="/tmp")
    try:
        res = C.pmap(run_scenario, [(sc, tmp)], nproc=1, job_timeout=300)[0]       # in a child: a crash is an observation
        if "__crashed__" in res:
            print("scenario: %s" % sc["variant"])
            print("PROPERTY FAILS: process-crashed-or-hung: %s" % res["__crashed__"])
            return 1
        if res["error"]:
            print(res["error"])
            return 1
        v = sc["variant"]
        print("existing dataset: %s, %d row groups, %d rows; call: %s(%s) kind=%s pos=%s rg=%s" % (
            v["state"], v["nrg"], res["nold"], sc["api"], {k: x for k, x in sc["kwargs"].items()}, v["kind"], v.get("pos"), v.get("rg")))
        print("call: %s" % ("raised " + res["raised"] if res["raised"] else "returned normally"))
        print("file-system calls: %s" % dsfs.trace_json(res["trace"], 30))
        print("existing files changed: %s removed: %s new: %s" % (res["changed"], res["removed"], res["new"]))
        print("fresh open reads: %s %s" % (res["read"], res.get("read_detail", "")))
        problems = judge(sc, res)
        for sym, text in problems:
            print("PROPERTY FAILS: %s: %s" % (sym, text))
        return 1 if problems else 0
    finally:
        shutil.rmtree(tmp, ignore_errors=True)
